#!/bin/bash
# Offline setup: make sure Hypothesis is importable by /venv's interpreter; nothing is fetched.
cd "$(dirname "$(readlink -f "$0")")" || exit 2
export PIP_NO_INDEX=1
PY=/venv/bin/python
if ! $PY -c "import hypothesis" 2>/dev/null; then
  /venv/bin/pip install --no-index --find-links /opt/veriftools/wheels hypothesis || exit 1
fi
mkdir -p .deps .cache evidence replays
if ! PYTHONPATH=.deps $PY -c "import atheris" 2>/dev/null; then
  /venv/bin/pip install --no-index --find-links /opt/veriftools/wheels --target .deps atheris >/dev/null 2>&1 || echo "note: atheris not installed (only the optional C20 fuzz tier uses it)"
fi
$PY -c "import hypothesis, numpy, scipy, numba; print('setup ok: hypothesis', hypothesis.__version__)"
