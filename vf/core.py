"""Clause / context / exception vocabulary shared by every property module."""
import collections
import signal
import traceback

from . import ser


class Violation(Exception):
    """The property does not hold for the current case."""


class LibError(Violation):
    """The library raised where the clause expects it to return.  Clauses for which an
    exception is an allowed outcome catch this explicitly."""

    def __init__(self, exc, where):
        # keep only the type and text: holding the exception itself would keep its (possibly 1000-deep)
        # __context__ chain alive, which Hypothesis' reporter cannot print without overflowing the stack
        self.exc_type = type(exc).__name__
        self.exc = exc
        try:
            exc.__context__ = None
            exc.__cause__ = None
            exc.__traceback__ = None
        except Exception:
            pass
        self.where = where
        super().__init__("library raised %s at %s: %s" % (type(exc).__name__, where, str(exc)[:300]))


class Skip(Exception):
    """Case is outside the domain the property quantifies over (counted, never a pass)."""

    def __init__(self, reason):
        self.reason = reason
        super().__init__(reason)


class Inconclusive(Exception):
    """Per-case runaway guard fired: counted, never a violation (unless the clause says so)."""


class HarnessError(Exception):
    """Something is wrong with the check itself: exit 2, never a VIOLATION."""


def _lib_frame(tb):
    where = "?"
    for fr in traceback.extract_tb(tb):
        if "/basic_robotics/" in fr.filename:
            where = "%s:%d(%s)" % (fr.filename.split("/basic_robotics/")[-1], fr.lineno, fr.name)
    return where


def sut(fn, *args, **kw):
    """Call into the library under test; a library exception becomes LibError (a Violation)."""
    try:
        return fn(*args, **kw)
    except (Violation, Skip, Inconclusive, HarnessError, KeyboardInterrupt, MemoryError):
        raise
    except RecursionError as e:
        err = LibError(e, _lib_frame(e.__traceback__))
    except BaseException as e:  # noqa: B902 -- SystemExit from library code is a failure too
        if isinstance(e, (SystemExit, GeneratorExit)):
            err = LibError(e, "?")
        else:
            err = LibError(e, _lib_frame(e.__traceback__))
    raise err from None


class _Alarm:
    """CPU-time guard: ITIMER_VIRTUAL (user CPU time of this process), so machine load cannot trip
    it; after the first expiry it re-fires every 50 ms, so an exception swallowed by a bare
    `except:` inside the library is raised again until it gets out."""

    def __init__(self, seconds, exc):
        self.seconds = seconds
        self.exc = exc

    def _fire(self, signum, frame):
        raise self.exc

    def __enter__(self):
        self.old = signal.signal(signal.SIGVTALRM, self._fire)
        signal.setitimer(signal.ITIMER_VIRTUAL, self.seconds, 0.05)
        return self

    def __exit__(self, *a):
        signal.setitimer(signal.ITIMER_VIRTUAL, 0)
        signal.signal(signal.SIGVTALRM, self.old)
        return False


def time_guard(seconds, exc=None):
    """Runaway guard (library loops), in CPU seconds: raises Inconclusive by default."""
    return _Alarm(seconds, exc if exc is not None else Inconclusive("guard %ss cpu" % seconds))


class Ctx:
    """Per-case context handed to Clause.check."""

    __slots__ = ("labels", "nontrivial_flag", "notes", "replay")

    def __init__(self, replay=False):
        self.labels = []
        self.nontrivial_flag = False
        self.notes = {}
        self.replay = replay

    def label(self, name):
        self.labels.append(str(name))

    def nontrivial(self, flag=True):
        if flag:
            self.nontrivial_flag = True

    def skip(self, reason):
        raise Skip(reason)

    def note(self, key, value):
        self.notes[key] = value


class Clause:
    """One executable statement of (part of) a property.

    kind 'hyp'  : strategy -> case; check(case, ctx) raises Violation.
    kind 'enum' : size(tier) -> N; case_at(i, tier) -> case (or run_range for bulk speed).
    region(case, message) -> name of an open known-finding region the failing case lies in, or None.
    """

    def __init__(self, name, check, strategy=None, n_quick=200, n_thorough=2000, kind="hyp",
                 size=None, case_at=None, run_range=None, region=None, doc="", shrink_quick=True,
                 max_shards=None):
        self.name = name
        self.check = check
        self.strategy = strategy
        self.n_quick = n_quick
        self.n_thorough = n_thorough
        self.kind = kind
        self.size = size
        self.case_at = case_at
        self.run_range = run_range
        self.region = region
        self.doc = doc
        self.shrink_quick = shrink_quick
        self.max_shards = max_shards

    def n(self, tier):
        return self.n_quick if tier == "quick" else self.n_thorough


class Stats:
    """Mergeable per-clause statistics."""

    MAX_SAMPLES = 3

    def __init__(self):
        self.evals = 0
        self.skipped = collections.Counter()
        self.inconclusive = 0
        self.known = collections.Counter()
        self.labels = collections.Counter()
        self.digests = set()          # digests of distinct non-trivial cases
        self.nontrivial_bulk = 0      # distinct-by-construction non-trivial cases (enumerations)
        self.samples = []
        self.failure = None           # (case_jsonable, message)
        self.exhaustive = None
        self.extra = {}

    def record(self, case, ctx):
        self.evals += 1
        for l in ctx.labels:
            self.labels[l] += 1
        if ctx.nontrivial_flag:
            d = ser.digest(case)
            if d not in self.digests:
                self.digests.add(d)
                if len(self.samples) < self.MAX_SAMPLES:
                    s = {"case": ser.to_jsonable(case)}
                    if ctx.labels:
                        s["labels"] = list(ctx.labels)
                    if ctx.notes:
                        s["notes"] = ser.to_jsonable(ctx.notes)
                    self.samples.append(s)

    def to_partial(self):
        return {
            "evals": self.evals, "skipped": dict(self.skipped), "inconclusive": self.inconclusive,
            "known": dict(self.known), "labels": dict(self.labels),
            "digests": b"".join(sorted(self.digests)).hex(), "nontrivial_bulk": self.nontrivial_bulk,
            "samples": self.samples, "failure": self.failure, "exhaustive": self.exhaustive,
            "extra": self.extra,
        }

    @classmethod
    def from_partial(cls, p):
        s = cls()
        s.evals = p["evals"]
        s.skipped.update(p["skipped"])
        s.inconclusive = p["inconclusive"]
        s.known.update(p["known"])
        s.labels.update(p["labels"])
        raw = bytes.fromhex(p["digests"])
        s.digests = {raw[i:i + 8] for i in range(0, len(raw), 8)}
        s.nontrivial_bulk = p["nontrivial_bulk"]
        s.samples = p["samples"]
        s.failure = p["failure"]
        s.exhaustive = p["exhaustive"]
        s.extra = p.get("extra", {})
        return s

    def merge(self, o):
        self.evals += o.evals
        self.skipped.update(o.skipped)
        self.inconclusive += o.inconclusive
        self.known.update(o.known)
        self.labels.update(o.labels)
        self.digests |= o.digests
        self.nontrivial_bulk += o.nontrivial_bulk
        for smp in o.samples:
            if len(self.samples) < self.MAX_SAMPLES:
                self.samples.append(smp)
        if self.failure is None:
            self.failure = o.failure
        if o.exhaustive is not None:
            self.exhaustive = o.exhaustive if self.exhaustive is None else (self.exhaustive and o.exhaustive)
        for k, v in o.extra.items():
            if isinstance(v, (int, float)) and isinstance(self.extra.get(k, 0), (int, float)):
                self.extra[k] = self.extra.get(k, 0) + v
            else:
                self.extra.setdefault(k, v)

    @property
    def nontrivial(self):
        return len(self.digests) + self.nontrivial_bulk
