"""Byte / identity / extent fingerprints of every ndarray reachable from an object (C14).

Never imports basic_robotics: library objects are recognised structurally (an instance whose class lives in a
module named ``basic_robotics...`` and that has a ``__dict__``), so tm / Screw / Wrench / Twist / Arm / SP objects
are walked attribute by attribute; lists, tuples and dicts member by member; object-dtype arrays element by
element.  Cycles are cut by ``id``.

    walk(obj, skip=())            -> Walk: .arrays [(path, ndarray)], .leaves [(path, repr)], .nodes [(path, type, id, len)]
    fingerprint(obj, skip=())     -> Fingerprint (immutable snapshot of a Walk)
    diff(before, after, identity) -> list of human-readable differences ([] = unchanged)
    arrays_of(obj, skip=())       -> [(path, ndarray)]
    shared(result_arrays, operand_arrays) -> [(path_r, path_o)] pairs with np.shares_memory
    bump(arr)                     -> mutate every element of arr in place (True if something was written)

``skip`` is a collection of attribute names that are not followed on library objects (C14 uses it to leave the
frame / position metadata objects of a RESULT alone; operands are always walked completely).
"""
import numpy as np

try:                                     # NumPy >= 2
    from numpy.lib.array_utils import byte_bounds as _byte_bounds
except ImportError:                      # pragma: no cover  (NumPy 1.x)
    _byte_bounds = np.byte_bounds

_SCALARS = (bool, int, float, complex, str, bytes, type(None), np.generic)
MAX_DEPTH = 12


def _is_lib_object(x):
    mod = getattr(type(x), "__module__", "") or ""
    return mod.split(".")[0] == "basic_robotics" and hasattr(x, "__dict__")


class Walk:
    __slots__ = ("arrays", "leaves", "nodes")

    def __init__(self):
        self.arrays = []      # (path, ndarray)
        self.leaves = []      # (path, "type:repr")
        self.nodes = []       # (path, typename, id, len or -1)


def _leaf_repr(x):
    if isinstance(x, float):
        return "float:" + x.hex()
    if isinstance(x, np.floating):
        return "%s:%s" % (type(x).__name__, float(x).hex())
    return "%s:%r" % (type(x).__name__, x)


def _walk(x, path, skip, seen, out, depth):
    if isinstance(x, _SCALARS):
        out.leaves.append((path, _leaf_repr(x)))
        return
    if id(x) in seen:
        out.nodes.append((path, "ref", id(x), -1))
        return
    if depth > MAX_DEPTH:
        out.nodes.append((path, "depth-cut:" + type(x).__name__, id(x), -1))
        return
    seen.add(id(x))
    if isinstance(x, np.ndarray):
        out.arrays.append((path, x))
        if x.dtype == object:
            for idx in np.ndindex(x.shape):
                _walk(x[idx], "%s%s" % (path, list(idx)), skip, seen, out, depth + 1)
        return
    if isinstance(x, (list, tuple)):
        out.nodes.append((path, type(x).__name__, id(x), len(x)))
        for i, m in enumerate(x):
            _walk(m, "%s[%d]" % (path, i), skip, seen, out, depth + 1)
        return
    if isinstance(x, dict):
        out.nodes.append((path, "dict", id(x), len(x)))
        for k in sorted(x, key=repr):
            _walk(x[k], "%s[%r]" % (path, k), skip, seen, out, depth + 1)
        return
    if _is_lib_object(x):
        d = vars(x)
        out.nodes.append((path, type(x).__name__, id(x), len(d)))
        for k in sorted(d):
            if k in skip:
                continue
            _walk(d[k], "%s.%s" % (path, k), skip, seen, out, depth + 1)
        return
    # anything else (functions, matplotlib handles, ...) is opaque: identity only
    out.nodes.append((path, "opaque:" + type(x).__name__, id(x), -1))


def walk(obj, skip=(), root="$"):
    out = Walk()
    _walk(obj, root, frozenset(skip), set(), out, 0)
    return out


def arrays_of(obj, skip=(), root="$"):
    return walk(obj, skip, root).arrays


class Fingerprint:
    """Snapshot: for every reachable ndarray its bytes, dtype, shape, strides, flags, object id, data pointer and
    memory extent; for every container / library object its identity and size; for every scalar leaf its value."""
    __slots__ = ("arrays", "leaves", "nodes")

    def __init__(self, w):
        self.arrays = {}
        for path, a in w.arrays:
            if a.dtype == object:
                payload = b"<object array>"
            else:
                payload = a.tobytes()          # C-order copy of the VALUES (NaN / -0.0 exact)
            lo, hi = _byte_bounds(a)
            self.arrays[path] = {
                "bytes": payload, "dtype": str(a.dtype), "shape": tuple(a.shape), "strides": tuple(a.strides),
                "writeable": bool(a.flags.writeable), "id": id(a),
                "ptr": int(a.__array_interface__["data"][0]), "extent": (int(lo), int(hi)),
            }
        self.leaves = dict(w.leaves)
        self.nodes = {p: (t, i, n) for (p, t, i, n) in w.nodes}


def fingerprint(obj, skip=(), root="$"):
    return Fingerprint(walk(obj, skip, root))


def _show(b, dtype, shape):
    try:
        return np.array2string(np.frombuffer(b, dtype=dtype).reshape(shape), precision=6, threshold=40)
    except (ValueError, TypeError):
        return "<%d bytes>" % len(b)


def diff(before, after, identity=True):
    """Differences between two fingerprints of the same object.  Value differences (bytes, dtype, shape, leaves,
    container sizes, members appearing / disappearing) are always reported; with identity=True a rebound array
    (other object id), moved storage (data pointer / extent) or changed strides / writeable flag is reported too."""
    out = []
    for p in sorted(set(before.arrays) | set(after.arrays)):
        b, a = before.arrays.get(p), after.arrays.get(p)
        if b is None or a is None:
            out.append("%s: array %s" % (p, "appeared" if b is None else "disappeared"))
            continue
        if b["dtype"] != a["dtype"] or b["shape"] != a["shape"]:
            out.append("%s: dtype/shape %s%s -> %s%s" % (p, b["dtype"], b["shape"], a["dtype"], a["shape"]))
        elif b["bytes"] != a["bytes"]:
            out.append("%s: VALUES changed %s -> %s" % (p, _show(b["bytes"], b["dtype"], b["shape"]),
                                                       _show(a["bytes"], a["dtype"], a["shape"])))
        if identity:
            if b["id"] != a["id"]:
                out.append("%s: rebound to another ndarray object" % p)
            elif b["ptr"] != a["ptr"] or b["extent"] != a["extent"]:
                out.append("%s: storage moved (ptr %x -> %x)" % (p, b["ptr"], a["ptr"]))
            elif b["strides"] != a["strides"] or b["writeable"] != a["writeable"]:
                out.append("%s: strides/flags changed" % p)
    for p in sorted(set(before.leaves) | set(after.leaves)):
        b, a = before.leaves.get(p), after.leaves.get(p)
        if b != a:
            out.append("%s: leaf %s -> %s" % (p, b, a))
    for p in sorted(set(before.nodes) | set(after.nodes)):
        b, a = before.nodes.get(p), after.nodes.get(p)
        if b is None or a is None:
            out.append("%s: member %s" % (p, "appeared" if b is None else "disappeared"))
            continue
        if b[0] != a[0] or b[2] != a[2]:
            out.append("%s: container %s(len %s) -> %s(len %s)" % (p, b[0], b[2], a[0], a[2]))
        elif identity and b[1] != a[1]:
            out.append("%s: rebound to another %s object" % (p, a[0]))
    return out


def values_changed(differences):
    return [d for d in differences if "rebound" not in d and "storage moved" not in d and "strides/flags" not in d]


def shared(result_arrays, operand_arrays):
    """Pairs (result path, operand path) whose storage overlaps (exact np.shares_memory; object arrays by identity)."""
    hits = []
    for pr, r in result_arrays:
        for po, o in operand_arrays:
            if r is o:
                hits.append((pr, po))
                continue
            if r.dtype == object or o.dtype == object or r.size == 0 or o.size == 0:
                continue
            if np.may_share_memory(r, o) and np.shares_memory(r, o):
                hits.append((pr, po))
    return hits


def bump(a):
    """Change every element of ndarray a in place (numeric += 1, bool inverted).  Returns True if written.
    NaN / inf entries (x + 1 == x) are overwritten with 1 so that EVERY element really changes."""
    if not isinstance(a, np.ndarray) or a.size == 0 or not a.flags.writeable or a.dtype == object:
        return False
    if a.dtype == bool:
        np.logical_not(a, out=a)
        return True
    if not (np.issubdtype(a.dtype, np.number)):
        return False
    with np.errstate(all="ignore"):
        old = a.copy()
        a += 1
        same = (a == old) | (a != a)
        if np.any(same):
            a[same] = np.where(old[same] == 1, 2, 1).astype(a.dtype)
    return True
