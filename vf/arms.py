"""Serial-arm fixtures shared by C05, C06, C07, C08, C13, C17.

A *case* never holds a library object: it holds an **arm spec** (a plain dict, serialisable by
``vf.ser``) and ``build_arm(spec)`` turns it into ``(arm, model)`` inside the check:

* ``arm``   -- a fresh ``basic_robotics.kinematics.Arm`` built through the public constructor exactly
  the way the test-suite's ``setUp`` (kind ``sixr`` / ``random``) or ``loadArmFromURDF`` (kind ``urdf``)
  does.  Every array handed to the constructor is a private copy, so whatever the constructor does to
  its arguments cannot reach the model.
* ``model`` -- an independent reference (``ArmModel``): base pose ``B`` (4x4), joint screws ``S`` (6xn,
  expressed in the *base* frame, Modern-Robotics order ``[w; v]``), home tool pose ``M0`` (base frame),
  joint home frames ``H`` (base frame), limits.  It is computed from the spec with ``vf.oracle`` only and
  its arrays are taken BEFORE the library constructor is called.
  FK of the model:  ``B . prod_i exp([S_i] clamp(theta)_i) . M``.

  **URDF arms are the exception**: their ``S``, ``M0``, ``H``, limits and fixed base offset are read
  from the arm object right after ``loadArmFromURDF`` returned (at the identity base, before anything
  else is called).  That is fine for C05-C08/C17, which quantify over what the arm does *after* it was
  loaded; that the loader reproduces the file's kinematics is C13's own statement and C13 must not use
  this model as its oracle.  ``loadArmFromURDF`` always builds at the identity base; a URDF spec with a
  non-identity ``base`` is therefore realised as ``load`` followed by ``arm.move(tm(base))`` (the only
  public way); the model says so in ``model.built_by_move``.

Spec::

    {"kind": "sixr"}                                             # the 6R arm of tests/test_kinematics_arm.py
    {"kind": "urdf", "name": <one of URDF_NAMES>}                # the five bundled URDF models
    {"kind": "random", "axes": 3xn, "points": 3xn, "ee_home": 6} # like the suite: S_i = [a_i; p_i x a_i]
    + "base":   6-vector TAA [x y z rx ry rz] of the base pose (zeros = identity)
    + "limits": None (suite default: sixr +-2pi, urdf as loaded, random +-pi = constructor default)
                or (mins, maxs) float arrays handed to setJointProperties

Joint vectors are drawn independently of the arm (its size is not known to the strategy) as *theta
codes* -- ``theta_codes()`` -- and decoded against the model inside the check (``decode_theta``).
``thetas(model, inside)`` is the direct strategy for code that already holds a model.

Nothing here needs the library at strategy time; ``build_arm`` / ``warm`` import it lazily from
whatever tree ``VF_REPO`` (default /repo) the runner put first on ``sys.path``.
"""
import math
import os

import numpy as np
from hypothesis import strategies as st

from . import gen as G
from . import oracle as O

PI = math.pi
TWO_PI = 2 * math.pi

URDF_NAMES = ("irb_2400.urdf", "puma_560.urdf", "ur5.urdf", "ur_description/ur10.urdf",
              "ur_description/ur5.urdf")


def repo_root():
    return os.environ.get("VF_REPO", "/repo")


def urdf_path(name):
    if name not in URDF_NAMES:
        raise ValueError("not a bundled URDF: %r" % (name,))
    return os.path.join(repo_root(), "tests", "test_helpers", name)


# ------------------------------------------------------------------------------------------------
# the reference model
# ------------------------------------------------------------------------------------------------

class ArmModel:
    """Independent kinematic description of one arm (see module docstring).

    Attributes
      n        number of joints
      B        4x4 base pose (world <- base)
      S        6xn joint screws in the base frame, MR order [w; v]
      M0       4x4 home tool pose in the base frame, as constructed
      M        4x4 current home tool pose in the base frame (== M0 until a check changes it)
      H        list of n 4x4 joint home frames in the base frame (orientation as the library keeps it:
               identity for sixr/random, the URDF joint frame for urdf)
      F        4x4 fixed base offset reported first by getJointTransforms (urdf only) or None
      mins, maxs   joint limits (float arrays, length n)
      kind, name, spec
      axes, points  3xn (sixr/random) or None
      built_by_move   True if the arm reached its base through ``move`` (urdf at a non-identity base)
      extras   dict: for sixr the suite's dynamic data (masses, link frames ``Tspace`` as 4x4 list, box
               dims, per-link mass frames) so that C06/C08 can build their own oracles
    """

    def __init__(self, **kw):
        self.extras = {}
        self.F = None
        self.axes = None
        self.points = None
        self.name = None
        self.built_by_move = False
        self.__dict__.update(kw)

    # dict-style access so that callers may treat it as a mapping
    def __getitem__(self, k):
        return self.__dict__[k]

    def copy(self):
        m = ArmModel()
        for k, v in self.__dict__.items():
            if isinstance(v, np.ndarray):
                v = v.copy()
            elif isinstance(v, list):
                v = [x.copy() if isinstance(x, np.ndarray) else x for x in v]
            elif isinstance(v, dict):
                v = dict(v)
            m.__dict__[k] = v
        return m


def clamp(model, theta):
    """Joint vector evaluated 'as if clamped to the limits' (a new array)."""
    th = np.array(theta, dtype=float).reshape(-1)
    return np.minimum(np.maximum(th, model.mins[:len(th)]), model.maxs[:len(th)])


def outside_limits(model, theta):
    th = np.asarray(theta, dtype=float).reshape(-1)
    return bool(np.any(th < model.mins[:len(th)]) or np.any(th > model.maxs[:len(th)]))


def chain_prefixes(model, theta):
    """[E_0, ..., E_n] with E_k = prod_{j<k} exp([S_j] theta_j) (base frame, NO clamping)."""
    E = [np.eye(4)]
    for i in range(model.n):
        E.append(E[-1] @ O.exp6(model.S[:, i] * theta[i]))
    return E


def model_fk(model, theta, M=None, B=None, clamped=True):
    """B . prod exp([S_i] clamp(theta)_i) . M  (4x4).  M/B default to the model's current ones."""
    th = clamp(model, theta) if clamped else np.asarray(theta, dtype=float).reshape(-1)
    M = model.M if M is None else M
    B = model.B if B is None else B
    return B @ O.poe_space(M, model.S, th)


def model_joint_frames(model, theta, B=None, clamped=True):
    """World poses of the joint frames: B . prod_{j<=i} exp([S_j] th_j) . H_i, i = 0..n-1."""
    th = clamp(model, theta) if clamped else np.asarray(theta, dtype=float).reshape(-1)
    B = model.B if B is None else B
    E = chain_prefixes(model, th)
    return [B @ E[i + 1] @ model.H[i] for i in range(model.n)]


def model_jac_space(model, theta, B=None, clamped=True):
    """World-frame space Jacobian: Ad(B) . J_s(S, theta)."""
    th = clamp(model, theta) if clamped else np.asarray(theta, dtype=float).reshape(-1)
    B = model.B if B is None else B
    return O.Ad(B) @ O.jac_space(model.S, th)


def model_jac_body(model, theta, M=None, clamped=True):
    """Body Jacobian in the tool frame: J_b(Ad(M^-1) S, theta) (independent of the base)."""
    th = clamp(model, theta) if clamped else np.asarray(theta, dtype=float).reshape(-1)
    M = model.M if M is None else M
    Blist = O.Ad(O.inv(M)) @ model.S
    return O.jac_body(Blist, th)


def model_scale(model, B=None, M=None):
    """Magnitude of the positions entering the arm's poses (for tolerances atol*max(1, scale))."""
    B = model.B if B is None else B
    M = model.M if M is None else M
    # every joint axis passes within |v_i| of the base origin (unit w); tool offset; base offset
    reach = float(np.linalg.norm(M[:3, 3]))
    if model.n:
        reach += 2.0 * float(np.max(np.linalg.norm(model.S[3:, :], axis=0)))
    return max(1.0, float(np.linalg.norm(B[:3, 3])) + reach)


# ------------------------------------------------------------------------------------------------
# the 6R arm of the test-suite (tests/test_kinematics_arm.py :: setUp), numbers copied verbatim
# ------------------------------------------------------------------------------------------------

_L1, _L2, _L3, _W = 4.5, 3.75, 3.75, 0.1


def sixr_parts():
    """Plain-numpy description of the suite's 6R arm (no library involved)."""
    L1, L2, L3, W = _L1, _L2, _L3, _W
    axes = np.array([[0, 0, 1], [0, 1, 0], [0, 1, 0], [1, 0, 0], [0, 1, 0], [1, 0, 0]], dtype=float).T
    points = np.array([[0, 0, 0], [0, 0, L1], [L2, 0, L1], [L2 + L3, 0, L1], [L2 + L3 + W, 0, L1],
                       [L2 + L3 + 2 * W, 0, L1]], dtype=float).T
    ee_home = np.array([L2 + L3 + W + W + W, 0, L1, 0, 0, 0], dtype=float)
    tspace = np.array([[0, 0, L1 / 2], [L2 / 2, 0, L1], [L2 + (L3 / 2), 0, L1], [L2 + L3 + (W / 2), 0, L1],
                       [L2 + L3 + W + (W / 2), 0, L1], [L2 + L3 + W + W + (W / 2), 0, L1]], dtype=float)
    box_dims = np.array([[W, W, L1], [L2, W, W], [L3, W, W], [W, W, W], [W, W, W], [W, W, W]], dtype=float).T
    masses = np.array([20, 20, 20, 1, 1, 1], dtype=float)
    return {"axes": np.ascontiguousarray(axes), "points": np.ascontiguousarray(points), "ee_home": ee_home,
            "tspace": tspace, "box_dims": np.ascontiguousarray(box_dims), "masses": masses,
            "mins": np.full(6, -TWO_PI), "maxs": np.full(6, TWO_PI)}


def screws_from_axes(axes, points):
    """S_i = [a_i; p_i x a_i] (revolute joint with axis a_i through point p_i), 6xn."""
    axes = np.asarray(axes, dtype=float)
    points = np.asarray(points, dtype=float)
    n = axes.shape[1]
    S = np.zeros((6, n))
    for i in range(n):
        S[:3, i] = axes[:, i]
        S[3:, i] = np.cross(points[:, i], axes[:, i])
    return S


def _transl(p):
    T = np.eye(4)
    T[:3, 3] = np.asarray(p, dtype=float).reshape(3)
    return T


def _lib():
    from basic_robotics.general import fsr, tm
    from basic_robotics.kinematics import Arm, loadArmFromURDF
    return Arm, loadArmFromURDF, tm, fsr


def _limits_of(spec, default_mins, default_maxs):
    lim = spec.get("limits")
    if lim is None:
        return np.array(default_mins, dtype=float), np.array(default_maxs, dtype=float), False
    mins = np.array(lim[0], dtype=float).reshape(-1)
    maxs = np.array(lim[1], dtype=float).reshape(-1)
    n = len(default_mins)
    if len(mins) < n or len(maxs) < n:
        raise ValueError("limits shorter than the arm")
    return mins[:n].copy(), maxs[:n].copy(), True


def _base_of(spec):
    b = spec.get("base")
    if b is None:
        return np.zeros(6)
    return np.array(b, dtype=float).reshape(6)


def build_arm(spec):
    """spec -> (arm, model).  See the module docstring.  Library exceptions propagate: call it through
    ``vf.core.sut`` when constructing the arm is itself under test."""
    Arm, loadArmFromURDF, tm, fsr = _lib()
    kind = spec["kind"]
    base = _base_of(spec)
    B = O.pose_from_taa(base)

    if kind == "urdf":
        path = urdf_path(spec["name"])
        arm = loadArmFromURDF(path)
        if arm is None:
            raise RuntimeError("loadArmFromURDF returned None for %s" % path)
        n = int(arm.num_dof)
        S = np.array(arm.screw_list, dtype=float).copy()
        M0 = np.array(arm._end_effector_home.gTM(), dtype=float)
        H = [np.array(j.gTM(), dtype=float) for j in arm._joint_homes_global]
        F = None if arm._fixed_base_offset is None else np.array(arm._fixed_base_offset.gTM(), dtype=float)
        mins, maxs, custom = _limits_of(spec, np.array(arm.joint_mins, dtype=float),
                                        np.array(arm.joint_maxs, dtype=float))
        if custom:
            arm.setJointProperties(mins.copy(), maxs.copy())
        moved = bool(np.any(base != 0))
        if moved:
            arm.move(tm(base.copy()))
        model = ArmModel(n=n, B=B, S=S, M0=M0, M=M0.copy(), H=H, F=F, mins=mins, maxs=maxs, kind=kind,
                         name=spec["name"], spec=spec, built_by_move=moved)
        return arm, model

    if kind == "sixr":
        parts = sixr_parts()
        axes, points, ee_home = parts["axes"], parts["points"], parts["ee_home"]
        dmins, dmaxs = parts["mins"], parts["maxs"]
    elif kind == "random":
        axes = np.ascontiguousarray(np.array(spec["axes"], dtype=float))
        points = np.ascontiguousarray(np.array(spec["points"], dtype=float))
        ee_home = np.array(spec["ee_home"], dtype=float).reshape(6)
        n = axes.shape[1]
        dmins, dmaxs = np.full(n, -PI), np.full(n, PI)
        parts = None
    else:
        raise ValueError("unknown arm kind %r" % (kind,))

    n = axes.shape[1]
    # ---- the model first, from the spec alone -----------------------------------------------------
    S = screws_from_axes(axes, points)
    M0 = O.pose_from_taa(ee_home)
    H = [_transl(points[:, i]) for i in range(n)]
    mins, maxs, custom = _limits_of(spec, dmins, dmaxs)
    model = ArmModel(n=n, B=B, S=S.copy(), M0=M0.copy(), M=M0.copy(), H=H, F=None, mins=mins, maxs=maxs,
                     kind=kind, name=None, spec=spec, axes=axes.copy(), points=points.copy())

    # ---- then the library object, from private copies, the way the suite's setUp does ---------------
    base_tm = tm(base.copy())
    lib_axes = axes.copy()
    lib_points = points.copy()
    lib_screws = np.zeros((6, n))
    for i in range(n):
        lib_screws[0:6, i] = np.hstack((lib_axes[0:3, i], np.cross(lib_points[0:3, i], lib_axes[0:3, i])))
    if kind == "sixr":
        # the suite hands a 4x4 ndarray (fsr.TAAtoTM), not a tm
        lib_ee = fsr.TAAtoTM(ee_home.copy().reshape((6, 1)))
    else:
        lib_ee = tm(ee_home.copy())
    arm = Arm(base_tm, lib_screws, lib_ee, lib_points, lib_axes)

    if kind == "sixr":
        tsp = [tm(np.array([[r[0]], [r[1]], [r[2]], [0], [0], [0]], dtype=float)) for r in parts["tspace"]]
        mass_tf = [None] * 7
        mass_tf[0] = tsp[0]
        for i in range(1, 6):
            mass_tf[i] = tsp[i - 1].inv() @ tsp[i]
        mass_tf[6] = tsp[5].inv() @ lib_ee
        inertia = np.zeros((6, 6, 6))
        bd = parts["box_dims"]
        for i in range(6):
            inertia[i, :, :] = fsr.boxSpatialInertia(parts["masses"][i], bd[0, i], bd[1, i], bd[2, i])
        arm.setJointProperties(mins.copy(), maxs.copy())
        arm.setOrigins(link_homes_global=tsp)
        arm.setMassProperties(parts["masses"].copy(), mass_tf, inertia)
        arm.setVisColProperties(link_dimensions=bd.copy())
        model.extras = {
            "masses": parts["masses"].copy(), "box_dims": bd.copy(),
            "Tspace": [_transl(r) for r in parts["tspace"]],          # link frames (base frame), 4x4
            "note": "link i mass frame = Tspace[i-1]^-1 Tspace[i]; mass_tf[6] = Tspace[5]^-1 M0; "
                    "setOrigins/setMassProperties were called at construction, i.e. with Tspace expressed "
                    "in the construction base's LOCAL coordinates exactly as the suite does at identity",
        }
    elif custom:
        arm.setJointProperties(mins.copy(), maxs.copy())
    return arm, model


# ------------------------------------------------------------------------------------------------
# strategies
# ------------------------------------------------------------------------------------------------

def small_or_generic_angles(maxang=PI - 1e-3, p_tiny=True):
    """Rotation angles in [0, maxang]: mostly generic; ~4 % at the 1e-6 NearZero cut-off (both sides), a little
    mass at 0, pi/2 and maxang."""
    generic = st.one_of(G.floats(1e-3, maxang), G.floats(1e-3, maxang), G.floats(1e-3, maxang),
                        st.sampled_from([0.0, PI / 2, 1.0, maxang]))
    if not p_tiny:
        return generic
    tiny = st.one_of(G.log_uniform(1e-9, 1e-4),
                     st.sampled_from([1e-7, 1e-6, math.nextafter(1e-6, 0), math.nextafter(1e-6, 1), 2e-6]))
    return st.integers(0, 24).flatmap(lambda k: tiny if k == 0 else generic)


@st.composite
def poses6(draw, maxnorm=5.0, maxang=PI - 1e-3, identity_weight=0, tiny=True):
    """6-vector TAA [x y z rx ry rz]; rotation angle <= maxang (kept away from the half turn, where the
    library's own TAA round trip is the open finding C01-near-pi-log)."""
    if identity_weight and draw(st.integers(0, 99)) < identity_weight:
        return np.zeros(6)
    kind = draw(st.sampled_from(["generic", "generic", "generic", "trans", "rot", "axis"]))
    if kind == "rot":
        p = np.zeros(3)
    elif kind == "axis":
        p = np.zeros(3)
        p[draw(st.integers(0, 2))] = draw(G.floats(-maxnorm, maxnorm))
    else:
        p = np.array([draw(G.floats(-maxnorm, maxnorm)) for _ in range(3)]) / math.sqrt(3)
    if kind == "trans":
        w = np.zeros(3)
    else:
        ang = draw(small_or_generic_angles(maxang, tiny))
        w = ang * draw(G.unit_vectors())
    return np.concatenate([p, w])


@st.composite
def limit_pairs(draw, n):
    """(mins, maxs), length n: each joint gets a non-empty interval; kinds: symmetric, narrow around 0, generic
    containing 0, wider than [-2pi, 2pi] (never binding) and -- for about a third of the arms -- one-sided
    intervals that exclude 0 (the home vector is then outside the limits)."""
    kinds = ["sym", "sym", "narrow0", "wide", "generic0"]
    if draw(st.integers(0, 2)) == 0:
        kinds = kinds + ["pos", "neg", "narrow"]
    mins = np.zeros(n)
    maxs = np.zeros(n)
    for i in range(n):
        kind = draw(st.sampled_from(kinds))
        if kind == "sym":
            a = draw(G.floats(0.2, TWO_PI))
            lo, hi = -a, a
        elif kind == "pos":
            lo = draw(G.floats(0.05, 2.0))
            hi = lo + draw(G.floats(0.1, 3.0))
        elif kind == "neg":
            hi = -draw(G.floats(0.05, 2.0))
            lo = hi - draw(G.floats(0.1, 3.0))
        elif kind == "narrow":
            lo = draw(G.floats(-3.0, 3.0))
            hi = lo + draw(G.floats(1e-3, 0.1))
        elif kind == "narrow0":
            lo = -draw(G.floats(0.0, 0.05))
            hi = draw(G.floats(1e-3, 0.05))
        elif kind == "wide":
            lo, hi = -draw(G.floats(TWO_PI, 10.0)), draw(G.floats(TWO_PI, 10.0))
        else:
            lo = -draw(G.floats(0.0, TWO_PI))
            hi = draw(G.floats(0.05, TWO_PI + 0.5))
        mins[i], maxs[i] = lo, hi
    return (mins, maxs)


@st.composite
def random_chain_specs(draw, nmin=1, nmax=7):
    n = draw(st.integers(nmin, nmax))
    axes = np.stack([draw(G.unit_vectors()) for _ in range(n)], axis=1)
    style = draw(st.sampled_from(["generic", "generic", "serial", "coincident"]))
    pts = []
    for i in range(n):
        if style == "serial" and i > 0:
            # like a real arm: next joint displaced from the previous one
            step = np.array([draw(G.floats(-1.0, 1.0)) for _ in range(3)])
            pts.append(pts[-1] + step)
        elif style == "coincident" and i > 0 and draw(st.booleans()):
            pts.append(pts[-1].copy())            # spherical-wrist like
        else:
            pts.append(np.array([draw(G.floats(-2.0, 2.0)) for _ in range(3)]))
    points = np.stack(pts, axis=1)
    tool = draw(st.sampled_from(["generic", "generic", "on_last_joint", "trans_only"]))
    if tool == "on_last_joint":
        ee = np.concatenate([points[:, -1], draw(poses6(maxnorm=1.0))[3:]])
    elif tool == "trans_only":
        ee = np.concatenate([points[:, -1] + np.array([draw(G.floats(-1.0, 1.0)) for _ in range(3)]), np.zeros(3)])
    else:
        ee = draw(poses6(maxnorm=4.0))
    return {"kind": "random", "axes": np.ascontiguousarray(axes), "points": np.ascontiguousarray(points),
            "ee_home": ee}


def spec_n(spec):
    return 6 if spec["kind"] in ("sixr", "urdf") else int(np.asarray(spec["axes"]).shape[1])


@st.composite
def arm_specs(draw, kinds=("sixr", "urdf", "random"), base="any", nmin=1, nmax=7, limits="any",
              base_maxnorm=5.0):
    """Arm spec dicts.  base: "any" (identity ~35 %, else a random pose) | "identity" | "moved" (never identity);
    limits: "any" (default ~45 %, else custom) | "default" | "custom"."""
    kind = draw(st.sampled_from(list(kinds)))
    if kind == "sixr":
        spec = {"kind": "sixr"}
    elif kind == "urdf":
        spec = {"kind": "urdf", "name": draw(st.sampled_from(list(URDF_NAMES)))}
    else:
        spec = draw(random_chain_specs(nmin, nmax))
    if base == "identity":
        spec["base"] = np.zeros(6)
    elif base == "moved":
        spec["base"] = draw(poses6(maxnorm=base_maxnorm))
    else:
        spec["base"] = draw(poses6(maxnorm=base_maxnorm, identity_weight=35))
    custom = {"default": False, "custom": True}.get(limits)
    if custom is None:
        custom = draw(st.integers(0, 99)) >= 45
    spec["limits"] = draw(limit_pairs(spec_n(spec))) if custom else None
    return spec


# ---- joint vectors -----------------------------------------------------------------------------

NMAX = 8   # theta codes carry this many entries; an arm uses the first n

_CODE_KINDS = (["u"] * 12 + ["lo", "hi", "lo_out", "hi_out", "lo_in", "hi_in", "zero", "far_lo", "far_hi"] * 2
               + ["tiny"])


def theta_codes(nmax=NMAX):
    """Arm-independent description of a joint vector: a list of (kind, u) per joint, u in [0, 1].
    Decode with ``decode_theta(model, code, inside)``."""
    one = st.tuples(st.sampled_from(_CODE_KINDS), G.floats(0.0, 1.0))
    return st.lists(one, min_size=nmax, max_size=nmax)


def decode_theta(model, code, inside=False, margin=0.0):
    """Joint vector (length n, fresh float array) for this arm.

    inside=False: the property's domain [-2pi, 2pi]^n with mass on the limits: exactly on them, one ulp
      outside / inside, far outside, zero, tiny values around the 1e-6 NearZero cut-off.
    inside=True: within [mins+margin, maxs-margin] (intersected with [-2pi, 2pi]); boundary kinds map to the
      (shrunk) interval's ends.
    """
    n = model.n
    th = np.zeros(n)
    for i in range(n):
        kind, u = code[i % len(code)]
        lo = max(float(model.mins[i]), -TWO_PI)
        hi = min(float(model.maxs[i]), TWO_PI)
        if inside:
            lo_i, hi_i = lo + margin, hi - margin
            if lo_i > hi_i:
                lo_i = hi_i = 0.5 * (lo + hi)
            if kind in ("lo", "lo_out", "far_lo"):
                v = lo_i
            elif kind in ("hi", "hi_out", "far_hi"):
                v = hi_i
            elif kind == "lo_in":
                v = min(hi_i, math.nextafter(lo_i, math.inf))
            elif kind == "hi_in":
                v = max(lo_i, math.nextafter(hi_i, -math.inf))
            elif kind == "zero":
                v = min(max(0.0, lo_i), hi_i)
            elif kind == "tiny":
                v = min(max(10.0 ** (-9 + 5 * u), lo_i), hi_i)
            else:
                v = lo_i + u * (hi_i - lo_i)
            th[i] = min(max(v, lo_i), hi_i)
            continue
        if kind == "u":
            v = -TWO_PI + u * 2 * TWO_PI
        elif kind == "lo":
            v = lo
        elif kind == "hi":
            v = hi
        elif kind == "lo_out":
            v = math.nextafter(lo, -math.inf) if u < 0.5 else lo - 10.0 ** (-8 + 7 * u)
        elif kind == "hi_out":
            v = math.nextafter(hi, math.inf) if u < 0.5 else hi + 10.0 ** (-8 + 7 * u)
        elif kind == "lo_in":
            v = math.nextafter(lo, math.inf)
        elif kind == "hi_in":
            v = math.nextafter(hi, -math.inf)
        elif kind == "zero":
            v = 0.0
        elif kind == "far_lo":
            v = -TWO_PI
        elif kind == "far_hi":
            v = TWO_PI
        else:  # tiny
            v = (1 if u < 0.8 else -1) * 10.0 ** (-9 + 5 * ((u * 5) % 1.0))
        th[i] = min(max(v, -TWO_PI), TWO_PI)
    return th


def thetas(model, inside=True, margin=0.0):
    """Direct strategy of joint vectors for a model already in hand."""
    return theta_codes(max(1, model.n)).map(lambda c: decode_theta(model, c, inside, margin))


# ------------------------------------------------------------------------------------------------
# JIT warm-up
# ------------------------------------------------------------------------------------------------

def warm():
    """Compile every kernel an arm uses (also the slices FKJoint / getJointTransforms specialise on)."""
    import random as _random
    Arm, loadArmFromURDF, tm, fsr = _lib()
    state = _random.getstate()
    try:
        for spec in ({"kind": "sixr", "base": np.array([0.1, 0.2, 0.3, 0.1, 0.2, 0.3])},
                     {"kind": "random", "axes": np.array([[0.0], [0.0], [1.0]]), "points": np.zeros((3, 1)),
                      "ee_home": np.array([1.0, 0, 0, 0, 0, 0]), "base": np.zeros(6)},
                     {"kind": "urdf", "name": URDF_NAMES[2], "base": np.zeros(6)}):
            arm, model = build_arm(spec)
            n = model.n
            th = np.linspace(0.1, 0.4, n)
            T = arm.FK(th.copy())
            arm.FK(None)
            arm.getEEPos()
            arm.getBasePos()
            arm.getJointTransforms()
            arm.jacobian()
            arm.jacobianBody()
            arm.jacobian(th.copy())
            arm.jacobianBody(th.copy())
            _random.seed(1)
            arm.IK(T, np.zeros(n))
            arm.IK(T, np.zeros(n), protect=True)
            arm.IK(tm([50.0, 0, 0, 0, 0, 0]), np.zeros(n), check=False)
            arm.randomPos()
            arm.setArbitraryHome(arm.getEEPos() @ tm([0, 0, 0.1, 0, 0, 0]))
            arm.restoreOriginalEE()
            arm.move(tm([0.0, 0.1, 0, 0, 0, 0.2]))
            arm.move(tm([0.0, 0.2, 0, 0, 0, 0.1]), True)
            if n >= 2:
                arm.IKFree(arm.getEEPos(), np.zeros(n), [0, 1])
    finally:
        _random.setstate(state)
