"""Stewart-platform fixtures shared by C09 / C10 / C11.

API (kept stable):

  sp_specs(...)                      strategy -> serialisable geometry dict ("spec"), inside C09's quantifier ranges
  build_sp(spec)                     -> (sp, model): library object + independent harness-side model
  rel_poses(model=None)              strategy of relative plate poses inside the stated box
                                       model given  -> 4x4 matrices (top plate in the bottom-plate frame)
                                       model absent -> normalised 6-vectors u (use rel_T(model, u) once the model exists;
                                                       this is the form to put into a Hypothesis *case*)
  rel_T(model, u)                    normalised box coordinates -> 4x4 relative pose
  oracle_leg_lengths(model, Tb, Tt)  (6,) joint-to-joint distances from the model's plate-fixed coordinates
  in_workspace(model, Tb, Tt, switches=(1,0,0,1), margin=...)  -> WS (truthy iff inside; .reason, .lengths)
  warm()                             import the library and run every SP kernel once

  helpers: lib_call(fn, ...) (use instead of vf.core.sut for every SP call), make_tm(T, form), held(tm_obj), read_plate_coords(sp), model.refresh(sp), accepted_unchanged(sp, Tb, Tt),
           neutral_top(model, Tb), spec_geometry(spec), DEFAULT_SWITCHES

Conventions: all poses the harness reasons about are 4x4 float64 matrices.  A pose handed to the library is a
`tm`; the pose that "was requested" is, by definition, the matrix that tm object holds (`held(t)` = `t.gTM()`),
so conversion subtleties of the tm class (C03/C04) never leak into SP properties.

Nothing here trusts private attributes of SP: the model is read through getBottomT/getTopT/getBottomJoints/
getTopJoints/getLens and the public attributes leg_ext_min/leg_ext_max, and transformed with vf.oracle.
"""
import itertools
import json
import math
import os

import numpy as np
from hypothesis import strategies as st

from . import gen as G
from . import oracle as O

VERIF = os.path.dirname(os.path.dirname(os.path.abspath(__file__)))
JSON_DIR = os.path.join(VERIF, ".cache", "sp_json")

ROUTES = ("newSP", "loadSP", "makeSP")
DEFAULT_SWITCHES = (1, 0, 0, 1)          # SP.validation_settings right after construction
PLATE_ROT_LIMIT_DEG = 60.0               # SP.plate_rotation_limit default = cos(60 deg)
DEFAULT_MAX_DEV_DEG = 70.0               # SP.joint_deflection_max default = 140/2 deg

# quantifier ranges of C09 (properties.jsonl)
RB = (0.2, 2.0)
RATIO = (0.3, 1.0)
SPACING = (5.0, 40.0)
THICK_FRAC = (0.0, 0.10)
LMIN_RADII = (0.8, 1.5)
STROKE = (1.5, 2.0)
BOX_LAT = 0.20
BOX_H = 0.15
BOX_ROT = 0.30

_counter = itertools.count()


# ------------------------------------------------------------------------------------------ strategies

def _edge(lo, hi):
    """[lo, hi] with extra mass on both ends and the middle."""
    return st.one_of(G.floats(lo, hi), G.floats(lo, hi),
                     st.sampled_from([lo, hi, 0.5 * (lo + hi), math.nextafter(lo, hi), math.nextafter(hi, lo)]))


def base_poses(maxnorm=10.0):
    """Base pose as library six-vector [x y z rx ry rz]; rotation angle <= pi-1e-3 (beyond that the library's
    matrix logarithm is the open C01 finding), mass on identity, pure translation, axis-aligned quarter turns."""
    return st.one_of(
        st.just(np.zeros(6)),
        G.taas(maxnorm=maxnorm, maxang=math.pi - 1e-3),
        G.taas(maxnorm=maxnorm, maxang=math.pi - 1e-3),
        G.positions(maxnorm).map(lambda p: np.concatenate([p, np.zeros(3)])),
        st.sampled_from([np.array([0, 0, 0, math.pi / 2, 0, 0.0]), np.array([1.0, -2.0, 0.5, 0, math.pi / 2, 0]),
                         np.array([0, 0, 1.0, 0, 0, math.pi / 2]), np.array([0.3, 0.2, 0.1, 2.0, 0, 0]),
                         np.array([0, 0, 0, 0, math.pi - 1e-3, 0])]),
    )


def spin_angles():
    """'any spinCustom angle' (radians): generic, small, multiples of the 60/120 deg symmetry, beyond a turn."""
    return st.one_of(
        G.floats(-math.pi, math.pi),
        st.sampled_from([math.pi / 6, -math.pi / 6, math.pi / 3, 2 * math.pi / 3, math.pi / 2, math.pi, -math.pi,
                         0.0, 1e-3, -1e-3, 0.1, 1.0, -2.5]),
        G.floats(-7.0, 7.0),
    )


def mass_params():
    return st.fixed_dictionaries({
        "plate_bot": G.floats(0.5, 50.0), "plate_top": G.floats(0.5, 50.0),
        "shaft": G.floats(0.05, 5.0), "motor": G.floats(0.05, 5.0),
        "motor_cog": st.one_of(G.floats(0.02, 0.4), G.floats(0.02, 0.4), st.just(0.0)),
        "shaft_cog": st.one_of(G.floats(0.02, 0.4), G.floats(0.02, 0.4), st.just(0.0)),      # 0: centre of gravity AT the joint
    })


# strategies are built once (re-creating them inside a composite costs ~10 ms per case in validation alone)
_S_RB, _S_RATIO, _S_SPACING = _edge(*RB), _edge(*RATIO), _edge(*SPACING)
_S_THICK, _S_LMIN, _S_STROKE = _edge(*THICK_FRAC), _edge(*LMIN_RADII), _edge(*STROKE)
_S_HAND = st.sampled_from([1, -1])
_S_SHAPE = st.sampled_from(["any", "any", "any", "any", "vertex", "vertex", "flat", "tall", "upright"])
# "upright": the opposite corner from "flat" - legs as steep as the ranges allow (equal plates, joints spread widest on
# both plates), thick plates, shortest legs with the shortest stroke: the plate-to-plate height (joint-plane distance
# plus both thicknesses) is as large as it gets relative to the longest leg, and exceeds it for raised poses.
_S_UP_RATIO, _S_UP_SPACING, _S_UP_THICK = _edge(0.9, 1.0), _edge(35.0, 40.0), _edge(0.08, 0.1)
_S_UP_LMIN, _S_UP_STROKE = _edge(0.8, 0.85), _edge(1.5, 1.55)
_S_ENDS = st.lists(st.integers(0, 1), min_size=7, max_size=7)
# "flat": a small neighbourhood of the one corner of the box where the legs lie flattest (equal plates, tightest joint
# pairs, shortest legs, shortest stroke, thin plates).  Only there is the neutral height below half the minimum leg.
_S_FLAT_RATIO, _S_FLAT_LMIN = _edge(0.995, 1.0), _edge(0.8, 0.802)
_S_FLAT_STROKE, _S_FLAT_THICK, _S_FLAT_SPACING = _edge(1.5, 1.503), _edge(0.0, 0.001), _edge(5.0, 5.2)
_S_TALL_LMIN, _S_TALL_STROKE = _edge(1.3, 1.5), _edge(1.8, 2.0)
_S_ALT = st.one_of(st.just(0.0), st.just(0.0), G.floats(-180.0, 180.0), st.sampled_from([30.0, -60.0, 90.0]))
_S_BASE = base_poses()
_S_SPIN = st.one_of(st.none(), st.none(), spin_angles())
_S_MAXDEV = st.sampled_from([DEFAULT_MAX_DEV_DEG, 55.0, 40.0])
_S_MASS = mass_params()


_S_REUSE = st.sampled_from([False, False, False, True])


@st.composite
def sp_specs(draw, routes=ROUTES, spin=True, base=True, masses=False):
    """Serialisable geometry dict inside C09's quantifier ranges.

    routes : which constructor routes may be drawn ("newSP" | "loadSP" | "makeSP")
    spin   : allow an optional spinCustom angle, applied by build_sp at the neutral pose right after construction
    base   : allow non-identity base poses
    masses : attach mass / centre-of-gravity parameters (C11); otherwise all masses are zero
    """
    route = draw(st.sampled_from(list(routes)))
    rb = draw(_S_RB)
    sb = draw(_S_SPACING)
    stp = draw(_S_SPACING)
    # shape classes: the whole box; "vertex" = every shape parameter on an end of its range (the 2^7 corners of the
    # quantifier's box); and the two ends of "how steep do the legs stand" -- "flat" (equal plates, joints paired
    # tightly, short legs, short stroke: legs almost horizontal, the neutral height below half the minimum leg
    # length, the neutral-height square root near its domain limit) and "tall" slender platforms
    shape = draw(_S_SHAPE)
    if shape == "flat":
        ratio, kmin, stroke, thick = draw(_S_FLAT_RATIO), draw(_S_FLAT_LMIN), draw(_S_FLAT_STROKE), draw(_S_FLAT_THICK)
        sb, stp = draw(_S_FLAT_SPACING), draw(_S_FLAT_SPACING)
        tb, tt = thick * rb, thick * rb * ratio
    elif shape == "vertex":
        e = draw(_S_ENDS)
        ratio, sb, stp = RATIO[e[0]], SPACING[e[1]], SPACING[e[2]]
        tb, tt = THICK_FRAC[e[3]] * rb, THICK_FRAC[e[4]] * rb * ratio
        kmin, stroke = LMIN_RADII[e[5]], STROKE[e[6]]
    elif shape == "upright":
        ratio, kmin, stroke = draw(_S_UP_RATIO), draw(_S_UP_LMIN), draw(_S_UP_STROKE)
        sb, stp = draw(_S_UP_SPACING), draw(_S_UP_SPACING)
        tb, tt = draw(_S_UP_THICK) * rb, draw(_S_UP_THICK) * rb * ratio
    elif shape == "tall":
        ratio, kmin, stroke = draw(_S_RATIO), draw(_S_TALL_LMIN), draw(_S_TALL_STROKE)
        tb, tt = draw(_S_THICK) * rb, draw(_S_THICK) * rb * ratio
    else:
        ratio, kmin, stroke = draw(_S_RATIO), draw(_S_LMIN), draw(_S_STROKE)
        tb, tt = draw(_S_THICK) * rb, draw(_S_THICK) * rb * ratio
    rt = rb * ratio
    lmin = kmin * rb
    lmax = stroke * lmin
    rot = draw(_S_HAND)
    alt_rot = 0.0
    if route == "makeSP":
        # makeSP has one joint spacing and one plate thickness for both plates, and an extra angular offset (deg)
        stp = sb
        tb = tt = min(tb, tt)
        alt_rot = draw(_S_ALT)
    spec = {
        "route": route, "rb": rb, "rt": rt, "sb": sb, "st": stp, "tb": tb, "tt": tt,
        "lmin": lmin, "lmax": lmax, "rot": rot, "alt_rot": alt_rot,
        "base": draw(_S_BASE) if base else np.zeros(6),
        "spin": draw(_S_SPIN) if spin else None,
        "max_dev": draw(_S_MAXDEV),
        "masses": draw(_S_MASS) if masses else None,
        # the caller goes on using the base transform object it handed to the constructor (and changes it)
        "reuse_base": draw(_S_REUSE),
    }
    return spec


def _box_coord(lim):
    return st.one_of(G.floats(-lim, lim), G.floats(-lim, lim),
                     st.sampled_from([0.0, lim, -lim, lim / 2, -lim / 2, lim / 10, -lim / 10]),
                     G.signed_log_uniform(1e-9, 1e-3).map(lambda v: max(-lim, min(lim, v))))


_S_KIND = st.sampled_from(["generic", "generic", "generic", "translate", "rotate", "neutral", "corner", "raised", "lowered"])
_S_HIGH = G.floats(0.6, 1.0)
_S_SMALL = G.floats(-0.2, 0.2)
_S_SIGNS = st.lists(st.sampled_from([-1.0, 1.0]), min_size=6, max_size=6)
_S_LAT, _S_H, _S_ROT = _box_coord(BOX_LAT), _box_coord(BOX_H), _box_coord(BOX_ROT)


@st.composite
def _rel_u(draw):
    """Normalised box coordinates u = [x/h, y/h, z/h - 1, wx, wy, wz]."""
    kind = draw(_S_KIND)
    if kind == "neutral":
        return np.zeros(6)
    if kind == "corner":
        s = draw(_S_SIGNS)
        return np.array([s[0] * BOX_LAT, s[1] * BOX_LAT, s[2] * BOX_H, s[3] * BOX_ROT, s[4] * BOX_ROT, s[5] * BOX_ROT])
    if kind in ("raised", "lowered"):
        # the ends of the height range with little else going on (a fifth of the box sideways and in rotation): as high /
        # as low as the platform is asked to go, where the longest / shortest leg comes closest to its limit
        z = draw(_S_HIGH) * BOX_H * (1.0 if kind == "raised" else -1.0)
        return np.array([draw(_S_SMALL) * BOX_LAT, draw(_S_SMALL) * BOX_LAT, z,
                         draw(_S_SMALL) * BOX_ROT, draw(_S_SMALL) * BOX_ROT, draw(_S_SMALL) * BOX_ROT])
    u = np.array([draw(_S_LAT), draw(_S_LAT), draw(_S_H), draw(_S_ROT), draw(_S_ROT), draw(_S_ROT)])
    if kind == "translate":
        u[3:] = 0.0
    elif kind == "rotate":
        u[:3] = 0.0
    return u


_S_REL_U = _rel_u()


def rel_poses(model=None):
    """Relative plate poses inside the stated box (lateral <= 20 % of the neutral height h, height within 15 % of h,
    each rotation-vector component <= 0.3 rad).  With a model: 4x4 matrices.  Without: normalised u-vectors."""
    if model is None:
        return _S_REL_U
    return _S_REL_U.map(lambda u: rel_T(model, u))


def rel_T(model, u):
    u = np.asarray(u, dtype=float).reshape(6)
    h = model.h
    return O.rp(O.exp3(u[3:]), np.array([u[0] * h, u[1] * h, (1.0 + u[2]) * h]))


def in_box(model, T_rel, slack=1e-12):
    """Is a relative pose inside the quantifier's box?  (harness-side assertion helper)"""
    p = T_rel[:3, 3] / model.h
    w = O.log3(T_rel[:3, :3])
    return (abs(p[0]) <= BOX_LAT + slack and abs(p[1]) <= BOX_LAT + slack and abs(p[2] - 1) <= BOX_H + slack
            and np.all(np.abs(w) <= BOX_ROT + 1e-9))


# ------------------------------------------------------------------------------------------ expected geometry

def spec_geometry(spec):
    """Plate-fixed joint coordinates and neutral height implied by the parameters, written from the parameter
    meanings (joints in three pairs 120 deg apart, pair members `spacing` deg apart, top plate offset by 60 deg,
    legs at mid stroke at neutral).  Returns (b 3x6, t 3x6, h).  The pairing/order follows the constructors'
    documented layout; only radius and z are treated as contractual by C09."""
    rb, rt = spec["rb"], spec["rt"]
    gb = math.radians(spec["sb"]) / 2
    gt = math.radians(spec["st"]) / 2
    c = math.radians(120.0)
    o = math.radians(60.0)

    def bottom_like(g):
        return np.array([-g, g, c - g, c + g, 2 * c - g, 2 * c + g])

    def top_like(g):
        return np.array([-o + g, o - g, o + g, o + c - g, o + c + g, -o - g])

    if spec["route"] == "makeSP":
        off = math.radians(spec["alt_rot"])
        ba, ta = (bottom_like(gb) + off, top_like(gb) + off)
        if spec["rot"] == -1:
            ba, ta = ta, ba
        zb, zt = spec["tb"] / 2, -spec["tb"] / 2
        pad = spec["tb"]          # z-extent of the joint planes inside the plate-origin distance
    else:
        ba, ta = bottom_like(gb), top_like(gt)
        if spec["rot"] == -1:
            ba, ta = top_like(gt), bottom_like(gb)
        zb, zt = spec["tb"], -spec["tt"]
        pad = spec["tb"] + spec["tt"]
    b = np.vstack([rb * np.cos(ba), rb * np.sin(ba), np.full(6, zb)])
    t = np.vstack([rt * np.cos(ta), rt * np.sin(ta), np.full(6, zt)])
    lmid = 0.5 * (spec["lmin"] + spec["lmax"])
    dxy2 = (t[0, 0] - b[0, 0]) ** 2 + (t[1, 0] - b[1, 0]) ** 2
    h = math.sqrt(lmid * lmid - dxy2) + pad
    return b, t, h


# ------------------------------------------------------------------------------------------ model

class SPModel:
    """Harness-side picture of one platform.  Everything is an independent copy."""

    def __init__(self, spec):
        self.spec = spec
        self.lmin = float(spec["lmin"])
        self.lmax = float(spec["lmax"])
        self.max_dev = math.radians(spec.get("max_dev", DEFAULT_MAX_DEV_DEG))
        self.plate_rot_cos = math.cos(math.radians(PLATE_ROT_LIMIT_DEG))
        self.b_spec, self.t_spec, self.h_spec = spec_geometry(spec)
        self.T_bot = self.T_top = self.b = self.t = None
        self.h = None
        self.T_rel0 = None

    def refresh(self, sp):
        """(Re-)read plate poses and plate-fixed joint coordinates from public getters.  Call only while the
        platform stands at its neutral relative pose (right after construction, after move, after spinCustom)."""
        self.T_bot, self.T_top = read_poses(sp)
        self.b, self.t = read_plate_coords(sp)
        return self

    def set_neutral(self, sp):
        self.refresh(sp)
        self.T_rel0 = O.inv(self.T_bot) @ self.T_top
        self.h = float(np.linalg.norm(self.T_top[:3, 3] - self.T_bot[:3, 3]))
        return self

    @property
    def scale(self):
        """Magnitude of the geometry (for relative tolerances)."""
        return max(self.h, self.spec["rb"], self.lmax)


def read_poses(sp):
    return (np.array(sp.getBottomT().gTM(), dtype=float, copy=True),
            np.array(sp.getTopT().gTM(), dtype=float, copy=True))


def read_plate_coords(sp):
    """Plate-fixed joint coordinates (bottom joints in the bottom-plate frame, top joints in the top-plate frame),
    from the space-frame getters and the plate poses, transformed back with the oracle toolkit.  Copies."""
    Tb, Tt = read_poses(sp)
    bs = np.array(sp.getBottomJoints(), dtype=float, copy=True)
    ts = np.array(sp.getTopJoints(), dtype=float, copy=True)
    Tbi, Tti = O.inv(Tb), O.inv(Tt)
    b = Tbi[:3, :3] @ bs + Tbi[:3, 3:4]
    t = Tti[:3, :3] @ ts + Tti[:3, 3:4]
    return b, t


def lib_call(fn, *args, **kw):
    """vf.core.sut with the exception chain cut.  SP's solvers recurse into each other from `except` blocks
    (_FKRaphson <-> _FKSolve), so a library failure can carry a __context__ chain a thousand exceptions deep;
    Hypothesis walks that chain recursively when it reports the failure and dies with its own RecursionError
    (a harness error instead of a VIOLATION).  The LibError is therefore re-raised outside any handler with its
    chain removed; message and innermost library frame are kept."""
    from .core import LibError, sut
    err = None
    try:
        return sut(fn, *args, **kw)
    except LibError as e:
        err = e
    err.__context__ = None
    err.__cause__ = None
    try:
        err.exc.__context__ = None
        err.exc.__cause__ = None
        err.exc.__traceback__ = None
    except AttributeError:
        pass
    raise err.with_traceback(None)


def _lib():
    from basic_robotics.general import tm
    from basic_robotics.kinematics import sp_model
    return tm, sp_model


def make_tm(T, form="mat"):
    """A library `tm` for pose T.  form 'mat': from the 4x4 (held exactly); 'taa': from the six-vector list (the
    usual caller form; the library exponentiates it itself).  Use held(t) for the matrix actually requested."""
    tm, _ = _lib()
    T = np.asarray(T, dtype=float)
    if form == "mat":
        return tm(np.array(T, copy=True))
    if form == "taa":
        return tm([float(v) for v in np.concatenate([T[:3, 3], O.log3(T[:3, :3])])])
    if form == "taa_wound":
        # the same pose written with a rotation vector one revolution longer (a base that has been turned round
        # once more): |w| -> |w| + 2 pi about the same axis
        w = O.log3(T[:3, :3])
        a = float(np.linalg.norm(w))
        if a > 1e-3:
            w = w * (1.0 + 2 * math.pi / a)
        return tm([float(v) for v in np.concatenate([T[:3, 3], w])])
    raise ValueError(form)


def held(t):
    return np.array(t.gTM(), dtype=float, copy=True)


def _json_for(spec, name):
    m = spec.get("masses")
    return {
        "Name": name, "Type": "SP",
        "BottomPlate": {"Thickness": spec["tb"], "JointRadius": spec["rb"], "JointSpacing": spec["sb"],
                        "Mass": m["plate_bot"] if m else 0},
        "TopPlate": {"Thickness": spec["tt"], "JointRadius": spec["rt"], "JointSpacing": spec["st"],
                     "Mass": m["plate_top"] if m else 0},
        "Actuators": {"MinExtension": spec["lmin"], "MaxExtension": spec["lmax"],
                      "MotorMass": m["motor"] if m else 0, "ShaftMass": m["shaft"] if m else 0, "ForceLimit": 800,
                      "MotorCOGD": m["motor_cog"] if m else 0, "ShaftCOGD": m["shaft_cog"] if m else 0},
        "Drawing": {"TopRadius": spec["rt"], "BottomRadius": spec["rb"], "ShaftRadius": 0.1, "MotorRadius": 0.2},
        "Settings": {"MaxAngleDev": spec.get("max_dev", DEFAULT_MAX_DEV_DEG), "GenerateActuators": 0,
                     "IgnoreRestHeight": 1, "UseSpin": 0, "AssignMasses": 1 if m else 0, "InferActuatorCOG": 1},
        "Params": {"RestHeight": 0, "Spin": 0},
    }


def construct(spec):
    """Call the constructor route named by the spec.  Raw library call (wrap in vf.core.sut at the call site, or
    use build_sp which does)."""
    tm, spm = _lib()
    base = tm([float(v) for v in np.asarray(spec["base"], dtype=float).reshape(6)])
    construct.last_base = base
    m = spec.get("masses")
    route = spec["route"]
    if route == "newSP":
        return spm.newSP(spec["rb"], spec["rt"], spec["sb"], spec["st"], spec["tb"], spec["tt"],
                         m["shaft"] if m else 0, m["motor"] if m else 0, m["plate_top"] if m else 0,
                         m["plate_bot"] if m else 0, m["motor_cog"] if m else 0, m["shaft_cog"] if m else 0,
                         spec["lmin"], spec["lmax"], base, "vf_sp", spec["rot"])
    if route == "loadSP":
        os.makedirs(JSON_DIR, exist_ok=True)
        fname = "sp-%d-%d.json" % (os.getpid(), next(_counter))
        path = os.path.join(JSON_DIR, fname)
        try:
            with open(path, "w") as f:
                json.dump(_json_for(spec, "vf_sp"), f)
            return spm.loadSP(fname, JSON_DIR + os.sep, base, spec["rot"])
        finally:
            if os.path.exists(path):
                os.remove(path)
    if route == "makeSP":
        _, _, h = spec_geometry(spec)
        sp, _bottom, _top = spm.makeSP(spec["rb"], spec["rt"], spec["sb"], base, h, spec["rot"], spec["tb"],
                                       spec["alt_rot"])
        # makeSP builds with limits 0..1; callers set the real ones on the public attributes (tests do the same)
        sp.leg_ext_min = spec["lmin"]
        sp.leg_ext_max = spec["lmax"]
        if m:
            sp.setMasses(m["plate_bot"], m["shaft"], m["motor"], top_plate_mass=m["plate_top"])
            sp.setCOG(m["motor_cog"], m["shaft_cog"])
        return sp
    raise ValueError("unknown route %r" % (route,))


def build_sp(spec):
    """-> (sp, model).  Library exceptions surface as vf.core.LibError (a Violation), chain cut (lib_call)."""
    sp = lib_call(construct, spec)
    if spec["route"] != "loadSP":            # loadSP takes it from the JSON
        lib_call(sp.setMaxAngleDev, spec.get("max_dev", DEFAULT_MAX_DEV_DEG))
    model = SPModel(spec).set_neutral(sp)
    if spec.get("reuse_base"):
        from .core import Violation
        # The caller's base transform is the caller's object: it is now used for something else (moved in place).
        # The platform stands where it was built.
        b = construct.last_base
        before = read_poses(sp)
        for k, dv in enumerate((2.5, -1.0, 0.75, 0.2, -0.1, 0.3)):
            b[k] = float(b[k]) + dv
        after = read_poses(sp)
        if not (np.array_equal(before[0], after[0]) and np.array_equal(before[1], after[1])):
            raise Violation("the platform's plate poses changed (bottom by %.3g) when the caller moved, in place, the base "
                            "transform object it had handed to the constructor" % float(np.abs(before[0] - after[0]).max()))
    if spec.get("spin") is not None:
        lib_call(sp.spinCustom, float(spec["spin"]))
        model.refresh(sp)                    # plate-fixed coordinates are re-read; h and T_rel0 stay the construction ones
    return sp, model


def neutral_top(model, T_bot):
    """Top-plate pose that puts the platform at its neutral relative pose over bottom pose T_bot."""
    return np.asarray(T_bot, dtype=float) @ model.T_rel0


def reset_neutral(sp, model, T_bot=None):
    """Put the platform back to neutral over T_bot (default: where its base stands) with a protected IK."""
    Tb = read_poses(sp)[0] if T_bot is None else np.asarray(T_bot, dtype=float)
    lib_call(sp.IK, make_tm(neutral_top(model, Tb)), make_tm(Tb), True)
    return Tb


# ------------------------------------------------------------------------------------------ oracles

def oracle_leg_lengths(model, T_bot, T_top):
    """(6,) distances between corresponding plate-fixed joint points for the given plate poses."""
    T_bot = np.asarray(T_bot, dtype=np.longdouble)
    T_top = np.asarray(T_top, dtype=np.longdouble)
    bs = T_bot[:3, :3] @ model.b.astype(np.longdouble) + T_bot[:3, 3:4]
    ts = T_top[:3, :3] @ model.t.astype(np.longdouble) + T_top[:3, 3:4]
    d = ts - bs
    return np.asarray(np.sqrt((d * d).sum(axis=0)), dtype=float)


def oracle_joints_space(model, T_bot, T_top):
    T_bot = np.asarray(T_bot, dtype=float)
    T_top = np.asarray(T_top, dtype=float)
    return (T_bot[:3, :3] @ model.b + T_bot[:3, 3:4], T_top[:3, :3] @ model.t + T_top[:3, 3:4])


def _ang(u, v):
    nu, nv = np.linalg.norm(u), np.linalg.norm(v)
    if nu == 0 or nv == 0:
        return float("nan")
    return math.acos(max(-1.0, min(1.0, float(u @ v) / (nu * nv))))


def oracle_joint_deflections(model, T_rel):
    """(12,) deflection of each leg from its neutral direction, seen from the bottom plate (6) and from the top
    plate (6): the quantity the library's interior-angle constraint limits."""
    T0 = model.T_rel0
    Ti, T0i = O.inv(T_rel), O.inv(T0)
    out = np.zeros(12)
    for i in range(6):
        b, t = model.b[:, i], model.t[:, i]
        out[i] = _ang(T_rel[:3, :3] @ t + T_rel[:3, 3] - b, T0[:3, :3] @ t + T0[:3, 3] - b)
        out[6 + i] = _ang(Ti[:3, :3] @ b + Ti[:3, 3] - t, T0i[:3, :3] @ b + T0i[:3, 3] - t)
    return out


class WS:
    """Result of in_workspace: truthy iff inside; .reason names the first failed constraint."""
    __slots__ = ("ok", "reason", "lengths", "T_rel")

    def __init__(self, ok, reason, lengths, T_rel):
        self.ok, self.reason, self.lengths, self.T_rel = ok, reason, lengths, T_rel

    def __bool__(self):
        return self.ok

    def __repr__(self):
        return "WS(ok=%s, reason=%r)" % (self.ok, self.reason)


def in_workspace(model, T_bot, T_top, switches=DEFAULT_SWITCHES, margin=None, ang_margin=1e-3):
    """Harness-side domain filter of DESIGN C09 '!': would the library have to accept this pair of plate poses
    without any corrective action?  Decided with the oracle only:
      always  : plate origins no further apart than twice the neutral height
      sw[0]   : all six oracle leg lengths inside [lmin + margin, lmax - margin]
      sw[1]   : top plate origin has z >= margin in the bottom-plate frame
      sw[2]   : every leg deflection (oracle_joint_deflections) <= max_dev - ang_margin, none NaN
      sw[3]   : every diagonal element of the relative rotation >= cos(60 deg) + ang_margin
    `margin` (default 1e-4 * neutral height) keeps the verdict clear of the solver tolerance and of rounding at the
    limits: a pose closer to a limit than that is 'not clearly inside' and the caller should treat it as outside.
    The caller must additionally confirm that the library left the requested poses untouched (accepted_unchanged)."""
    T_bot = np.asarray(T_bot, dtype=float)
    T_top = np.asarray(T_top, dtype=float)
    if margin is None:
        margin = 1e-4 * model.h
    L = oracle_leg_lengths(model, T_bot, T_top)
    T_rel = O.inv(T_bot) @ T_top
    sw = [bool(s) for s in switches]

    def res(reason):
        return WS(reason is None, reason, L, T_rel)

    if not np.all(np.isfinite(L)):
        return res("non-finite")
    if np.linalg.norm(T_top[:3, 3] - T_bot[:3, 3]) > 2 * model.h - margin:
        return res("plates too far apart")
    if sw[0]:
        if L.min() < model.lmin + margin:
            return res("leg too short")
        if L.max() > model.lmax - margin:
            return res("leg too long")
    if sw[1] and T_rel[2, 3] < margin:
        return res("top below bottom")
    if sw[2]:
        d = oracle_joint_deflections(model, T_rel)
        if np.any(np.isnan(d)) or d.max() > model.max_dev - ang_margin:
            return res("joint deflection")
    if sw[3]:
        if min(T_rel[0, 0], T_rel[1, 1], T_rel[2, 2]) < model.plate_rot_cos + ang_margin:
            return res("plate rotation")
    return res(None)


def accepted_unchanged(sp, T_bot, T_top):
    """After an IK/FK request: did the library leave exactly the requested poses in place (bit-equal)?  The third
    part of the 'accepted without corrective action' filter (every corrective action rewrites the top pose)."""
    Tb, Tt = read_poses(sp)
    return np.array_equal(Tb, np.asarray(T_bot, dtype=float)) and np.array_equal(Tt, np.asarray(T_top, dtype=float))


# ------------------------------------------------------------------------------------------ warm-up

_warmed = False


def warm():
    """Import the library, compile / load every kernel the SP paths use."""
    global _warmed
    if _warmed:
        return
    import warnings
    warnings.filterwarnings("ignore", message=".*np.dot\\(\\) is faster on contiguous arrays.*")
    spec = {"route": "newSP", "rb": 0.9, "rt": 0.3, "sb": 9.0, "st": 25.0, "tb": 0.05, "tt": 0.02,
            "lmin": 0.75, "lmax": 1.5, "rot": 1, "alt_rot": 0.0, "base": np.array([0.1, 0.2, 0.3, 0.1, -0.2, 0.3]),
            "spin": None, "max_dev": 55.0, "masses": None}
    for route in ROUTES:
        s = dict(spec, route=route)
        if route == "makeSP":
            s["st"] = s["sb"]
            s["tt"] = s["tb"]
        sp, model = build_sp(s)
        Tb = model.T_bot
        Tt = Tb @ rel_T(model, [0.05, -0.03, 0.04, 0.1, -0.05, 0.08])
        L, _ = sp.IK(make_tm(Tt), make_tm(Tb))
        for mode in (1, 0):
            reset_neutral(sp, model)
            sp.FK(np.array(L, dtype=float).reshape(6).copy(), fk_mode=mode)
        reset_neutral(sp, model)
        sp.spinCustom(0.2)
        sp.move(make_tm(O.pose_from_taa([1, 0, 0, 0, 0, 0.5])))
        sp.validate(True)
    _warmed = True
