"""Shared Hypothesis strategies.  Every random choice is a Hypothesis draw."""
import math

import numpy as np
from hypothesis import strategies as st

from . import oracle as O

PI = math.pi


def floats(lo, hi, **kw):
    return st.floats(min_value=lo, max_value=hi, allow_nan=False, allow_infinity=False, **kw)


def log_uniform(lo, hi):
    """Magnitudes spread evenly over decades."""
    return floats(math.log(lo), math.log(hi)).map(math.exp)


def signed_log_uniform(lo, hi):
    return st.tuples(log_uniform(lo, hi), st.booleans()).map(lambda t: t[0] if t[1] else -t[0])


# ------------------------------------------------------------------------------- axes

_AXES = [(1, 0, 0), (-1, 0, 0), (0, 1, 0), (0, -1, 0), (0, 0, 1), (0, 0, -1)]


@st.composite
def unit_vectors(draw, kinds=("axis", "plane", "generic")):
    kind = draw(st.sampled_from(kinds))
    if kind == "axis":
        return np.array(draw(st.sampled_from(_AXES)), dtype=float)
    if kind == "plane":
        a = draw(floats(-PI, PI))
        zero = draw(st.integers(0, 2))
        v = [math.cos(a), math.sin(a)]
        v.insert(zero, 0.0)
        return np.array(v, dtype=float)
    # generic point on the sphere: uniform z and azimuth
    z = draw(floats(-1.0, 1.0))
    a = draw(floats(-PI, PI))
    r = math.sqrt(max(0.0, 1 - z * z))
    v = np.array([r * math.cos(a), r * math.sin(a), z], dtype=float)
    n = np.linalg.norm(v)
    return v / n if n > 0 else np.array([0.0, 0.0, 1.0])


def generic_unit_vectors():
    return unit_vectors(kinds=("generic",))


# ------------------------------------------------------------------------------- angles

def angles_full():
    """[0, 2pi] with mass at 0, the 1e-6 cut-off, and pi."""
    return st.one_of(
        floats(0.0, 2 * PI),
        floats(1e-3, PI - 1e-3),
        log_uniform(1e-9, 1e-4),
        log_uniform(1e-4, 0.3),          # small but not tiny: the decades where series / shortcut thresholds live
        st.sampled_from([0.0, 1e-6, math.nextafter(1e-6, 0), math.nextafter(1e-6, 1), 1e-7, 2e-6, 5e-7]),
        st.integers(1, 12).map(lambda k: PI - 10.0 ** (-k)),
        st.sampled_from([PI, math.nextafter(PI, 0), math.nextafter(PI, 4)]),
        log_uniform(1e-9, 1e-1).map(lambda e: PI + e),
        st.sampled_from([PI / 2, PI / 3, 2 * PI, 2 * PI - 1e-7, 1.0]),
    )


def angles_lt_pi():
    """[0, pi) with mass at 0, the 1e-6 cut-off, and just below pi."""
    return st.one_of(
        floats(0.0, PI).filter(lambda a: a < PI),
        floats(1e-3, PI - 1e-3),
        log_uniform(1e-9, 1e-4),
        log_uniform(1e-4, 0.3),
        st.sampled_from([0.0, 1e-6, math.nextafter(1e-6, 0), math.nextafter(1e-6, 1), 1e-7, 2e-6, 5e-7]),
        st.integers(1, 12).map(lambda k: PI - 10.0 ** (-k)),
        st.sampled_from([math.nextafter(PI, 0), PI / 2, PI / 3, 1.0, 3.0]),
    )


def angles_below(maxang):
    """[0, maxang] with boundary mass at 0, around 1e-6, and at maxang."""
    return st.one_of(
        floats(0.0, maxang),
        floats(1e-3, maxang),
        log_uniform(1e-9, 1e-4),
        log_uniform(1e-4, 0.3).map(lambda a: min(a, maxang)),
        st.sampled_from([0.0, 1e-7, 1e-6, math.nextafter(1e-6, 0), math.nextafter(1e-6, 1), 2e-6, maxang,
                         min(maxang, PI / 2), min(maxang, 1.0)]),
    )


@st.composite
def rotvecs(draw, ang=None, kinds=("axis", "plane", "generic")):
    th = draw(ang if ang is not None else angles_full())
    u = draw(unit_vectors(kinds))
    return th * u


def rotvecs_below(maxang=PI - 1e-3, kinds=("axis", "plane", "generic")):
    return rotvecs(ang=angles_below(maxang), kinds=kinds)


# ------------------------------------------------------------------------------- positions

@st.composite
def positions(draw, maxnorm=1e3):
    kind = draw(st.sampled_from(["zero", "unit", "log", "axis"]))
    if kind == "zero":
        return np.zeros(3)
    if kind == "unit":
        return np.array([draw(floats(-1, 1)) for _ in range(3)]) * min(1.0, maxnorm)
    if kind == "axis":
        v = np.zeros(3)
        v[draw(st.integers(0, 2))] = draw(signed_log_uniform(1e-3, maxnorm))
        return v
    u = draw(generic_unit_vectors())
    return u * draw(log_uniform(1e-3, maxnorm))


@st.composite
def taas(draw, maxnorm=10.0, maxang=PI - 1e-3, kinds=("axis", "plane", "generic")):
    """Six-vector [x y z rx ry rz] (library 'TAA' order) as a (6,) float array."""
    p = draw(positions(maxnorm))
    w = draw(rotvecs_below(maxang, kinds))
    return np.concatenate([p, w])


@st.composite
def se3s(draw, maxnorm=1e3, ang=None):
    """4x4 rigid transforms built WITHOUT the library: quaternion -> matrix, exact half turns."""
    p = draw(positions(maxnorm))
    kind = draw(st.sampled_from(["rotvec", "rotvec", "quat", "halfturn", "identity"]))
    if kind == "identity":
        R = np.eye(3)
    elif kind == "halfturn":
        which = draw(st.integers(0, 3))
        if which <= 1:
            n = draw(unit_vectors())
        elif which == 2:
            # next to a coordinate axis: the other two components 1e-8 .. 1e-2 (the pivots 1 + R_kk of the half-turn
            # logarithm are then tiny but not zero)
            k = draw(st.integers(0, 2))
            v = np.array([draw(signed_log_uniform(1e-8, 1e-2)) for _ in range(3)])
            v[k] = 1.0 if draw(st.booleans()) else -1.0
            n = v / np.linalg.norm(v)
        else:
            # axes with small-integer direction ratios: the rounded trace of 2nn^T - I then lands on -1, one or two
            # ulps above AND below it (random float axes hardly ever give two ulps below), i.e. on either side of every
            # "trace <= -1" branch decision
            v = np.array([draw(st.integers(-9, 9)) for _ in range(3)], dtype=float)
            if not np.any(v):
                v = np.array([7.0, 6.0, 3.0])
            n = v / np.linalg.norm(v)
        R = 2 * np.outer(n, n) - np.eye(3)
    elif kind == "quat":
        q = np.array([draw(floats(-1, 1)) for _ in range(4)])
        if np.linalg.norm(q) < 1e-3:
            q = np.array([0.0, 0.0, 0.0, 1.0])
        R = O.quat_to_R(q / np.linalg.norm(q))
    else:
        R = O.exp3(draw(rotvecs(ang=ang)))
    return np.ascontiguousarray(O.rp(R, p))


@st.composite
def twists(draw, vmax=1e3, ang=None):
    """[w; v] in MR order."""
    w = draw(rotvecs(ang=ang))
    kind = draw(st.sampled_from(["generic", "pure_rot", "screw", "zero_v"]))
    if kind == "zero_v" or kind == "pure_rot":
        v = np.zeros(3) if kind == "zero_v" else np.cross(draw(positions(10.0)), w)
        if np.linalg.norm(v) > vmax:
            v = v * (vmax / np.linalg.norm(v))
    elif kind == "screw":
        q = draw(positions(10.0))
        h = draw(floats(-2, 2))
        v = np.cross(q, w) + h * w
        if np.linalg.norm(v) > vmax:
            v = v * (vmax / np.linalg.norm(v))
    else:
        v = draw(positions(vmax))
    return np.concatenate([w, v])


def vec(n, lo=-1.0, hi=1.0):
    return st.lists(floats(lo, hi), min_size=n, max_size=n).map(lambda l: np.array(l, dtype=float))


def vec6(mag=10.0):
    return vec(6, -mag, mag)


# ------------------------------------------------------------------------------- chains

@st.composite
def screw_axis(draw, allow_prismatic=True):
    """Normalised screw axis [w; v] (unit w, or w=0 and unit v)."""
    if allow_prismatic and draw(st.integers(0, 5)) == 0:
        return np.concatenate([np.zeros(3), draw(unit_vectors())])
    w = draw(unit_vectors())
    q = np.array([draw(floats(-2, 2)) for _ in range(3)])
    h = draw(st.sampled_from([0.0, 0.0, 0.0, 0.1, -0.5]))
    return np.concatenate([w, np.cross(q, w) + h * w])


@st.composite
def chains(draw, nmin=1, nmax=7, allow_prismatic=True):
    n = draw(st.integers(nmin, nmax))
    S = np.stack([draw(screw_axis(allow_prismatic)) for _ in range(n)], axis=1)
    return np.ascontiguousarray(S)


@st.composite
def spd_spatial_inertia(draw):
    """G = Ad(Tc)^T diag(Ic, m 1) Ad(Tc) with SPD Ic, mass in [0.1, 50]: a physically consistent
    6x6 spatial inertia expressed in a link frame displaced from the centre of mass."""
    m = draw(floats(0.1, 50.0))
    a = np.array([draw(floats(0.01, 5.0)) for _ in range(3)])
    Rp = O.exp3(draw(rotvecs_below(PI - 1e-3)))
    Ic = Rp @ np.diag(a) @ Rp.T
    Ic = (Ic + Ic.T) / 2
    G0 = np.zeros((6, 6))
    G0[:3, :3] = Ic
    G0[3:, 3:] = m * np.eye(3)
    if draw(st.booleans()):
        return np.ascontiguousarray(G0)
    Tc = O.rp(O.exp3(draw(rotvecs_below(PI - 1e-3))), np.array([draw(floats(-0.5, 0.5)) for _ in range(3)]))
    A = O.Ad(Tc)
    G = A.T @ G0 @ A
    return np.ascontiguousarray((G + G.T) / 2)
