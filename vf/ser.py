"""Serialisation of generated cases: canonical bytes (digests), JSON (replay files, samples).

A case is any nesting of dict / list / tuple / str / int / float / bool / None / bytes /
numpy scalars / numpy arrays.  JSON floats written by Python's json round-trip exactly
(shortest repr), and NaN / Infinity / -0.0 survive json.dumps/json.loads, so replay files
reproduce the case bit for bit.  Arrays keep dtype, shape and memory order.
"""
import hashlib
import json
import numpy as np


def to_jsonable(x):
    if x is None or isinstance(x, (bool, str)):
        return x
    if isinstance(x, (np.bool_,)):
        return bool(x)
    if isinstance(x, (int, np.integer)):
        return int(x)
    if isinstance(x, (float, np.floating)):
        return float(x)
    if isinstance(x, complex):
        return {"__complex__": [x.real, x.imag]}
    if isinstance(x, bytes):
        return {"__bytes__": x.hex()}
    if isinstance(x, np.ndarray):
        order = "F" if (x.flags.f_contiguous and not x.flags.c_contiguous) else "C"
        if x.dtype == object:
            data = [to_jsonable(v) for v in x.ravel().tolist()]
        else:
            data = x.ravel(order="C").tolist()
        return {"__nd__": [str(x.dtype), list(x.shape), order], "data": data}
    if isinstance(x, tuple):
        return {"__tuple__": [to_jsonable(v) for v in x]}
    if isinstance(x, (list,)):
        return [to_jsonable(v) for v in x]
    if isinstance(x, dict):
        return {str(k): to_jsonable(v) for k, v in x.items()}
    if isinstance(x, (set, frozenset)):
        return {"__set__": sorted((to_jsonable(v) for v in x), key=repr)}
    raise TypeError("case element not serialisable: %r" % (type(x),))


def from_jsonable(x):
    if isinstance(x, list):
        return [from_jsonable(v) for v in x]
    if isinstance(x, dict):
        if "__nd__" in x:
            dtype, shape, order = x["__nd__"]
            if dtype == "object":
                a = np.empty(len(x["data"]), dtype=object)
                for i, v in enumerate(x["data"]):
                    a[i] = from_jsonable(v)
                a = a.reshape(shape)
            else:
                a = np.array(x["data"], dtype=np.dtype(dtype)).reshape(shape)
            if order == "F":
                a = np.asfortranarray(a)
            return a
        if "__tuple__" in x:
            return tuple(from_jsonable(v) for v in x["__tuple__"])
        if "__bytes__" in x:
            return bytes.fromhex(x["__bytes__"])
        if "__complex__" in x:
            return complex(*x["__complex__"])
        if "__set__" in x:
            return set(from_jsonable(v) for v in x["__set__"])
        return {k: from_jsonable(v) for k, v in x.items()}
    return x


def dumps(case, **kw):
    return json.dumps(to_jsonable(case), **kw)


def loads(s):
    return from_jsonable(json.loads(s))


def _canon(x, h):
    if x is None:
        h.update(b"N")
    elif isinstance(x, (bool, np.bool_)):
        h.update(b"T" if x else b"F")
    elif isinstance(x, (int, np.integer)):
        h.update(b"i" + str(int(x)).encode())
    elif isinstance(x, (float, np.floating)):
        h.update(b"f" + np.float64(x).tobytes())
    elif isinstance(x, str):
        h.update(b"s" + x.encode("utf-8", "surrogatepass") + b"\0")
    elif isinstance(x, bytes):
        h.update(b"b" + x + b"\0")
    elif isinstance(x, np.ndarray):
        h.update(b"a" + str(x.dtype).encode() + str(x.shape).encode())
        if x.dtype == object:
            for v in x.ravel().tolist():
                _canon(v, h)
        else:
            h.update(np.ascontiguousarray(x).tobytes())
    elif isinstance(x, (list, tuple)):
        h.update(b"[" if isinstance(x, list) else b"(")
        for v in x:
            _canon(v, h)
        h.update(b"]")
    elif isinstance(x, dict):
        h.update(b"{")
        for k in sorted(x, key=str):
            h.update(str(k).encode() + b":")
            _canon(x[k], h)
        h.update(b"}")
    elif isinstance(x, complex):
        h.update(b"c" + np.complex128(x).tobytes())
    elif isinstance(x, (set, frozenset)):
        h.update(b"<")
        for v in sorted(x, key=repr):
            _canon(v, h)
        h.update(b">")
    else:
        raise TypeError("case element not hashable: %r" % (type(x),))


def digest(case):
    """8-byte digest of a case (distinctness counting)."""
    h = hashlib.blake2b(digest_size=8)
    _canon(case, h)
    return h.digest()


def hexdigest(case):
    return digest(case).hex()
