"""Independent SE(3)/so(3) toolkit.  Never imports basic_robotics.

Everything is written from the mathematics (Rodrigues in long double, scipy's Rotation and expm
as cross-checks), so it can serve as an oracle for the library's closed forms.
"""
import numpy as np
from scipy.linalg import expm as _expm
from scipy.spatial.transform import Rotation as _Rot

LD = np.longdouble


def hat3(w):
    w = np.asarray(w, dtype=float).reshape(3)
    return np.array([[0.0, -w[2], w[1]], [w[2], 0.0, -w[0]], [-w[1], w[0], 0.0]])


def vee3(m):
    return np.array([m[2, 1], m[0, 2], m[1, 0]], dtype=float)


def hat6(V):
    """MR convention: V = [w; v]."""
    V = np.asarray(V, dtype=float).reshape(6)
    m = np.zeros((4, 4))
    m[:3, :3] = hat3(V[:3])
    m[:3, 3] = V[3:]
    return m


def vee6(m):
    return np.array([m[2, 1], m[0, 2], m[1, 0], m[0, 3], m[1, 3], m[2, 3]], dtype=float)


def _sinc_terms(th):
    """A = sin th / th, B = (1-cos th)/th^2, C = (th - sin th)/th^3 in long double, series near 0."""
    th = LD(th)
    if abs(th) < LD(1e-4):
        t2 = th * th
        A = LD(1) - t2 / 6 + t2 * t2 / 120
        B = LD(0.5) - t2 / 24 + t2 * t2 / 720
        C = LD(1) / 6 - t2 / 120 + t2 * t2 / 5040
    else:
        A = np.sin(th) / th
        B = (LD(1) - np.cos(th)) / (th * th)
        C = (th - np.sin(th)) / (th * th * th)
    return A, B, C


def exp3(w):
    """Exact (long double Rodrigues with series) rotation matrix of rotation vector w."""
    w = np.asarray(w, dtype=float).reshape(3)
    wl = w.astype(LD)
    th = np.sqrt(wl @ wl)
    A, B, _ = _sinc_terms(th)
    W = hat3(w).astype(LD)
    R = np.eye(3, dtype=LD) + A * W + B * (W @ W)
    return np.asarray(R, dtype=float)


def exp6(V):
    """exp of twist V = [w; v] (MR order) as a 4x4."""
    V = np.asarray(V, dtype=float).reshape(6)
    w = V[:3].astype(LD)
    v = V[3:].astype(LD)
    th = np.sqrt(w @ w)
    A, B, C = _sinc_terms(th)
    W = hat3(V[:3]).astype(LD)
    R = np.eye(3, dtype=LD) + A * W + B * (W @ W)
    G = np.eye(3, dtype=LD) + B * W + C * (W @ W)
    T = np.eye(4, dtype=LD)
    T[:3, :3] = R
    T[:3, 3] = G @ v
    return np.asarray(T, dtype=float)


def exp6_expm(V):
    return _expm(hat6(V))


def log3(R):
    """Rotation vector of R, accurate through pi (scipy goes through the quaternion)."""
    return _Rot.from_matrix(np.asarray(R, dtype=float)).as_rotvec()


def angle(R):
    return float(np.linalg.norm(log3(R)))


def rot_angle_between(R1, R2):
    return angle(np.asarray(R1).T @ np.asarray(R2))


def log6(T):
    """Twist [w; v] with exp6(V) = T, principal branch."""
    T = np.asarray(T, dtype=float)
    w = log3(T[:3, :3])
    th = np.linalg.norm(w)
    W = hat3(w).astype(LD)
    thl = LD(th)
    if th < 1e-4:
        t2 = thl * thl
        D = LD(1) / 12 + t2 / 720 + t2 * t2 / 30240
    else:
        half = thl / 2
        D = (LD(1) - half * np.cos(half) / np.sin(half)) / (thl * thl)
    Ginv = np.eye(3, dtype=LD) - W / 2 + D * (W @ W)
    v = Ginv @ T[:3, 3].astype(LD)
    return np.concatenate([w, np.asarray(v, dtype=float)])


def rp(R, p):
    T = np.eye(4)
    T[:3, :3] = R
    T[:3, 3] = np.asarray(p, dtype=float).reshape(3)
    return T


def inv(T):
    T = np.asarray(T, dtype=float)
    R = T[:3, :3]
    out = np.eye(4)
    out[:3, :3] = R.T
    out[:3, 3] = -R.T @ T[:3, 3]
    return out


def Ad(T):
    T = np.asarray(T, dtype=float)
    R = T[:3, :3]
    out = np.zeros((6, 6))
    out[:3, :3] = R
    out[3:, 3:] = R
    out[3:, :3] = hat3(T[:3, 3]) @ R
    return out


def ad(V):
    V = np.asarray(V, dtype=float).reshape(6)
    out = np.zeros((6, 6))
    out[:3, :3] = hat3(V[:3])
    out[3:, 3:] = hat3(V[:3])
    out[3:, :3] = hat3(V[3:])
    return out


def quat_to_R(q):
    """q = (x, y, z, w), any non-zero norm; written out, no scipy."""
    x, y, z, w = (LD(v) for v in q)
    n = x * x + y * y + z * z + w * w
    s = LD(2) / n
    R = np.array([
        [1 - s * (y * y + z * z), s * (x * y - z * w), s * (x * z + y * w)],
        [s * (x * y + z * w), 1 - s * (x * x + z * z), s * (y * z - x * w)],
        [s * (x * z - y * w), s * (y * z + x * w), 1 - s * (x * x + y * y)]], dtype=LD)
    return np.asarray(R, dtype=float)


def rotvec_to_quat(w):
    w = np.asarray(w, dtype=float).reshape(3)
    th = np.linalg.norm(w)
    if th < 1e-12:
        return np.array([w[0] / 2, w[1] / 2, w[2] / 2, 1.0])
    return np.concatenate([np.sin(th / 2) * w / th, [np.cos(th / 2)]])


def rotx(a):
    c, s = np.cos(a), np.sin(a)
    return np.array([[1, 0, 0], [0, c, -s], [0, s, c]], dtype=float)


def roty(a):
    c, s = np.cos(a), np.sin(a)
    return np.array([[c, 0, s], [0, 1, 0], [-s, 0, c]], dtype=float)


def rotz(a):
    c, s = np.cos(a), np.sin(a)
    return np.array([[c, -s, 0], [s, c, 0], [0, 0, 1]], dtype=float)


def is_rotation(R, tol=1e-9):
    R = np.asarray(R, dtype=float)
    return (R.shape == (3, 3) and np.all(np.isfinite(R))
            and np.abs(R.T @ R - np.eye(3)).max() <= tol and abs(np.linalg.det(R) - 1) <= tol)


def is_se3(T, tol=1e-9):
    T = np.asarray(T, dtype=float)
    return (T.shape == (4, 4) and np.all(np.isfinite(T)) and is_rotation(T[:3, :3], tol)
            and np.array_equal(T[3], [0.0, 0.0, 0.0, 1.0]))


def pose_from_taa(taa):
    """basic_robotics 'TAA' convention: [x y z rx ry rz] -> 4x4."""
    taa = np.asarray(taa, dtype=float).reshape(6)
    return rp(exp3(taa[3:]), taa[:3])


def pose_err(T1, T2):
    """(rotation angle between, translation distance)."""
    T1 = np.asarray(T1, dtype=float)
    T2 = np.asarray(T2, dtype=float)
    return rot_angle_between(T1[:3, :3], T2[:3, :3]), float(np.linalg.norm(T1[:3, 3] - T2[:3, 3]))


# ---------------------------------------------------------------------------- chains

def poe_space(M, Slist, theta):
    """T = exp([S1]t1) ... exp([Sn]tn) M, Slist 6xn (MR order)."""
    T = np.eye(4)
    Slist = np.asarray(Slist, dtype=float)
    for i in range(len(theta)):
        T = T @ exp6(Slist[:, i] * theta[i])
    return T @ np.asarray(M, dtype=float)


def poe_body(M, Blist, theta):
    T = np.asarray(M, dtype=float).copy()
    Blist = np.asarray(Blist, dtype=float)
    for i in range(len(theta)):
        T = T @ exp6(Blist[:, i] * theta[i])
    return T


def jac_space(Slist, theta):
    Slist = np.asarray(Slist, dtype=float)
    n = Slist.shape[1]
    J = np.zeros((6, n))
    T = np.eye(4)
    for i in range(n):
        J[:, i] = Ad(T) @ Slist[:, i]
        T = T @ exp6(Slist[:, i] * theta[i])
    return J


def jac_body(Blist, theta):
    Blist = np.asarray(Blist, dtype=float)
    n = Blist.shape[1]
    J = np.zeros((6, n))
    T = np.eye(4)
    for i in range(n - 1, -1, -1):
        J[:, i] = Ad(T) @ Blist[:, i]
        T = T @ exp6(-Blist[:, i] * theta[i])
    return J


def richardson(f, x, i, h=1e-3):
    """d f / d x_i by Richardson-extrapolated central differences with steps h, h/2, h/4
    (never below 1e-4 for h>=4e-4, so a 1e-6 near-zero cut-off is never entered)."""
    def cd(step):
        xp = np.array(x, dtype=float)
        xm = np.array(x, dtype=float)
        xp[i] += step
        xm[i] -= step
        return (np.asarray(f(xp), dtype=float) - np.asarray(f(xm), dtype=float)) / (2 * step)
    d1, d2, d3 = cd(h), cd(h / 2), cd(h / 4)
    r1 = (4 * d2 - d1) / 3
    r2 = (4 * d3 - d2) / 3
    return (16 * r2 - r1) / 15
