"""Runner: ./vcheck <ID> --tier quick|thorough | --replay <file>

Exit codes: 0 property held on everything explored; 1 violation (prints
"VIOLATION property=<id> replay=<path>"); 2 harness error (never a violation).
"""
import argparse
import glob
import hashlib
import importlib
import json
import math
import os
import shutil
import subprocess
import sys
import time
import traceback

VERIF = os.path.dirname(os.path.dirname(os.path.abspath(__file__)))
REPO = os.environ.get("VF_REPO", "/repo")


def tree_hash():
    h = hashlib.sha1()
    for p in sorted(glob.glob(os.path.join(REPO, "basic_robotics", "**", "*.py"), recursive=True)):
        h.update(p.encode())
        with open(p, "rb") as f:
            h.update(hashlib.sha1(f.read()).digest())
    return h.hexdigest()[:16]


def pin_env(boundscheck=False):
    """Re-exec once with a pinned environment so a run is a function of (tree, seed, tier)."""
    if os.environ.get("VF_PINNED") == "1":
        return
    env = dict(os.environ)
    env["VF_PINNED"] = "1"
    env["PYTHONHASHSEED"] = "0"
    env["MPLBACKEND"] = "Agg"
    env["PYTHONDONTWRITEBYTECODE"] = "1"
    env["BASIC_ROBOTICS_VERIF"] = "1"
    env["OMP_NUM_THREADS"] = "1"
    env["OPENBLAS_NUM_THREADS"] = "1"
    env["MKL_NUM_THREADS"] = "1"
    env["NUMBA_NUM_THREADS"] = "1"
    pp = [REPO, VERIF, os.path.join(VERIF, ".deps")]
    if env.get("PYTHONPATH"):
        pp.append(env["PYTHONPATH"])
    env["PYTHONPATH"] = os.pathsep.join(pp)
    th = tree_hash()
    root = os.path.join(VERIF, ".cache", "numba")
    env["VF_TREE_HASH"] = th
    env["NUMBA_CACHE_DIR"] = os.path.join(root, th)
    os.makedirs(env["NUMBA_CACHE_DIR"], exist_ok=True)
    # prune stale tree-hash directories: only those untouched for 12 h, and never below 48 kept
    # (several runs against different scratch trees may be alive at once)
    try:
        dirs = sorted((d for d in glob.glob(os.path.join(root, "*")) if os.path.isdir(d)),
                      key=os.path.getmtime, reverse=True)
        now = time.time()
        for d in dirs[48:]:
            if os.path.basename(d).split("-")[0] != th and now - os.path.getmtime(d) > 12 * 3600:
                shutil.rmtree(d, ignore_errors=True)
        os.utime(env["NUMBA_CACHE_DIR"], None)
    except OSError:
        pass
    os.execve(sys.executable, [sys.executable, "-m", "vf.run"] + sys.argv[1:], env)


def find_module(pid):
    hits = sorted(glob.glob(os.path.join(VERIF, "props", pid.lower() + "_*.py")))
    if len(hits) != 1:
        raise SystemExit("no unique property module for %s: %s" % (pid, hits))
    name = os.path.splitext(os.path.basename(hits[0]))[0]
    return importlib.import_module("props." + name)


# ------------------------------------------------------------------------------------------
# running one clause in this process
# ------------------------------------------------------------------------------------------

def run_clause(clause, tier, n, seed, shard, nshards, scale=1.0):
    from . import core, ser
    stats = core.Stats()
    if clause.kind == "enum":
        return run_enum(clause, tier, shard, nshards, stats)
    import hypothesis
    from hypothesis import HealthCheck, Phase, given, settings

    state = {"fail": None}

    phases = [Phase.explicit, Phase.generate, Phase.shrink]
    if tier == "quick" and not clause.shrink_quick:
        phases = [Phase.explicit, Phase.generate]

    @hypothesis.seed(seed)
    @settings(max_examples=max(1, n), database=None, deadline=None, report_multiple_bugs=False,
              print_blob=False, derandomize=False, phases=phases,
              suppress_health_check=[HealthCheck.too_slow, HealthCheck.data_too_large,
                                     HealthCheck.large_base_example])
    @given(clause.strategy)
    def test(case):
        ctx = core.Ctx()
        try:
            clause.check(case, ctx)
        except core.Skip as s:
            stats.skipped[s.reason] += 1
            return
        except core.Inconclusive:
            stats.inconclusive += 1
            return
        except core.Violation as v:
            reg = clause.region(case, str(v)) if clause.region else None
            if reg and reg in open_regions():
                stats.known[reg] += 1
                stats.evals += 1
                _dump_known(clause, reg, case, str(v))
                return
            state["fail"] = (ser.to_jsonable(case), str(v))
            raise
        stats.record(case, ctx)

    try:
        test()
    except core.Violation:
        stats.failure = state["fail"]
    except hypothesis.errors.Flaky as e:  # a flaky check is a broken check, not a violation
        raise core.HarnessError("flaky clause %s: %s" % (clause.name, e))
    return stats


def run_enum(clause, tier, shard, nshards, stats):
    from . import core, ser
    total = clause.size(tier)
    lo = total * shard // nshards
    hi = total * (shard + 1) // nshards
    if clause.run_range is not None:
        clause.run_range(lo, hi, tier, stats)
        return stats
    for i in range(lo, hi):
        case = clause.case_at(i, tier)
        ctx = core.Ctx()
        try:
            clause.check(case, ctx)
        except core.Skip as s:
            stats.skipped[s.reason] += 1
            continue
        except core.Inconclusive:
            stats.inconclusive += 1
            continue
        except core.Violation as v:
            reg = clause.region(case, str(v)) if clause.region else None
            if reg and reg in open_regions():
                stats.known[reg] += 1
                stats.evals += 1
                continue
            stats.failure = (ser.to_jsonable(case), str(v))
            break
        stats.record(case, ctx)
    if stats.exhaustive is None:
        stats.exhaustive = stats.failure is None
    return stats


def run_shard(mod, tier, seed, shard, nshards, only, scale):
    out = {}
    for ci, clause in enumerate(mod.CLAUSES):
        if only and clause.name not in only:
            continue
        k = nshards if clause.max_shards is None else min(nshards, clause.max_shards)
        if shard >= k:
            continue
        n = int(math.ceil(clause.n(tier) * scale / k))
        s = (seed * 1000003 + shard * 1009 + ci * 17) % (2 ** 63)
        t0 = time.time()
        st = run_clause(clause, tier, n, s, shard, k, scale)
        st.extra["wall_s"] = time.time() - t0
        out[clause.name] = st.to_partial()
    return out


# ------------------------------------------------------------------------------------------
# known findings
# ------------------------------------------------------------------------------------------

_OPEN = {}


def _dump_known(clause, reg, case, msg):
    """Maintenance aid (VF_DUMP_KNOWN=<dir>): keep one case per known-finding region, to renew a witness."""
    d = os.environ.get("VF_DUMP_KNOWN")
    if not d:
        return
    from . import ser
    os.makedirs(d, exist_ok=True)
    path = os.path.join(d, "%s-%s-%d.json" % (clause.name, reg, os.getpid()))
    if not os.path.exists(path):
        with open(path, "w") as f:
            json.dump({"property": _OPEN.get("pid"), "clause": clause.name, "message": msg, "case": ser.to_jsonable(case)}, f, indent=1)


def open_regions():
    """Names of the regions of this property's OPEN known findings (only these suppress)."""
    pid = _OPEN.get("pid")
    if "set" not in _OPEN:
        _OPEN["set"] = {e.get("region") for e in load_known(pid) if e.get("status") == "open"}
    return _OPEN["set"]


def load_known(pid):
    path = os.path.join(VERIF, "known_findings.json")
    if not os.path.exists(path):
        return []
    with open(path) as f:
        data = json.load(f)
    return [e for e in data.get("findings", []) if e.get("property") == pid]


def replay_file(mod, path):
    """Returns (clause_name, failed, message)."""
    from . import core, ser
    with open(path) as f:
        rec = json.load(f)
    clause = {c.name: c for c in mod.CLAUSES}.get(rec["clause"])
    if clause is None:
        raise core.HarnessError("replay %s names unknown clause %s" % (path, rec["clause"]))
    case = ser.from_jsonable(rec["case"])
    ctx = core.Ctx(replay=True)
    try:
        clause.check(case, ctx)
    except core.Skip as s:
        return rec["clause"], False, "skipped: %s" % s.reason
    except core.Inconclusive as s:
        return rec["clause"], False, "inconclusive: %s" % s
    except core.Violation as v:
        return rec["clause"], True, str(v)
    return rec["clause"], False, "holds"


def write_replay(pid, clause_name, case_jsonable, message, seed, tier):
    from . import ser
    d = os.path.join(VERIF, "replays", pid)
    os.makedirs(d, exist_ok=True)
    dig = hashlib.sha1(json.dumps(case_jsonable, sort_keys=True).encode()).hexdigest()[:10]
    path = os.path.join(d, "%s-%s.json" % (clause_name, dig))
    with open(path, "w") as f:
        json.dump({"property": pid, "clause": clause_name, "message": message, "seed": seed,
                   "tier": tier, "case": case_jsonable}, f, indent=1)
    return os.path.relpath(path, VERIF)


# ------------------------------------------------------------------------------------------
# main
# ------------------------------------------------------------------------------------------

def main():
    ap = argparse.ArgumentParser()
    ap.add_argument("pid")
    ap.add_argument("--tier", default=os.environ.get("VERIF_TIER") or "quick", choices=["quick", "thorough"])
    ap.add_argument("--seed", type=int, default=None)
    ap.add_argument("--replay")
    ap.add_argument("--clauses", default="")
    ap.add_argument("--shards", type=int, default=None)
    ap.add_argument("--scale", type=float, default=float(os.environ.get("VF_SCALE", "1")))
    ap.add_argument("--shard", default=None, help="internal: k/K")
    ap.add_argument("--partial", default=None, help="internal: output file of a shard")
    ap.add_argument("--no-evidence", action="store_true")
    args = ap.parse_args()
    pin_env()
    pid = args.pid.upper()
    _OPEN["pid"] = pid
    seed = args.seed
    if seed is None:
        try:
            seed = int(os.environ.get("VERIF_SEED", "0") or 0)
        except ValueError:
            seed = int(hashlib.sha1(os.environ["VERIF_SEED"].encode()).hexdigest()[:8], 16)
    os.chdir(VERIF)
    only = [c for c in args.clauses.split(",") if c]

    try:
        mod = find_module(pid)
        from . import core
        import basic_robotics
        if not os.path.realpath(basic_robotics.__file__).startswith(os.path.realpath(REPO) + os.sep):
            raise core.HarnessError("basic_robotics imported from %s, not from %s" % (basic_robotics.__file__, REPO))

        if args.replay:
            name, failed, msg = replay_file(mod, args.replay)
            print("replay %s clause=%s: %s" % (args.replay, name, msg))
            if failed:
                print("VIOLATION property=%s replay=%s" % (pid, args.replay))
                return 1
            return 0

        if args.shard:
            k, K = (int(x) for x in args.shard.split("/"))
            if hasattr(mod, "warm"):
                mod.warm()
            part = run_shard(mod, args.tier, seed, k, K, only, args.scale)
            with open(args.partial, "w") as f:
                json.dump(part, f)
            return 0

        return parent(mod, pid, args, seed, only)
    except core.HarnessError as e:
        print("HARNESS-ERROR property=%s %s" % (pid, e))
        traceback.print_exc()
        return 2
    except SystemExit:
        raise
    except BaseException:
        print("HARNESS-ERROR property=%s" % pid)
        traceback.print_exc()
        return 2


def parent(mod, pid, args, seed, only):
    from . import core
    t0 = time.time()
    tier = args.tier
    violations = []

    # 1. known findings: witnesses of open entries are replayed and announced; fixed entries are
    #    regressions that must keep passing.
    open_regions = {}
    for e in load_known(pid):
        wit = e.get("witness")
        if e.get("status") == "open":
            still = True
            if wit:
                _, still, msg = replay_file(mod, os.path.join(VERIF, wit))
            if still:
                print("KNOWN-FINDING: property=%s %s" % (pid, e.get("text", e.get("id"))))
            else:
                print("NOTE: listed finding %s no longer reproduces from its witness" % e.get("id"))
            open_regions[e.get("region")] = e
        elif e.get("status") == "fixed" and wit:
            _, failed, msg = replay_file(mod, os.path.join(VERIF, wit))
            if failed:
                print("regression of fixed finding %s: %s" % (e.get("id"), msg))
                violations.append((e.get("clause", "?"), wit))

    # 2. committed regression replays must hold: replays/<ID>/fixed/*.json (witnesses of repaired
    #    defects) and replays/<ID>/regress/*.json
    done = {os.path.join(VERIF, e["witness"]) for e in load_known(pid) if e.get("status") == "fixed" and e.get("witness")}
    for path in sorted(glob.glob(os.path.join(VERIF, "replays", pid, "fixed", "*.json")) +
                       glob.glob(os.path.join(VERIF, "replays", pid, "regress", "*.json"))):
        if path in done:
            continue
        _, failed, msg = replay_file(mod, path)
        if failed:
            violations.append(("regress", os.path.relpath(path, VERIF)))
            print("regression replay fails: %s: %s" % (path, msg))

    # 3. shards
    default_shards = getattr(mod, "SHARDS", {"quick": 4, "thorough": 16})
    K = args.shards or default_shards[tier]
    if hasattr(mod, "warm"):
        mod.warm()  # populates the on-disk JIT cache before the shards start
    tmpdir = os.path.join(VERIF, ".cache", "partials", "%s-%d" % (pid, os.getpid()))
    os.makedirs(tmpdir, exist_ok=True)
    merged = {}
    try:
        if K == 1:
            parts = [run_shard(mod, tier, seed, 0, 1, only, args.scale)]
        else:
            procs = []
            for k in range(K):
                pf = os.path.join(tmpdir, "p%d.json" % k)
                cmd = [sys.executable, "-m", "vf.run", pid, "--tier", tier, "--seed", str(seed),
                       "--shard", "%d/%d" % (k, K), "--partial", pf, "--scale", str(args.scale)]
                if only:
                    cmd += ["--clauses", ",".join(only)]
                lf = open(os.path.join(tmpdir, "p%d.log" % k), "w")
                procs.append((k, pf, lf, subprocess.Popen(cmd, stdout=lf, stderr=subprocess.STDOUT)))
            parts = []
            bad = []
            for k, pf, lf, p in procs:
                rc = p.wait()
                lf.close()
                if rc != 0 or not os.path.exists(pf):
                    with open(lf.name) as f:
                        bad.append("shard %d rc=%s\n%s" % (k, rc, f.read()[-4000:]))
                    continue
                with open(pf) as f:
                    parts.append(json.load(f))
            if bad:
                raise core.HarnessError("shards failed:\n" + "\n".join(bad))
        for part in parts:
            for name, p in part.items():
                st = core.Stats.from_partial(p)
                if name in merged:
                    merged[name].merge(st)
                else:
                    merged[name] = st
    finally:
        shutil.rmtree(tmpdir, ignore_errors=True)

    # 4. verdicts
    for name, st in merged.items():
        if st.failure is not None:
            case_j, msg = st.failure
            path = write_replay(pid, name, case_j, msg, seed, tier)
            violations.append((name, path))
            print("clause %s FAILED: %s" % (name, msg[:500]))

    evals = sum(st.evals for st in merged.values())
    nontriv = sum(st.nontrivial for st in merged.values())
    wall = time.time() - t0
    if not args.no_evidence and not only:
        per_clause = {}
        samples = []
        for name, st in merged.items():
            per_clause[name] = {
                "evaluations": st.evals, "distinct_nontrivial": st.nontrivial,
                "skipped_outside_domain": dict(st.skipped), "inconclusive": st.inconclusive,
                "in_known_finding_region": dict(st.known),
                "labels": dict(sorted(st.labels.items(), key=lambda kv: -kv[1])[:40]),
                "exhaustive": st.exhaustive, "wall_s": round(st.extra.get("wall_s", 0.0), 2),
                "failed": st.failure is not None,
            }
            for k2, v2 in st.extra.items():
                if k2 != "wall_s":
                    per_clause[name][k2] = v2
            for smp in st.samples[:2]:
                samples.append({"clause": name, **smp})
        cov = {
            "evaluations": evals, "distinct_nontrivial": nontriv,
            "rule": getattr(mod, "RULE", ""), "samples": samples, "clauses": per_clause,
            "shards": K, "tree_hash": os.environ.get("VF_TREE_HASH", ""),
        }
        exh = [st.exhaustive for st in merged.values() if st.exhaustive is not None]
        if exh:
            cov["exhaustive_clauses"] = [n for n, st in merged.items() if st.exhaustive]
            if len(exh) == len(merged) and all(exh):
                cov["exhaustive"] = True
        ev = {
            "property_id": pid, "tier": tier, "seed": seed, "level": "exploration",
            "coverage": cov, "assumptions": list(getattr(mod, "ASSUMPTIONS", [])),
            "wall_s": round(wall, 2), "violations": len(violations),
        }
        os.makedirs(os.path.join(VERIF, "evidence"), exist_ok=True)
        with open(os.path.join(VERIF, "evidence", pid + ".json"), "w") as f:
            json.dump(ev, f, indent=1)

    print("%s tier=%s seed=%d clauses=%d evaluations=%d nontrivial=%d wall=%.1fs" %
          (pid, tier, seed, len(merged), evals, nontriv, wall))
    for name, st in merged.items():
        print("  %-34s evals=%-7d nontrivial=%-7d skipped=%-5d known=%-4d inconcl=%-3d %s" %
              (name, st.evals, st.nontrivial, sum(st.skipped.values()), sum(st.known.values()),
               st.inconclusive, "FAILED" if st.failure else "ok"))
    # a clause that explored nothing is a broken check, not a pass
    empty = [n for n, st in merged.items() if st.evals == 0 and st.failure is None]
    if empty and not violations:
        raise core.HarnessError("clauses explored nothing: %s" % empty)
    if violations:
        for name, path in violations:
            print("VIOLATION property=%s replay=%s" % (pid, path))
        return 1
    return 0


if __name__ == "__main__":
    sys.exit(main())
