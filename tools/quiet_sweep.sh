#!/bin/bash
# tools/quiet_sweep.sh [ids...] : quick tier of each claimed check at several seeds on the unchanged tree
cd "$(dirname "$(readlink -f "$0")")/.." || exit 2
ids="$@"; [ -z "$ids" ] && ids=$(grep -v '^#' tools/claimed.txt)
rc=0
for id in $ids; do
  for s in 1 2 3 7 12345; do
    out=$(VERIF_SEED=$s ./vcheck $id --tier quick --no-evidence 2>&1); r=$?
    line=$(echo "$out" | grep -E "^$id tier=")
    echo "$id seed=$s rc=$r $line"
    if [ $r -ne 0 ]; then rc=1; echo "$out" | grep -E "FAILED|VIOLATION|HARNESS" | head -5; fi
  done
done
exit $rc
