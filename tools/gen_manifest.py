#!/venv/bin/python
"""Regenerates MANIFEST.json from the table below (one place to keep the 20 entries consistent)."""
import json
import os

VERIF = os.path.dirname(os.path.dirname(os.path.abspath(__file__)))

# property -> (technique, level text, level note); only ACCEPTED checks are listed in CLAIMED
T = {
 "C01": ("property-based testing (Hypothesis): round-trip, homomorphism and differential relations against an independent long-double/scipy SE(3) oracle",
         "Generated-input search over rotation vectors, twists and SE(3) elements with boundary mass (|w|->0, every decade 1e-9..0.3, |w|->pi, exact half turns about coordinate, near-coordinate, small-integer-ratio and random axes, integer-typed axis-aligned rotations); ten clauses. Finds violations with shrunk replays; no proof of absence.",
         "Trusted: numpy/scipy (Rotation, expm), vf/oracle.py; tolerance policy DESIGN 1.3; one open known finding (generic log branch within 2e-5 of pi)."),
 "C02": ("differential property-based testing (Hypothesis) of each of the 47 shared functions against a vendored pinned copy of modern_robotics 1.1.1",
         "Per-function differential clauses on generated chains, inertias, trajectories (same structure/shape, 1e-9 relative, port must not raise where the reference returns) plus IK soundness clauses measured with the independent oracle (cold, warm and exact starts) and two iteration-budget clauses that place the tolerance so that the reference converges on exactly the 19th / 20th / 21st of at most 20 Newton updates.",
         "Trusted: vendored reference (vendor/modern_robotics_ref, unmodified algorithms), numpy; cases where the reference itself raises or returns non-finite values are outside 'valid arguments' (counted)."),
 "C03": ("model-based property testing: exhaustive enumeration of all operation sequences to length 3 over a value palette + Hypothesis random histories to length 12, against a reference pose model",
         "Every operation sequence up to the bound is executed against a reference (R,p) model maintained with the independent oracle; invariant checked after every step.",
         "Trusted: vf/oracle.py; float and whole-number integer-typed arrays are handed to constructors and setters; results landing within 2e-5 of a half turn are excluded and counted (C01 finding) unless an exact half turn (entries -1/0/1) was handed in as such."),
 "C04": ("property-based testing (Hypothesis): group laws and constructor-form agreement against own matrix algebra",
         "Generated triples of poses and redundant descriptions of one pose; each law a separate clause with shrinkable failures.",
         "Trusted: vf/oracle.py (quaternion/rpy/axis-angle conversions written independently of the library)."),
 "C05": ("stateful model-based property testing (Hypothesis op-list histories) against a product-of-exponentials reference model",
         "Random arms (suite 6R arm, bundled URDFs, random 1..7R chains; identity and random bases) x histories <=10 over FK/IK/move/tool-change/restore/randomPos; model compared after every step.",
         "Trusted: vf/oracle.py PoE, vf/arms.py model extraction (screws copied before the constructor is called); library RNG seeded from the case."),
 "C06": ("property-based testing (Hypothesis): Jacobians vs Richardson-extrapolated derivatives of the arm's own FK; statics vs transpose/power identities",
         "Generated arms/configurations/wrenches; derivative oracle with steps >= 1e-4.",
         "Trusted: vf/oracle.py; finite differences with steps 1e-3..2.5e-4 and Richardson extrapolation."),
 "C07": ("property-based testing (Hypothesis): IK postcondition oracle (independent FK of the returned joints vs goal under the stated tolerances), metamorphic goals between the two tolerances",
         "Generated arms, reachable/unreachable/boundary goals, near/far starts, unequal tolerances, both solver paths.",
         "Trusted: vf/oracle.py FK; library RNG seeded from the case."),
 "C08": ("property-based testing (Hypothesis): physical identities (SPD mass matrix = sum J^T G J, ID/FD inverse, torque decomposition, passivity, gravity = grad potential, energy conservation)",
         "Generated chains with physically consistent inertias; independent Newton-Euler-free oracle built from body Jacobians.",
         "Trusted: vf/oracle.py, numpy linear algebra, RK4 integrator in the harness."),
 "C09": ("property-based testing (Hypothesis): geometric IK oracle, rigid-motion invariance (metamorphic), FK(IK) round trip for both solvers",
         "Generated platform geometries through all three constructors, bases, spins; in-workspace filter decided by the harness' own oracle.",
         "Trusted: vf/sps.py geometry model read from public getters at construction; vf/oracle.py."),
 "C10": ("stateful property-based testing (Hypothesis op-list histories <=25) with coherence invariants and an independent constraint oracle after every call",
         "Random histories incl. out-of-workspace requests (far outside and a fraction of a millimetre outside) and every subset of validation switches; corrective actions detected through instance-level wrappers.",
         "Trusted: vf/sps.py model; per-call 60 s guard (returning normally is part of the property)."),
 "C11": ("property-based testing (Hypothesis): inverse Jacobian vs Richardson derivative of leg lengths; static-equilibrium sums from public getters",
         "Generated geometries/poses with cond <= 1e4, twists, wrenches, masses.",
         "Trusted: vf/sps.py, vf/oracle.py."),
 "C12": ("property-based testing (Hypothesis): group-action and vector-space laws, oracle adjoint formulas",
         "Generated frames, six-vectors, forces/points, scalar and array operand forms.",
         "Trusted: vf/oracle.py Ad; the library's documented 1e-8 frame-equality shortcut is modelled, not excluded."),
 "C13": ("grammar-based property testing (Hypothesis URDF generator -> XML file -> loader) against an independent URDF semantics evaluator",
         "Generated serial URDFs (1..8 moving, 0..4 fixed joints, optional elements omitted, shuffled order) + the five bundled files.",
         "Trusted: own ElementTree evaluator of URDF joint semantics; vf/oracle.py."),
 "C14": ("property-based testing (Hypothesis) over a registry of operators/accessors/helpers with byte/identity/extent fingerprints of every reachable ndarray, followed by mutation of every result",
         "Registry of public operators, accessors, helpers, constructors and MR functions; operands fingerprinted before/after the call and after mutating the result.",
         "Trusted: vf/fingerprint.py reachability walk; np.shares_memory."),
 "C15": ("exhaustive enumeration of the integer lattice domain (3.97e8 segment/box pairs, thorough) + Hypothesis float cases, against exact rational Liang-Barsky clipping",
         "Complete lattice enumeration in the thorough tier (stratified sample in the quick tier); float cases compared where the exact answer is stable under 1e-9 box growth/shrink.",
         "Trusted: exact integer/Fraction slab clipping (different algorithm from the separating-axis test under test)."),
 "C16": ("property-based testing (Hypothesis) with trace replay: recorded insertion order re-validated by brute-force nearest-neighbour search",
         "Generated seeds/obstacle layouts/bounds/budgets/modes incl. caller-supplied callbacks; structural tree invariants and insertion-time clauses.",
         "Trusted: brute-force metric identical to the spatial index' box metric (established by probe); nodes compared by value."),
 "C17": ("differential property-based testing (Hypothesis) with a runtime monitor: every case executed in two worker processes (NUMBA_BOUNDSCHECK=1 / off), compiled kernel vs interpreted py_func, NaN-poisoned slices",
         "All 47 JIT kernels x layouts (C/F/sliced/integer) and public tm/Arm/SP entry points with every index.",
         "Trusted: Numba's bounds checker as the out-of-bounds oracle; kernel inventory computed at run time."),
 "C18": ("property-based testing (Hypothesis): defining relations of each helper against the independent oracle",
         "One clause per helper relation; planes/frames away from the origin and rotated.",
         "Trusted: vf/oracle.py."),
 "C19": ("explicit-state exhaustive exploration of all operation sequences to depth 5 against a reference model + Hypothesis op-list histories to depth 60 with injected receive faults; real UDP loopback clause",
         "Every sequence over the concrete alphabet up to the bound is compared with the model after every operation; on real sockets arrival is confirmed on the endpoint's socket before receipt is demanded; host-name addresses, buffers of 16/64/1024 bytes, exact-fit and over-long messages.",
         "Trusted: in-memory endpoint doubles implementing the CommsObject interface; loopback UDP in the sandbox."),
 "C20": ("property-based testing (Hypothesis recursive strategies) with a parse-back oracle; optional coverage-guided fuzzing (atheris) of the same predicate",
         "Generated scalars/strings/nested containers/transforms/wrenches/arrays 0-5 D incl. non-finite; rendered numbers parsed back and compared with round(x, nd).",
         "Trusted: the row/field parser (box-drawing row markers, comma-separated fields)."),
}

CLAIMED = []   # filled by reading tools/claimed.txt


def main():
    claimed = [l.strip() for l in open(os.path.join(VERIF, "tools", "claimed.txt")) if l.strip() and not l.startswith("#")]
    na_path = os.path.join(VERIF, "tools", "not_applicable.json")
    na = json.load(open(na_path)) if os.path.exists(na_path) else {}
    checks = []
    for pid in sorted(T):
        if pid not in claimed:
            continue
        tech, text, note = T[pid]
        checks.append({
            "property_id": pid,
            "quick_cmd": "./vcheck %s --tier quick" % pid,
            "thorough_cmd": "./vcheck %s --tier thorough" % pid,
            "evidence_file": "evidence/%s.json" % pid,
            "replay_cmd_template": "./vcheck %s --replay {path}" % pid,
            "engine": "vf",
            "level_claimed": {"category": "exploration", "text": text, "design_ref": "DESIGN.md section 2, " + pid},
            "level_note": note,
            "technique": tech,
        })
    man = {
        "version": 1,
        "setup_cmd": "./setup.sh",
        "hooks": {
            "guard": "BASIC_ROBOTICS_VERIF",
            "enable": "no source hooks are needed: checks observe the library through its public API and through instance-level wrappers installed by the harness; the runner exports the variable for completeness",
            "baseline_off_cmd": "cd /repo && MPLBACKEND=Agg /venv/bin/python -m pytest -ra -q -p no:cacheprovider --timeout=900 --continue-on-collection-errors",
            "source_commits": [],
            "add_only": True,
        },
        "engines": [{"name": "vf", "path": "vf/run.py", "serves_properties": claimed,
                     "kind_free_text": "Hypothesis-driven property-based testing, exhaustive small-domain enumeration and fault-injected op-list histories against independent oracles; sharded over processes; shrunk failures become JSON replay files"}],
        "checks": checks,
        "not_applicable": [{"property_id": k, "reason": v} for k, v in sorted(na.items()) if k not in claimed],
        "notes": "Checks import basic_robotics from /repo's working tree (PYTHONPATH=/repo first); the JIT cache directory is keyed on a hash of every basic_robotics/**/*.py so edits are always recompiled. known_findings.json lists open findings (announced with KNOWN-FINDING, never suppressing anything outside their region) and fixed ones (replayed as regressions).",
    }
    json.dump(man, open(os.path.join(VERIF, "MANIFEST.json"), "w"), indent=1)
    print("MANIFEST.json: %d checks, %d not_applicable" % (len(checks), len(man["not_applicable"])))


if __name__ == "__main__":
    main()
