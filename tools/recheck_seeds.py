#!/venv/bin/python
"""Re-run the quick check against every filed seed (seeded/<pid>/<name>/patch.diff) and compare with the outcome on
file.  Exercises the code that only runs when a case FAILS (region predicates, messages, shrinking) and shows whether
later changes to a check lost an earlier catch.

usage: tools/recheck_seeds.py [--lanes N] [--only C07,C13] [--names r4m]
Writes notes/recheck_seeds.json; exit 0 iff every seed that applies is CAUGHT (by its own check or, where the file
says so, by the other property's check) and none ends in a harness error.
"""
import argparse
import concurrent.futures as cf
import glob
import json
import os
import shutil
import subprocess
import sys
import time

VERIF = os.path.dirname(os.path.dirname(os.path.abspath(__file__)))


def one(mp):
    d = os.path.dirname(mp)
    name = os.path.basename(d)
    meta = json.load(open(mp))
    pid = meta.get("property", os.path.basename(os.path.dirname(d))).upper()
    conf = meta.get("confirmed_by_coordinator", {})
    pids = [pid]
    if conf.get("check_outcome") != "CAUGHT":
        pids = [k for k, v in (conf.get("also_checked") or {}).items() if v.get("outcome") == "CAUGHT"] or [pid]
    wt = "/tmp/rs_%s_%s_%d" % (pid.lower(), name, os.getpid())
    out = {"seed": "%s/%s" % (pid.lower(), name), "filed": conf.get("check_outcome"), "checks": {}}
    subprocess.check_call(["git", "-C", "/repo", "worktree", "add", "-q", "--detach", wt, "HEAD"])
    try:
        ap = subprocess.run(["git", "apply", os.path.join(d, "patch.diff")], cwd=wt, capture_output=True, text=True)
        if ap.returncode != 0:
            out["applies"] = False
            return out
        out["applies"] = True
        env = dict(os.environ, VF_REPO=wt)
        env.pop("VF_PINNED", None)
        for p in pids:
            t0 = time.time()
            c = subprocess.run([os.path.join(VERIF, "vcheck"), p, "--tier", "quick", "--no-evidence"], cwd=VERIF, env=env,
                               capture_output=True, text=True, timeout=4 * 3600)
            viol = [l for l in c.stdout.splitlines() if l.startswith("VIOLATION")]
            oc = "CAUGHT" if (c.returncode == 1 and viol) else ("MISSED" if c.returncode == 0 else "ERROR")
            out["checks"][p] = {"outcome": oc, "seconds": round(time.time() - t0, 1),
                                "failed_clauses": [l.split()[1] for l in c.stdout.splitlines()
                                                   if l.startswith("clause ") and " FAILED" in l]}
            if oc == "ERROR":
                out["checks"][p]["tail"] = (c.stdout + c.stderr)[-1200:]
            for l in viol:       # replays produced against a mutant are not evidence about /repo
                rp = os.path.join(VERIF, l.split("replay=")[-1].strip())
                if os.path.exists(rp) and not any(s in rp for s in ("/known/", "/fixed/", "/regress/")):
                    os.remove(rp)
    finally:
        subprocess.call(["git", "-C", "/repo", "worktree", "remove", "--force", wt],
                        stdout=subprocess.DEVNULL, stderr=subprocess.DEVNULL)
        shutil.rmtree(wt, ignore_errors=True)
    return out


def main():
    ap = argparse.ArgumentParser()
    ap.add_argument("--lanes", type=int, default=4)
    ap.add_argument("--only", default="")
    ap.add_argument("--names", default="")
    a = ap.parse_args()
    metas = sorted(x for x in glob.glob(os.path.join(VERIF, "seeded", "*", "*", "meta.json")) if "/_" not in x)
    if a.only:
        keep = {x.lower() for x in a.only.split(",")}
        metas = [m for m in metas if os.path.basename(os.path.dirname(os.path.dirname(m))) in keep]
    if a.names:
        metas = [m for m in metas if a.names in os.path.basename(os.path.dirname(m))]
    res = []
    with cf.ThreadPoolExecutor(max_workers=a.lanes) as ex:
        for r in ex.map(one, metas):
            res.append(r)
            ok = r.get("applies") and any(v["outcome"] == "CAUGHT" for v in r["checks"].values())
            print("%-12s %s %s" % (r["seed"], "no longer applies" if not r.get("applies") else
                                   " ".join("%s:%s(%ss)" % (k, v["outcome"], v["seconds"]) for k, v in r["checks"].items()),
                                   "" if ok or not r.get("applies") else "  <<<<"), flush=True)
    os.makedirs(os.path.join(VERIF, "notes"), exist_ok=True)
    path = os.path.join(VERIF, "notes", "recheck_seeds.json")
    old = json.load(open(path)) if os.path.exists(path) and (a.only or a.names) else {"results": []}
    by = {r["seed"]: r for r in old.get("results", [])}
    for r in res:
        by[r["seed"]] = r
    allr = [by[k] for k in sorted(by)]
    summary = {
        "at": time.strftime("%Y-%m-%d %H:%M"),
        "repo_head": subprocess.check_output(["git", "-C", "/repo", "rev-parse", "--short", "HEAD"], text=True).strip(),
        "seeds": len(allr),
        "applies": sum(1 for r in allr if r.get("applies")),
        "caught": sum(1 for r in allr if r.get("applies") and any(v["outcome"] == "CAUGHT" for v in r["checks"].values())),
        "missed": [r["seed"] for r in allr if r.get("applies") and not any(v["outcome"] == "CAUGHT" for v in r["checks"].values())
                   and not any(v["outcome"] == "ERROR" for v in r["checks"].values())],
        "errors": [r["seed"] for r in allr if any(v["outcome"] == "ERROR" for v in r["checks"].values())],
        "no_longer_applies": [r["seed"] for r in allr if not r.get("applies")],
    }
    json.dump({"summary": summary, "results": allr}, open(path, "w"), indent=1)
    print(json.dumps(summary, indent=1))
    return 0 if not summary["missed"] and not summary["errors"] else 1


if __name__ == "__main__":
    sys.exit(main())
