#!/venv/bin/python
"""tools/kf.py fixed <PID> <slug> <commit> <witness-or-> <clause> <what failed...>   |  tools/kf.py claim <PID>..."""
import json, os, sys
V = os.path.dirname(os.path.dirname(os.path.abspath(__file__)))
def main():
    cmd = sys.argv[1]
    if cmd == "fixed":
        pid, slug, commit, wit, clause = sys.argv[2:7]
        text = " ".join(sys.argv[7:])
        p = os.path.join(V, "known_findings.json")
        k = json.load(open(p))
        e = {"property": pid, "id": "%s-%s" % (pid, slug), "status": "fixed", "clause": clause, "commit": commit,
             "line": "fixed: property=%s %s %s" % (pid, commit, text), "text": text}
        if wit != "-":
            assert os.path.exists(os.path.join(V, wit)), wit
            e["witness"] = wit
        k["findings"] = [x for x in k["findings"] if x.get("id") != e["id"]] + [e]
        json.dump(k, open(p, "w"), indent=1)
    elif cmd == "claim":
        p = os.path.join(V, "tools", "claimed.txt")
        have = [l.strip() for l in open(p)]
        for pid in sys.argv[2:]:
            if pid not in have:
                open(p, "a").write(pid + "\n")
        os.system(os.path.join(V, "tools", "gen_manifest.py"))
main()
