#!/bin/bash
# Re-run every claimed check's quick tier in /verif against /repo (writes evidence/<ID>.json); seed from VERIF_SEED (default 0)
cd "$(dirname "$(readlink -f "$0")")/.." || exit 2
rc=0
for id in $(grep -v '^#' tools/claimed.txt | sort); do
  ./vcheck $id --tier quick > /tmp/regen_$id.log 2>&1; r=$?
  echo "$id rc=$r $(grep -E "^$id tier=" /tmp/regen_$id.log)"
  [ $r -ne 0 ] && rc=1 && grep -E "FAILED|VIOLATION|HARNESS" /tmp/regen_$id.log | head -5
done
exit $rc
