#!/bin/bash
# tools/thorough_all.sh [ids...] : thorough tier of each claimed check on the unchanged tree (seed from VERIF_SEED, default 0)
cd "$(dirname "$(readlink -f "$0")")/.." || exit 2
ids="$@"; [ -z "$ids" ] && ids=$(grep -v '^#' tools/claimed.txt | sort)
rc=0
for id in $ids; do
  t0=$(date +%s)
  out=$(./vcheck $id --tier thorough --no-evidence 2>&1); r=$?
  echo "$id rc=$r $(echo "$out" | grep -E "^$id tier=") [$(( $(date +%s) - t0 )) s]"
  if [ $r -ne 0 ]; then rc=1; echo "$out" | grep -E "FAILED|VIOLATION|HARNESS" | head -5; fi
done
exit $rc
