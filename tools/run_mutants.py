#!/venv/bin/python
"""Sensitivity harness: apply each deliberate breakage of mutants/<ID>.json to a scratch clone of
/repo (never /repo itself), run the property's check against the clone, expect a VIOLATION, revert.

usage: tools/run_mutants.py C01 [--tier quick] [--only name,...] [--keep]
mutants/<ID>.json: [{"name":..., "file": "basic_robotics/...py", "old": "...", "new": "...", "count": 1,
                     "clauses": "optional,comma list to speed up", "note": "..."}]
A string replacement must match exactly `count` (default 1) times, so a drifting source is noticed.
Writes notes/mutants_<ID>.json with the outcome per mutant.
"""
import argparse
import json
import os
import shutil
import subprocess
import sys
import time

VERIF = os.path.dirname(os.path.dirname(os.path.abspath(__file__)))


def main():
    ap = argparse.ArgumentParser()
    ap.add_argument("pid")
    ap.add_argument("--tier", default="quick")
    ap.add_argument("--only", default="")
    ap.add_argument("--seed", default="0")
    ap.add_argument("--scratch", default=None)
    args = ap.parse_args()
    pid = args.pid.upper()
    muts = json.load(open(os.path.join(VERIF, "mutants", pid + ".json")))
    only = [x for x in args.only.split(",") if x]
    scratch = args.scratch or "/tmp/vf_mut_%s_%d" % (pid, os.getpid())
    clone = os.path.join(scratch, "repo")
    if os.path.exists(scratch):
        shutil.rmtree(scratch)
    os.makedirs(scratch)
    subprocess.check_call(["git", "clone", "-q", "/repo", clone])
    # carry over uncommitted work-tree state of /repo (normally none)
    results = []
    try:
        for m in muts:
            if only and m["name"] not in only:
                continue
            path = os.path.join(clone, m["file"])
            src = open(path).read()
            cnt = src.count(m["old"])
            if cnt != m.get("count", 1):
                results.append({"name": m["name"], "outcome": "STALE", "detail": "pattern matched %d times" % cnt})
                print("%-40s STALE (pattern matched %d times)" % (m["name"], cnt))
                continue
            open(path, "w").write(src.replace(m["old"], m["new"]))
            env = dict(os.environ, VF_REPO=clone, VERIF_SEED=args.seed)
            env.pop("VF_PINNED", None)
            cmd = [os.path.join(VERIF, "vcheck"), pid, "--tier", args.tier, "--no-evidence"]
            if m.get("clauses"):
                cmd += ["--clauses", m["clauses"]]
            t0 = time.time()
            p = subprocess.run(cmd, env=env, capture_output=True, text=True)
            dt = time.time() - t0
            viol = [l for l in p.stdout.splitlines() if l.startswith("VIOLATION")]
            failed = [l.split()[1] for l in p.stdout.splitlines() if l.startswith("clause ") and " FAILED" in l]
            if p.returncode == 1 and viol:
                outcome = "CAUGHT"
            elif p.returncode == 0:
                outcome = "MISSED"
            else:
                outcome = "ERROR rc=%d" % p.returncode
            results.append({"name": m["name"], "outcome": outcome, "clauses": failed, "seconds": round(dt, 1),
                            "note": m.get("note", "")})
            print("%-40s %-8s %5.1fs %s" % (m["name"], outcome, dt, ",".join(failed)))
            if outcome.startswith("ERROR"):
                print(p.stdout[-2000:], p.stderr[-2000:])
            open(path, "w").write(src)
            # replay files written while checking a mutant are not evidence about /repo
            for l in viol:
                rp = l.split("replay=")[-1].strip()
                fp = os.path.join(VERIF, rp)
                if os.path.exists(fp) and "/known/" not in rp and "/fixed/" not in rp and "/regress/" not in rp:
                    os.remove(fp)
    finally:
        shutil.rmtree(scratch, ignore_errors=True)
    os.makedirs(os.path.join(VERIF, "notes"), exist_ok=True)
    out = os.path.join(VERIF, "notes", "mutants_%s.json" % pid)
    prev = []
    if only and os.path.exists(out):
        prev = [r for r in json.load(open(out)) if r["name"] not in {x["name"] for x in results}]
    json.dump(prev + results, open(out, "w"), indent=1)
    missed = [r for r in results if r["outcome"] != "CAUGHT"]
    print("%d/%d caught" % (len(results) - len(missed), len(results)))
    return 1 if missed else 0


if __name__ == "__main__":
    sys.exit(main())
