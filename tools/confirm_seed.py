#!/venv/bin/python
"""Confirm an independently written breaking change and file it under /verif/seeded/.

usage: tools/confirm_seed.py <PID> <src_dir with patch.diff demo.py meta.json> <name> [--tests f1,f2] [--skip-tests]
                             [--tier quick] [--no-check]
Steps (all in a fresh scratch worktree of /repo under /tmp, removed afterwards):
  1. demo.py on the pristine tree            -> must exit 0
  2. git apply patch.diff ; demo.py          -> must exit 1
  3. the baseline's stable-pass tests of the chosen test files still pass with the patch
  4. ./vcheck <PID> --tier quick against the patched worktree (VF_REPO) -> CAUGHT / MISSED
Writes seeded/<pid>/<name>/{patch.diff,demo.py,meta.json}; meta.json gains a "confirmed" block.
"""
import argparse
import json
import os
import shutil
import subprocess
import sys
import time
import xml.etree.ElementTree as ET

VERIF = os.path.dirname(os.path.dirname(os.path.abspath(__file__)))
DEFAULT_TESTS = {
    "C01": "tests/test_modern_robotics_numba.py,tests/test_general_transform.py,tests/test_general_fsr.py,tests/test_kinematics_arm.py",
}
ALL_FAST = ("tests/test_modern_robotics_numba.py,tests/test_general_transform.py,tests/test_general_fsr.py,"
            "tests/test_general_screw.py,tests/test_general_wrench.py,tests/test_utilities_disp.py,"
            "tests/test_interfaces_communications.py,tests/test_kinematics_arm.py,tests/test_kinematics_sp.py")


def run(cmd, cwd, env=None, timeout=7200):
    return subprocess.run(cmd, cwd=cwd, env=env, capture_output=True, text=True, timeout=timeout)


def main():
    ap = argparse.ArgumentParser()
    ap.add_argument("pid")
    ap.add_argument("src")
    ap.add_argument("name")
    ap.add_argument("--tests", default=None)
    ap.add_argument("--skip-tests", action="store_true")
    ap.add_argument("--no-check", action="store_true")
    ap.add_argument("--tier", default="quick")
    ap.add_argument("--also", default="", help="comma list of OTHER property ids whose quick check is run against the patch too")
    ap.add_argument("--clauses", default="", help="restrict the main check to these clauses (faster re-runs)")
    args = ap.parse_args()
    pid = args.pid.upper()
    wt = "/tmp/cs_%s_%s_%d" % (pid.lower(), args.name, os.getpid())
    subprocess.check_call(["git", "-C", "/repo", "worktree", "add", "-q", "--detach", wt, "HEAD"])
    res = {"repo_head": subprocess.check_output(["git", "-C", "/repo", "rev-parse", "--short", "HEAD"], text=True).strip(),
           "at": time.strftime("%Y-%m-%d %H:%M")}
    try:
        env = dict(os.environ, PYTHONPATH=wt, MPLBACKEND="Agg", PYTHONHASHSEED="0")
        env.pop("VF_PINNED", None)
        # the demo runs from where the seeder wrote it: <worktree>/seed_out/<mK>/demo.py (some locate repository files
        # relative to their own path); seed_out is untracked, so it does not disturb `git apply`
        demo_dir = os.path.join(wt, "seed_out", os.path.basename(os.path.abspath(args.src)))
        os.makedirs(demo_dir, exist_ok=True)
        demo = os.path.join(demo_dir, "demo.py")
        shutil.copy(os.path.join(os.path.abspath(args.src), "demo.py"), demo)
        env["NUMBA_CACHE_DIR"] = os.path.join(wt, ".nb_pristine")
        p0 = run([sys.executable, demo], wt, env)
        res["demo_pristine_exit"] = p0.returncode
        ap_ = run(["git", "apply", os.path.join(os.path.abspath(args.src), "patch.diff")], wt)
        res["patch_applies"] = ap_.returncode == 0
        if not res["patch_applies"]:
            res["apply_error"] = ap_.stderr[-500:]
        env["NUMBA_CACHE_DIR"] = os.path.join(wt, ".nb_mut")
        p1 = run([sys.executable, demo], wt, env)
        res["demo_mutant_exit"] = p1.returncode
        res["demo_mutant_tail"] = (p1.stdout + p1.stderr)[-600:]
        if not args.skip_tests:
            tests = (args.tests or DEFAULT_TESTS.get(pid) or ALL_FAST).split(",")

            def run_tests(tag):
                junit = os.path.join(wt, "junit_%s.xml" % tag)
                e = dict(env, NUMBA_CACHE_DIR=os.path.join(wt, ".nb_t_" + tag))
                run([sys.executable, "-m", "pytest", "-q", "-p", "no:cacheprovider", "--timeout=3600",
                     "--junitxml=" + junit] + tests, wt, e, timeout=6 * 3600)
                ok = set()
                for tc in ET.parse(junit).getroot().iter("testcase"):
                    if not any(ch.tag in ("failure", "error", "skipped") for ch in tc):
                        ok.add("%s::%s" % (tc.get("classname"), tc.get("name")))
                return ok

            # what passes on the PRISTINE current tree (cached per repo HEAD + test files)
            cache_p = "/tmp/cs_pristine_cache.json"
            cache = json.load(open(cache_p)) if os.path.exists(cache_p) else {}
            key = res["repo_head"] + "|" + ",".join(tests)
            if key not in cache:
                subprocess.check_call(["git", "checkout", "-q", "--", "."], cwd=wt)
                cache[key] = sorted(run_tests("pristine"))
                json.dump(cache, open(cache_p, "w"))
                subprocess.check_call(["git", "apply", os.path.join(os.path.abspath(args.src), "patch.diff")], cwd=wt)
            expected = set(cache[key])
            passed = run_tests("mutant")
            lost = sorted(expected - passed)
            res["tests_run"] = tests
            res["pristine_passing_in_scope"] = len(expected)
            res["still_passing_with_patch"] = len(expected & passed)
            res["baseline_tests_lost"] = lost
        if not args.no_check:
            env2 = dict(os.environ, VF_REPO=wt)
            env2.pop("VF_PINNED", None)
            t0 = time.time()
            cmd = [os.path.join(VERIF, "vcheck"), pid, "--tier", args.tier, "--no-evidence"]
            if args.clauses:
                cmd += ["--clauses", args.clauses]
            c = run(cmd, VERIF, env2, timeout=4 * 3600)
            viol = [l for l in c.stdout.splitlines() if l.startswith("VIOLATION")]
            res["check_exit"] = c.returncode
            res["check_seconds"] = round(time.time() - t0, 1)
            res["check_outcome"] = "CAUGHT" if (c.returncode == 1 and viol) else ("MISSED" if c.returncode == 0 else "ERROR")
            res["check_failed_clauses"] = [l.split()[1] for l in c.stdout.splitlines() if l.startswith("clause ") and " FAILED" in l]
            if res["check_outcome"] == "ERROR":
                res["check_tail"] = (c.stdout + c.stderr)[-1500:]
            for l in viol:   # replays produced against a mutant are not evidence about /repo
                rp = os.path.join(VERIF, l.split("replay=")[-1].strip())
                if os.path.exists(rp) and not any(s in rp for s in ("/known/", "/fixed/", "/regress/")):
                    os.remove(rp)
            for other in [x for x in args.also.split(",") if x]:
                c2 = run([os.path.join(VERIF, "vcheck"), other, "--tier", args.tier, "--no-evidence"], VERIF, env2, timeout=4 * 3600)
                viol2 = [l for l in c2.stdout.splitlines() if l.startswith("VIOLATION")]
                res.setdefault("also_checked", {})[other] = {
                    "outcome": "CAUGHT" if (c2.returncode == 1 and viol2) else ("MISSED" if c2.returncode == 0 else "ERROR"),
                    "failed_clauses": [l.split()[1] for l in c2.stdout.splitlines() if l.startswith("clause ") and " FAILED" in l]}
                for l in viol2:
                    rp = os.path.join(VERIF, l.split("replay=")[-1].strip())
                    if os.path.exists(rp) and not any(s in rp for s in ("/known/", "/fixed/", "/regress/")):
                        os.remove(rp)
    finally:
        subprocess.call(["git", "-C", "/repo", "worktree", "remove", "--force", wt])
        shutil.rmtree(wt, ignore_errors=True)
    ok = (res.get("demo_pristine_exit") == 0 and res.get("demo_mutant_exit") == 1 and res.get("patch_applies")
          and not res.get("baseline_tests_lost"))
    res["confirmed"] = bool(ok)
    print(json.dumps(res, indent=1))
    if ok:
        dst = os.path.join(VERIF, "seeded", pid.lower(), args.name)
        os.makedirs(dst, exist_ok=True)
        for f in ("patch.diff", "demo.py"):
            shutil.copy(os.path.join(args.src, f), os.path.join(dst, f))
        meta = {}
        mp = os.path.join(args.src, "meta.json")
        if os.path.exists(mp):
            try:
                meta = json.load(open(mp))
            except Exception:
                meta = {"raw": open(mp).read()}
        meta["property"] = pid
        # a later re-run with --skip-tests (after a check was strengthened) keeps the test confirmation of the first run
        old_p = os.path.join(dst, "meta.json")
        if args.skip_tests and os.path.exists(old_p):
            try:
                old = json.load(open(old_p)).get("confirmed_by_coordinator", {})
                for k2 in ("tests_run", "pristine_passing_in_scope", "still_passing_with_patch", "baseline_tests_lost",
                           "baseline_stable_in_scope", "baseline_stable_still_passing"):
                    if k2 in old and k2 not in res:
                        res[k2] = old[k2]
                res["tests_from_earlier_confirmation_at"] = old.get("at")
            except Exception:
                pass
        meta["confirmed_by_coordinator"] = res
        json.dump(meta, open(os.path.join(dst, "meta.json"), "w"), indent=1)
    return 0 if ok else 1


if __name__ == "__main__":
    sys.exit(main())
