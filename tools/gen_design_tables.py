#!/venv/bin/python
"""Rewrites the generated blocks of DESIGN.md (between <!-- BEGIN:x --> / <!-- END:x --> markers):
findings  : from known_findings.json
seeded    : from seeded/<id>/<name>/meta.json
mutants   : from notes/mutants_<ID>.json
"""
import glob
import json
import os
import re

V = os.path.dirname(os.path.dirname(os.path.abspath(__file__)))


def findings():
    k = json.load(open(os.path.join(V, "known_findings.json")))["findings"]
    out = ["| id | property | status | commit in /repo | what failed (witness) |", "|---|---|---|---|---|"]
    for e in sorted(k, key=lambda e: (e["property"], e["status"], e["id"])):
        wit = e.get("witness", "")
        txt = e.get("text", "").replace("|", "\\|")
        if len(txt) > 420:
            txt = txt[:417] + "..."
        out.append("| %s | %s | %s | %s | %s%s |" % (e["id"], e["property"], e["status"], e.get("commit", "—"),
                                                  txt, (" (`%s`)" % wit) if wit else ""))
    n_open = sum(1 for e in k if e["status"] == "open")
    n_fixed = sum(1 for e in k if e["status"] == "fixed")
    out.append("")
    out.append("%d repaired in /repo (one `fix:` commit each), %d open known findings." % (n_fixed, n_open))
    return "\n".join(out)


def seeded():
    rows = []
    for mp in sorted([x for x in glob.glob(os.path.join(V, "seeded", "*", "*", "meta.json")) if "/_" not in x]):
        m = json.load(open(mp))
        c = m.get("confirmed_by_coordinator", {})
        pid = m.get("property", "?")
        name = os.path.basename(os.path.dirname(mp))
        summ = (m.get("summary") or "")[:230].replace("|", "\\|").replace("\n", " ")
        needs = (m.get("needs") or "")[:200].replace("|", "\\|").replace("\n", " ")
        outcome = c.get("check_outcome", "?")
        clauses = ", ".join(c.get("check_failed_clauses", []))[:160]
        for other, r in (c.get("also_checked") or {}).items():
            if outcome != "CAUGHT" and r.get("outcome") == "CAUGHT":
                outcome = "CAUGHT by %s" % other
                clauses = ", ".join(r.get("failed_clauses", []))[:160] + " (a violation of %s rather than of %s)" % (other, pid)
        rows.append("| %s/%s | %s | %s | %s | %s |" % (pid.lower(), name, summ, needs, outcome, clauses))
    head = ["| seed | change | needs | quick check | clauses that fail |", "|---|---|---|---|---|"]
    caught = sum(1 for r in rows if "| CAUGHT" in r)
    return "\n".join(head + rows + ["", "%d of %d confirmed seeds are caught by the quick tier." % (caught, len(rows))])


def mutants():
    rows = []
    for p in sorted(glob.glob(os.path.join(V, "notes", "mutants_*.json"))):
        pid = os.path.basename(p)[8:-5]
        try:
            m = json.load(open(p))
        except Exception:
            continue
        if not isinstance(m, list) or not m or "outcome" not in m[0]:
            continue

        def ok(x):
            return str(x.get("outcome", "")).upper().split()[0] in ("CAUGHT", "VIOLATION")
        tot = len(m)
        caught = sum(1 for x in m if ok(x))
        missed = [x.get("name", "?") for x in m if not ok(x)]
        rows.append("| %s | %d | %d | %s |" % (pid, tot, caught, ", ".join(missed) or "—"))
    return "\n".join(["| property | deliberate breakages | caught (quick tier) | not caught in quick |", "|---|---|---|---|"] + rows)


def clauses():
    """Clause inventory read from the modules (no library import needed for most; falls back to evidence)."""
    out = []
    for ev in sorted(glob.glob(os.path.join(V, "evidence", "C*.json"))):
        e = json.load(open(ev))
        pid = e["property_id"]
        cl = e["coverage"].get("clauses", {})
        out.append("* **%s** (%s tier evidence, seed %s: %d evaluations, %d distinct non-trivial, %.0f s): %s" % (
            pid, e["tier"], e["seed"], e["coverage"]["evaluations"], e["coverage"]["distinct_nontrivial"], e["wall_s"],
            "; ".join("`%s` %d%s" % (n, c["evaluations"], " (exhaustive)" if c.get("exhaustive") else "") for n, c in cl.items())))
    return "\n".join(out)


def main():
    p = os.path.join(V, "DESIGN.md")
    s = open(p).read()
    for key, fn in (("findings", findings), ("seeded", seeded), ("mutants", mutants), ("clauses", clauses)):
        pat = re.compile(r"(<!-- BEGIN:%s -->)(.*?)(<!-- END:%s -->)" % (key, key), re.S)
        if not pat.search(s):
            print("no marker for", key)
            continue
        s = pat.sub(lambda m: m.group(1) + "\n" + fn() + "\n" + m.group(3), s)
    open(p, "w").write(s)
    print("DESIGN.md tables regenerated")


if __name__ == "__main__":
    main()
