"""C20, thorough-tier extra: a coverage-guided (atheris / libFuzzer) campaign over the same display requests.

Run as a script by the clause `atheris_coverage_guided` of props/c20_disp.py (never imported by the runner):

    python props/fuzz_c20_atheris.py --out DIR --runs N --seconds T --seed S

* only the functions of basic_robotics.utilities.disp are instrumented (atheris.instrument_func on each; coverage
  feedback comes from the code under test, not from Hypothesis or numpy);
* libFuzzer's byte strings are turned into display requests by Hypothesis (`test.hypothesis.fuzz_one_input`), with
  the same strategies as the Hypothesis clauses, and judged by the same plain predicate (`c_everything`);
* a Violation does not stop the campaign: the input bytes and the request (JSON) are saved under DIR/crashes/ and the
  campaign goes on (at most MAX_SAVED are kept); the parent replays every saved request through the plain
  predicate, without Hypothesis and without atheris, and only a request that fails there is reported;
* anything else escaping the predicate (a bug in the harness) kills the campaign with a non-zero exit status,
  which the parent turns into exit code 2;
* -runs bounds the work (the result is a function of seed and tree), -max_total_time bounds the wall clock.
"""
import argparse
import hashlib
import json
import os
import sys

MAX_SAVED = 8


def main():
    ap = argparse.ArgumentParser()
    ap.add_argument("--out", required=True)
    ap.add_argument("--runs", type=int, default=20000)
    ap.add_argument("--seconds", type=int, default=170)
    ap.add_argument("--seed", type=int, default=1)
    args = ap.parse_args()

    import atheris

    # atheris.instrument_imports(include=[...]) widens a dotted name to its top-level package, which would
    # instrument the numba kernels' sources too (numba then cannot type the injected calls).  Instrument exactly
    # the functions defined in the module under test instead.
    import types
    import basic_robotics.utilities.disp as D
    for fn in list(vars(D).values()):
        if isinstance(fn, types.FunctionType) and fn.__module__ == D.__name__:
            atheris.instrument_func(fn)

    from hypothesis import HealthCheck, given, settings
    from hypothesis import strategies as st

    here = os.path.dirname(os.path.dirname(os.path.abspath(__file__)))
    if here not in sys.path:
        sys.path.insert(0, here)
    from props import c20_disp as P
    from vf import core, ser

    P.warm()
    crashes = os.path.join(args.out, "crashes")
    corpus = os.path.join(args.out, "corpus")
    os.makedirs(crashes, exist_ok=True)
    os.makedirs(corpus, exist_ok=True)
    summary_path = os.path.join(args.out, "summary.json")
    state = {"execs": 0, "valid": 0, "nontrivial": 0, "distinct_nontrivial": 0, "violations": 0, "saved": 0,
             "labels": {}, "messages": []}
    current = {}
    seen = set()

    def write_summary():
        tmp = summary_path + ".tmp"
        with open(tmp, "w") as f:
            json.dump(state, f)
        os.replace(tmp, summary_path)

    @settings(database=None, deadline=None, suppress_health_check=list(HealthCheck))
    @given(st.one_of(P.total_requests(), P.faithful_requests(0), P.faithful_requests(1)))
    def test(case):
        current["case"] = case
        ctx = core.Ctx()
        P.c_everything(case, ctx)
        state["valid"] += 1
        if ctx.nontrivial_flag:
            state["nontrivial"] += 1
            seen.add(ser.digest(case))
            state["distinct_nontrivial"] = len(seen)
        for lab in ctx.labels:
            if lab.startswith(("obj ", "ndim ", "mode ", "dtype ")):
                state["labels"][lab] = state["labels"].get(lab, 0) + 1

    fuzz_one = test.hypothesis.fuzz_one_input

    def one_input(data):
        state["execs"] += 1
        current.clear()
        try:
            fuzz_one(data)
        except core.Violation as v:
            state["violations"] += 1
            msg = str(v)
            key = msg[:60]
            if state["saved"] < MAX_SAVED and key not in [m[:60] for m in state["messages"]]:
                state["messages"].append(msg[:400])
                state["saved"] += 1
                name = hashlib.sha1(bytes(data)).hexdigest()[:16]
                with open(os.path.join(crashes, "crash-" + name), "wb") as f:
                    f.write(bytes(data))
                with open(os.path.join(crashes, "crash-" + name + ".json"), "w") as f:
                    json.dump({"message": msg, "case": ser.to_jsonable(current.get("case"))}, f)
                write_summary()
        if state["execs"] % 500 == 0:
            write_summary()

    argv = [sys.argv[0], "-runs=%d" % args.runs, "-max_total_time=%d" % args.seconds, "-seed=%d" % (args.seed or 1),
            "-max_len=1024", "-len_control=0", "-timeout=120", "-rss_limit_mb=4096", "-artifact_prefix=" + crashes + os.sep,
            "-print_final_stats=1", "-verbosity=0", corpus]
    write_summary()
    atheris.Setup(argv, one_input)
    try:
        atheris.Fuzz()
    finally:
        write_summary()


if __name__ == "__main__":
    main()
