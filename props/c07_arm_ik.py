"""C07 -- arm inverse kinematics never claims a pose it has not reached.

A case is {"arm": <arm spec of vf.arms>, "tol": {"pos", "rot"}, ...one or more solve requests...}.
``check`` builds a fresh arm plus the independent reference model (vf.arms.build_arm), sets the two
tolerances ON THE ARM OBJECT, seeds Python's ``random`` (the library's restarts use it) from an integer of
the case, calls one of

    limits       arm.IK(goal, theta_init, check, level, max_iters)            (protect=False -> constrainedIK)
    constrained  arm.constrainedIK(goal, theta_init, check, level, max_iters)
    free         arm.IK(goal, theta_init, check, level, max_iters, protect=True)
    ikfree       arm.IKFree(goal, theta_init, inds)

and audits the outcome with the oracle toolkit only (``audit``):

  success  (1) T = B . prod exp([S_i] theta_i) . M of the RETURNED vector against the goal:
               alpha = angle(R_T^T R_goal) <= rot_tol     and     |p_goal - p_T| <= pos_tol + |p_T| * alpha
               (see ENVELOPE below for why this is the sound reading of "within the tolerances");
           (2) limit-respecting paths: mins <= theta <= maxs;
           (3) the arm's stored joint vector is the returned one (modulo whole turns) and getEEPos() is its pose;
  failure  (5) getEEPos() is the pose of the stored joint vector;
  (4) goals farther from the base than the chain can reach are never reported as reached;
  (6) started within 0.02 rad of an in-limit solution >= 0.15 rad inside the limits with smallest Jacobian
      singular value >= 0.05 the solver reports success.

ENVELOPE.  Both Newton kernels stop when the SPATIAL error twist V_s = Ad(T) log(T^-1 G) = [w_s; v_s] has
|w_s| <= rot_tol and |v_s| <= pos_tol.  |w_s| is exactly the rotation angle alpha between T and G.  With
log(T^-1 G) = [w_b; v_b]:  v_s = p_T x w_s + R_T v_b  and  R_T^T (p_G - p_T) = G(w_b) v_b with ||G(w_b)|| = 1
(G = I + (1-cos a)/a^2 [w] + (a - sin a)/a^3 [w]^2 is normal with eigenvalues 1, (sin a +- i(1-cos a))/a).  Hence
|p_G - p_T| <= |v_b| <= pos_tol + |p_T| alpha.  The other natural reading (|p_G - p_T| <= pos_tol, which is what
IKFree's residual measures) is inside the same envelope, and so is DESIGN's pos_tol + |p| rot_tol.  The check
therefore never fails a solver that meets either reading, and -- unlike pos_tol + |p| rot_tol -- it stays tight
for pure translations (alpha = 0).
"""
import math
import random

import numpy as np
from hypothesis import strategies as st

from vf import arms as A
from vf import gen as G
from vf import oracle as O
from vf.core import Clause, HarnessError, Violation, sut, time_guard

PROPERTY_ID = "C07"
RULE = ("Arms of C05 (suite 6R, five bundled URDFs, random 1..7-joint revolute chains; identity / random base; "
        "default / custom limits); pos_tolerance and rot_tolerance drawn independently log-uniform from 1e-9..1e-1 and "
        "set on the arm; solver paths IK(protect=False), constrainedIK, IK(protect=True), IKFree; restarts on/off with "
        "random.seed(case integer); level / max_iters defaulted or given. Goals: FK of in-limit vectors (mass exactly "
        "on the limits), FK(theta0) displaced by a pure space-frame rotation about the origin or a pure translation "
        "whose magnitude lies BETWEEN the two tolerances (also below both / above both), goals beyond the chain's "
        "reach, arbitrary poses; starts: the solution + delta (|delta| <= 0.02), anywhere in [-2pi,2pi]^n incl. outside "
        "the limits, the solution shifted by whole turns, the arm's own state (theta_init=None after an FK). "
        "Non-trivial: tolerances differing by >= 10x, or an unreachable goal, or a failed solve whose state is "
        "inspected; distinct by digest of the whole case.")
ASSUMPTIONS = [
    "oracle: vf.oracle (long-double Rodrigues exp, scipy rotation log) on the reference model of vf.arms, which is "
    "computed from the arm spec before the library constructor runs (URDF arms: read right after loading)",
    "'within the tolerances' = rotation angle between FK(theta) and goal <= rot_tol*(1+1e-6)+1e-12 and position "
    "distance <= pos_tol*(1+1e-6) + |p_fk|*angle + 1e-12*max(1,|p|): implied by the solvers' spatial-twist criterion "
    "AND by the plain |dp| <= pos_tol reading (derivation in the module docstring)",
    "rotation errors below 2e-7 rad are not demanded: the library's (= reference Modern Robotics') matrix logarithm "
    "returns exactly 0 when (trace-1)/2 rounds to >= 1, i.e. for angles up to sqrt(2 k eps) (measured max 5.1e-8 over "
    "36 000 arm/goal pairs); labelled 'rot err below log resolution'",
    "NearZero (DESIGN 1.3): a joint value of the audited vector, the base rotation or a random arm's tool rotation "
    "with 0 < angle < 2e-6 may be dropped by the library's exponential (documented 1e-6 cut-off). Comparisons are "
    "loosened by exactly that much: rotation by 1.05*sum(dropped angles), position by the same times (|p|+arm scale). "
    "C07's tolerances go down to 1e-9, so the flat 5e-6 of the other properties would make such cases vacuous and the "
    "band's lower edge 1e-9 would be unsound (a dropped joint value of 9e-10 rad moved the tool by 2.6e-9 > pos_tol "
    "1e-9 in a real run); labelled and counted",
    "the stored joint vector is read from arm._theta (there is no public getter; C05 does the same); 'pose of the "
    "stored joint vector' admits both the plain product of exponentials and the one evaluated after clamping to the "
    "limits (they differ only when protect=True left the vector outside the limits)",
    "coherence tolerance 1e-7*max(1, scale) + 1e-14*max|theta|*scale (argument reduction of diverged iterates)",
    "reach bound for clause 4: |q_1| + sum |q_{i+1}-q_i| + |p_M - q_n| with q_i = w_i x v_i a point on joint axis i "
    "(all joints revolute with unit axes; checked); goals are placed beyond it by more than twice the tolerance envelope",
    "local convergence is demanded only when BOTH the world-frame space Jacobian and the body Jacobian at the "
    "solution have min(n,6)-th singular value >= 0.05 and every joint of the solution is >= 0.15 inside the limits; "
    "joint values of the solution below 2e-6 are replaced by exact zeros and arms whose base/tool rotation is below "
    "2e-6 are skipped (the library's arm then differs from the model); default level and max_iters",
    "IKFree: arms with >= 2 joints, 1..6 free indices (scipy's LM needs unknowns <= 6 residuals; np.squeeze breaks a "
    "1-joint arm -- C05 notes); goals whose absolute rotation is within 1e-3 of a half turn are skipped because "
    "IKFree works on the axis-angle form of the poses (open finding C01-near-pi-log)",
]
SHARDS = {"quick": 4, "thorough": 16}

PI = math.pi
TWO_PI = 2 * math.pi
BAND_HI = 2e-6          # upper edge of the house NearZero band (the library's cut-off is 1e-6)
COH_TOL = 1e-7
LOG_RES = 2e-7
NEAR_PI = 1e-3         # absolute goal rotation, IKFree (axis-angle round trip at this property's tolerances; as C05)
NEAR_PI_REL = 2e-5     # relative rotation FK(theta) -> goal at a claimed success (the C01 finding's own width)
REL = 1e-6

_lib = {}


def lib():
    if not _lib:
        from basic_robotics.general import tm
        _lib["tm"] = tm
    return _lib


def warm():
    # optimisation only; a library too broken to warm up is reported by the clauses with a failing case
    try:
        A.warm()
    except Exception:  # noqa: BLE001 -- see above
        pass


# ------------------------------------------------------------------------------------------------
# helpers
# ------------------------------------------------------------------------------------------------

def dropped(values):
    """Total rotation the library's exponential may drop: MatrixExp3/6 return the identity rotation for
    |w theta| < 1e-6 (NearZero).  Sum of the magnitudes below 2e-6 (the house band's upper edge; exact zeros cost
    nothing).  Unlike the flat 5e-6 of the other properties this scales with the value, because C07's own
    tolerances go down to 1e-9 -- a joint value of 9e-10 that is dropped matters here."""
    a = np.abs(np.asarray(values, dtype=float).reshape(-1))
    return float(np.sum(a[(a > 0) & (a < BAND_HI)]))


def as_T(x, what):
    if x is None or not hasattr(x, "gTM"):
        raise Violation("%s: expected a transform, got %r" % (what, type(x).__name__))
    T = np.array(sut(x.gTM), dtype=float)
    if T.shape != (4, 4):
        raise Violation("%s: shape %s" % (what, T.shape))
    return T


class Setup:
    """Fresh arm + model + tolerances + bookkeeping for one case."""

    def __init__(self, case, ctx):
        spec = case["arm"]
        self.arm, self.model = sut(A.build_arm, spec)
        m = self.model
        self.ctx = ctx
        self.pt = float(case["tol"]["pos"])
        self.rt = float(case["tol"]["rot"])
        if self.pt == self.rt:
            # the quantifier wants pos_tol != rot_tol; Hypothesis likes to repeat a float, so make them differ
            self.rt = self.pt * 3.0 if self.pt < 1e-2 else self.pt / 3.0
        self.arm.pos_tolerance = self.pt
        self.arm.rot_tolerance = self.rt
        wn = np.linalg.norm(m.S[:3, :], axis=0)
        if np.any(np.abs(wn - 1.0) > 1e-9):
            raise HarnessError("fixture arm with a non-revolute / non-unit joint axis: %r" % (wn,))
        # tiny rotations baked into the arm: the library drops them (tm(TAA) -> identity), the model keeps them
        sticky = [float(np.linalg.norm(np.asarray(spec["base"], dtype=float)[3:]))]
        if spec["kind"] == "random":
            sticky.append(float(np.linalg.norm(np.asarray(spec["ee_home"], dtype=float)[3:])))
        self.sticky = dropped(sticky)
        self.scale = A.model_scale(m)
        ctx.label("arm " + spec["kind"])
        ctx.label("base moved" if np.any(np.asarray(spec["base"]) != 0) else "base identity")
        ctx.label("limits custom" if spec.get("limits") is not None else "limits default")
        r = self.pt / self.rt
        ctx.label("pos_tol >= 10 rot_tol" if r >= 10 else ("rot_tol >= 10 pos_tol" if r <= 0.1 else "tolerances within 10x"))
        self.tol_ratio_big = (r >= 10 or r <= 0.1)
        if self.sticky:
            ctx.label("base/tool rotation below the NearZero cut-off (loosened by it)")

    def band_slack(self, theta):
        """Rotation (rad) by which the library's FK of theta may differ from the exact one (see ``dropped``)."""
        d = self.sticky + dropped(theta)
        return 0.0 if d == 0 else 1.05 * d + 1e-12

    def fk(self, theta):
        return A.model_fk(self.model, theta, clamped=False)

    def reach(self):
        """Upper bound of |tool position| in the base frame over all joint vectors (revolute chain)."""
        m = self.model
        q = [np.cross(m.S[:3, i], m.S[3:, i]) for i in range(m.n)]
        r = float(np.linalg.norm(q[0]))
        for i in range(m.n - 1):
            r += float(np.linalg.norm(q[i + 1] - q[i]))
        return r + float(np.linalg.norm(m.M[:3, 3] - q[-1]))


def goal_tm(Gm):
    return lib()["tm"](np.array(Gm, dtype=float))


def call_solver(su, solver, goal, theta_init, req):
    """One library call.  Optional arguments are passed only when the case gives them (defaults exercised)."""
    arm = su.arm
    random.seed(int(req["seed"]))
    args = [goal, None if theta_init is None else np.array(theta_init, dtype=float)]
    kw = {}
    chk = req.get("check")
    if solver == "constrained":
        if chk is not None:
            kw["check"] = bool(chk)
        if req.get("level") is not None:
            kw["level"] = int(req["level"])
        if req.get("max_iters") is not None:
            kw["max_iters"] = int(req["max_iters"])
        fn = arm.constrainedIK
    else:
        if chk is not None:
            kw["check"] = bool(chk)
        if req.get("level") is not None:
            kw["level"] = int(req["level"])
        if req.get("max_iters") is not None:
            kw["max_iters"] = int(req["max_iters"])
        if solver == "free":
            kw["protect"] = True
        elif solver != "limits":
            raise HarnessError("unknown solver %r" % (solver,))
        fn = arm.IK
    with time_guard(60):
        return sut(fn, *args, **kw)


def unpack(ret, n, what):
    if not (isinstance(ret, tuple) and len(ret) == 2):
        raise Violation("%s: expected (theta, success), got %r" % (what, type(ret).__name__))
    theta, success = ret
    th = np.array(theta, dtype=float).reshape(-1)
    if th.shape != (n,):
        raise Violation("%s: returned joint vector has shape %s, arm has %d joints" % (what, np.shape(theta), n))
    if not isinstance(success, (bool, np.bool_, int, np.integer)):
        raise Violation("%s: success flag is %r" % (what, type(success).__name__))
    return th, bool(success)


def envelope(su, th, Gm, what):
    """Clause 1: oracle FK of the returned vector against the goal."""
    ctx = su.ctx
    if not np.all(np.isfinite(th)):
        raise Violation("%s: success reported with a non-finite joint vector %r" % (what, th))
    T = su.fk(th)
    alpha, dp = O.pose_err(T, Gm)
    if PI - alpha < NEAR_PI_REL:
        # Open finding C01-near-pi-log (DESIGN 1.3: excluded and counted by every other property).  The solvers measure
        # the error with MatrixLog6(FK^-1 goal); when that relative rotation is a half turn to ~1e-8 the logarithm's
        # generic branch returns a vector of length ~pi*delta/1.5e-8 (2.8e-8 rad for an exact half turn on a 1-joint
        # arm clamped to -pi with the goal at 0), so the kernel sees "no error".  Witness: replays/C07/known/.
        # It IS a violation of C07 as written (a pose not reached is claimed): recorded as the open known finding
        # C07-success-at-relative-half-turn (same root cause as C01-near-pi-log), region-tagged, never skipped.
        raise Violation("%s [region success_at_relative_half_turn]: success claimed with FK(theta) %.3g rad (a half turn "
                        "to %.1e) from the goal: the solver's error measure goes through the matrix logarithm's generic "
                        "branch next to pi (root cause: open finding C01-near-pi-log)" % (what, alpha, PI - alpha))
    slack = su.band_slack(th)
    if dropped(th):
        ctx.label("solution has a joint value below the NearZero cut-off (loosened by it)")
    pn = float(np.linalg.norm(T[:3, 3]))
    sc = max(1.0, pn, float(np.linalg.norm(Gm[:3, 3])))
    # argument reduction of large joint values (the free path may return hundreds of radians): the library's float64
    # FK and the oracle's then differ by ~2e-16*|theta| rad
    big = 1e-14 * (float(np.max(np.abs(th))) if th.size else 0.0)
    slack = slack + big
    rot_lim = max(su.rt * (1 + REL) + 1e-12, LOG_RES) + slack
    if alpha > su.rt * (1 + REL) + 1e-12 and alpha <= LOG_RES:
        ctx.label("rot err below log resolution")
    if alpha > rot_lim:
        raise Violation("%s: success reported but FK(returned theta) is rotated %.6g rad from the goal; rot_tolerance=%.6g "
                        "(pos_tolerance=%.6g, position error %.6g)" % (what, alpha, su.rt, su.pt, dp))
    pos_lim = su.pt * (1 + REL) + pn * alpha * (1 + REL) + 1e-12 * sc + slack * (pn + su.scale)
    if dp > pos_lim:
        raise Violation("%s: success reported but FK(returned theta) is %.6g away from the goal; pos_tolerance=%.6g, "
                        "envelope pos_tol+|p|*angle=%.6g (rot_tolerance=%.6g, rotation error %.6g, |p|=%.4g)"
                        % (what, dp, su.pt, pos_lim, su.rt, alpha, pn))
    return alpha, dp


def coherence(su, what):
    """Clauses 3b / 5: getEEPos() is the pose of the stored joint vector."""
    m = su.model
    stored = np.array(su.arm._theta, dtype=float).reshape(-1)
    if stored.shape != (m.n,):
        raise Violation("%s: stored joint vector has shape %s" % (what, stored.shape))
    pose = as_T(sut(su.arm.getEEPos), what + ": getEEPos()")
    if not np.all(np.isfinite(stored)):
        su.ctx.label("non-finite stored joint vector")
        if np.all(np.isfinite(pose)):
            raise Violation("%s: stored joint vector is non-finite %r but getEEPos() reports a finite pose" % (what, stored))
        return stored
    if not np.all(np.isfinite(pose)):
        raise Violation("%s: getEEPos() is non-finite while the stored joint vector is %r" % (what, stored))
    big = float(np.max(np.abs(stored))) if m.n else 0.0
    best = None
    for th in (stored, A.clamp(m, stored)):
        T = su.fk(th)
        pn = float(np.linalg.norm(T[:3, 3]))
        sc = max(1.0, su.scale, pn)
        slack = su.band_slack(th)
        tolr = COH_TOL + 1e-14 * big + slack
        tolp = (COH_TOL + 1e-14 * big) * sc + slack * (pn + su.scale)
        a, d = O.pose_err(pose, T)
        if a <= tolr and d <= tolp:
            return stored
        if best is None:
            best = (a, d, tolr, tolp)
    raise Violation("%s: getEEPos() is not the pose of the stored joint vector %r: rotation off by %.3g (tol %.3g), "
                    "position off by %.3g (tol %.3g)" % (what, stored, best[0], best[2], best[1], best[3]))


def audit(su, solver, Gm, ret, what, limits_path):
    """All per-call obligations.  Returns (theta, success)."""
    m = su.model
    ctx = su.ctx
    th, ok = unpack(ret, m.n, what)
    ctx.label("%s %s" % (solver, "success" if ok else "failure"))
    if ok:
        if limits_path:
            lo = m.mins - 1e-12
            hi = m.maxs + 1e-12
            if np.any(th < lo) or np.any(th > hi):
                j = int(np.argmax((th < lo) | (th > hi)))
                raise Violation("%s: limit-respecting solver returned joint %d = %.17g outside [%.17g, %.17g]"
                                % (what, j, th[j], m.mins[j], m.maxs[j]))
        envelope(su, th, Gm, what)
    stored = coherence(su, what + (" (after success)" if ok else " (after failure)"))
    if ok:
        d = stored - th
        d = d - TWO_PI * np.round(d / TWO_PI)
        if not np.all(np.isfinite(stored)) or np.max(np.abs(d)) > 1e-9 * max(1.0, float(np.max(np.abs(th)))):
            raise Violation("%s: success, but the arm's stored joint vector %r is not the returned solution %r"
                            % (what, stored, th))
    else:
        ctx.nontrivial(True)
    return th, ok


def unit(v):
    v = np.asarray(v, dtype=float).reshape(3)
    n = np.linalg.norm(v)
    return v / n if n > 0 else np.array([0.0, 0.0, 1.0])


def delta_vec(n, raw, mag):
    """Vector of norm `mag` along the first n entries of raw (raw in [-1,1]^NMAX)."""
    d = np.array(raw[:n], dtype=float)
    nn = np.linalg.norm(d)
    if nn == 0:
        d = np.ones(n)
        nn = math.sqrt(n)
    return d / nn * float(mag)


_BOUNDARY_KINDS = ("lo", "hi", "lo_out", "hi_out", "far_lo", "far_hi", "lo_in", "hi_in")


def decode_inside(m, code, boundary):
    """In-limit joint vector.  boundary=False turns the boundary kinds of the shared theta codes into uniform
    ones (with 6 joints nearly every vector would otherwise sit on a limit)."""
    if not boundary:
        # also keep u off 0 and 1 (Hypothesis draws those exact values often): strictly inside the interval
        code = [(("u", 0.02 + 0.96 * u) if (k in _BOUNDARY_KINDS or k == "u") else (k, u)) for (k, u) in code]
    return A.decode_theta(m, code, inside=True)


def make_goal(su, goal):
    """-> (4x4 goal, reference joint vector or None, label).  Built with the oracle only."""
    m = su.model
    kind = goal["kind"]
    if kind == "reach":
        ths = decode_inside(m, goal["code"], goal["boundary"])
        on_lim = bool(np.any(ths == m.mins) or np.any(ths == m.maxs))
        su.ctx.label("goal reach" + (" on limit boundary" if on_lim else ""))
        return su.fk(ths), ths
    if kind == "between":
        th0 = decode_inside(m, goal["code"], goal["boundary"])
        T0 = su.fk(th0)
        lo, hi = min(su.pt, su.rt), max(su.pt, su.rt)
        u = float(goal["u"])
        where = goal["where"]
        if where == "between":
            mag = lo * (hi / lo) ** (0.1 + 0.8 * u)
        elif where == "below":
            mag = max(lo * 10.0 ** (-3 * u - 0.05), 1e-13)
        else:
            mag = min(hi * 10.0 ** (0.05 + 2 * u), 0.5)
        d = unit(goal["dir"])
        Gm = T0.copy()
        if where == "just_over":
            # JUST outside the tolerance that governs this kind of error (5 % .. 70 % over), spread evenly over the
            # three axes, the other kind of error exactly zero (the rotation is about the tool point): the start is
            # NOT a solution, a solver may not accept it as it stands
            own = su.rt if goal["mode"] == "rot" else su.pt
            mag = own * (1.05 + 0.65 * u)
            d = np.sign(d + (d == 0)) / math.sqrt(3.0)
            if goal["mode"] == "rot":
                Gm[:3, :3] = O.exp3(d * mag) @ T0[:3, :3]
            else:
                Gm[:3, 3] = T0[:3, 3] + d * mag
        elif goal["mode"] == "rot":
            Gm = O.rp(O.exp3(d * mag), np.zeros(3)) @ T0
        else:
            Gm[:3, 3] = T0[:3, 3] + d * mag
        su.ctx.label("goal %s %s tolerances" % ("pure rotation" if goal["mode"] == "rot" else "pure translation", where))
        su.ctx.note("displacement", mag)
        return Gm, th0
    if kind in ("beyond", "arbitrary"):
        R = su.reach()
        d = unit(goal["dir"])
        u = float(goal["u"])
        if kind == "beyond":
            bnorm = float(np.linalg.norm(m.B[:3, 3]))
            worst_slack = 1.05 * BAND_HI * (m.n + 2) + 1e-12
            worst_rot = max(su.rt, LOG_RES) + worst_slack
            env = su.pt + (bnorm + R) * worst_rot + worst_slack * (bnorm + R + su.scale)
            excess = 2.0 * env + 0.05 + 2.0 * u * max(R, 0.1)
            dist = R + excess
            su.ctx.note("reach", R)
            su.ctx.note("excess", excess)
        else:
            dist = R * u
        Gb = O.rp(O.exp3(np.asarray(goal["rotvec"], dtype=float)), d * dist)
        su.ctx.label("goal " + kind)
        return m.B @ Gb, None
    raise HarnessError("unknown goal kind %r" % (kind,))


def make_start(su, start, ref):
    """-> theta_init (array or None = use the arm's state)."""
    m = su.model
    mode = start["mode"]
    if ref is None and mode in ("near", "wrap", "exact"):
        mode = "code"
    su.ctx.label("start " + mode)
    if mode == "state":
        return None
    if mode == "exact":
        return ref.copy()
    if mode == "near":
        return ref + delta_vec(m.n, start["delta"], start["mag"])
    if mode == "wrap":
        ks = np.array([int(start["ks"][i % len(start["ks"])]) for i in range(m.n)], dtype=float)
        return ref + TWO_PI * ks
    if mode == "code":
        return A.decode_theta(m, start["code"], inside=False)
    raise HarnessError("unknown start mode %r" % (mode,))


def run_request(su, req, what):
    """Build goal and start with the oracle, call the library, audit.  -> (ok, kind)."""
    Gm, ref = make_goal(su, req["goal"])
    th_init = make_start(su, req["start"], ref)
    solver = req["solver"]
    su.ctx.label("restarts on" if req.get("check") in (None, True) else "restarts off")
    if th_init is not None and A.outside_limits(su.model, th_init):
        su.ctx.label("start outside the limits")
    gtm = goal_tm(Gm)
    Gseen = as_T(gtm, "goal")           # what the library is actually handed
    ret = call_solver(su, solver, gtm, th_init, req)
    th, ok = audit(su, solver, Gseen, ret, what, limits_path=(solver != "free"))
    if req["goal"]["kind"] == "beyond":
        su.ctx.nontrivial(True)
        if ok:
            raise Violation("%s: goal lies %.4g beyond the chain's reach (%.4g from the base) yet success was reported"
                            % (what, su.ctx.notes.get("excess", float("nan")), su.ctx.notes.get("reach", float("nan"))))
    return ok


# ------------------------------------------------------------------------------------------------
# clauses
# ------------------------------------------------------------------------------------------------

def c_single(case, ctx):
    """One solve on a fresh arm (optionally after an FK that sets the state)."""
    su = Setup(case, ctx)
    ctx.nontrivial(su.tol_ratio_big)
    pre = case.get("pre")
    if pre is not None:
        sut(su.arm.FK, A.decode_theta(su.model, pre, inside=False))
        ctx.label("state set by a previous FK")
    run_request(su, case["req"], "%s" % case["req"]["solver"])


def c_between(case, ctx):
    """Goal = FK(theta0) displaced by a pure rotation / translation of magnitude between the tolerances; started AT theta0."""
    su = Setup(case, ctx)
    ctx.nontrivial(su.tol_ratio_big)
    req = dict(case["req"])
    if case["via_state"]:
        th0 = decode_inside(su.model, req["goal"]["code"], req["goal"]["boundary"])
        sut(su.arm.FK, th0.copy())
        req["start"] = {"mode": "state"}
        ctx.label("state set by a previous FK")
    else:
        req["start"] = {"mode": "exact"}
    run_request(su, req, req["solver"])


def c_history(case, ctx):
    """Several solves / FKs on ONE arm: every call is audited against the state the previous calls left."""
    su = Setup(case, ctx)
    ctx.nontrivial(su.tol_ratio_big)
    for k, op in enumerate(case["ops"]):
        if op["op"] == "fk":
            sut(su.arm.FK, A.decode_theta(su.model, op["code"], inside=False))
            coherence(su, "step %d FK" % k)
        elif op["op"] in ("sethome", "restore", "move"):
            # the arm is given another tool / its original tool back / another base between two solves: the solves
            # that follow are about the arm as it is now
            m = su.model
            tm = lib()["tm"]
            if op["op"] == "sethome":
                X = O.pose_from_taa(np.asarray(op["rel"], dtype=float))
                T_now = as_T(sut(su.arm.getEEPos), "getEEPos before setArbitraryHome")
                sut(su.arm.setArbitraryHome, tm(np.ascontiguousarray(T_now @ X)))
                ctx.label("history: tool changed")
            elif op["op"] == "restore":
                sut(su.arm.restoreOriginalEE)
                ctx.label("history: original tool restored")
            else:
                base = np.asarray(op["base"], dtype=float)
                sut(su.arm.move, tm(base.copy()))
                m.B = O.pose_from_taa(base)
                ctx.label("history: base moved")
            # What a tool change / move leaves behind is C05's subject (and, for tools next to a half turn - UR, Puma -
            # runs into the open C01 finding): the model takes the home tool pose the arm now HOLDS, exactly as
            # vf.arms.build_arm does for URDF arms at construction.  The solves that follow are audited against FK
            # with that tool, so a solver working from a stale copy of it is still seen.
            m.M = O.inv(m.B) @ np.array(su.arm._end_effector_home.gTM(), dtype=float)
            su.scale = A.model_scale(m)        # (what a tool change / move leaves behind is C05's subject)
        else:
            run_request(su, op, "step %d %s" % (k, op["solver"]))


def model_world_jac(m, ths):
    """Space Jacobian in WORLD coordinates (what the library's solver inverts)."""
    return A.model_jac_space(m, ths, clamped=False)       # vf.arms already returns the world-frame Jacobian


def c_local(case, ctx):
    """Clause 6: local convergence."""
    su = Setup(case, ctx)
    m = su.model
    ctx.nontrivial(su.tol_ratio_big)
    if su.sticky:
        ctx.skip("base / tool rotation below the NearZero cut-off: the library's arm differs from the model by that rotation")
    width = m.maxs - m.mins
    if np.any(width < 0.3 + 1e-9):
        ctx.skip("a joint interval is narrower than 0.3: no solution 0.15 inside the limits")
    code = case["code"]
    if case["generic"]:
        # generic interior vector (the shared codes put most joints on interval ends / zero, where the bundled arms
        # are singular half of the time)
        code = [("u", 0.03 + 0.94 * u) for (_k, u) in code]
    ths = A.decode_theta(m, code, inside=True, margin=0.15)
    if np.any(ths < m.mins + 0.15 - 1e-12) or np.any(ths > m.maxs - 0.15 + 1e-12):
        ctx.skip("solution not 0.15 inside the limits")
    # joint values below the NearZero cut-off are dropped by the library's exponential: the goal of such a
    # solution would differ from the library's own FK of it by up to 2e-6*lever; use exact zeros instead
    ths = np.where(np.abs(ths) < BAND_HI, 0.0, ths)
    k = min(m.n, 6)
    sv_s = np.linalg.svd(A.model_jac_space(m, ths, clamped=False), compute_uv=False)
    sv_b = np.linalg.svd(A.model_jac_body(m, ths, clamped=False), compute_uv=False)
    smin = float(min(sv_s[k - 1], sv_b[k - 1]))
    if smin < 0.05:
        ctx.skip("smallest Jacobian singular value < 0.05")
    ctx.note("sigma_min", smin)
    n0 = int(np.count_nonzero(ths == 0.0))
    if n0:
        # Near such a solution the iterates of joint i are tiny, and the library's FK ignores joint values below 1e-6
        # (NearZero): the solver cannot resolve the pose better than n0*1e-6*(1, lever).  Measured: IRB2400 with two
        # joints at 0 stalls at |v| ~ 2e-8 for pos_tolerance 1e-9.  DESIGN 1.3: not demanded below that resolution.
        need = n0 * BAND_HI
        lever = float(np.linalg.norm(su.fk(ths)[:3, 3])) + su.scale
        if su.rt < need or su.pt < need * lever:
            ctx.skip("solution has a joint at exactly 0 and a tolerance below the NearZero resolution of the library's FK")
        ctx.label("solution has a joint at 0 (tolerances above the NearZero resolution)")
    delta = delta_vec(m.n, case["delta"], case["mag"])
    if case.get("worst_dir") is not None:
        # the hardest start of the same size: the offset lies along the weakest right-singular direction of the
        # (world) space Jacobian -- the direction a damped / truncated pseudo-inverse corrects last
        _, _, Vt = np.linalg.svd(model_world_jac(m, ths))
        delta = float(np.linalg.norm(delta)) * (1.0 if case["worst_dir"] else -1.0) * Vt[min(m.n, 6) - 1]
        ctx.label("start offset along the weakest singular direction")
    th0 = ths + delta
    Gm = su.fk(ths)
    solver = case["solver"]
    gtm = goal_tm(Gm)
    Gseen = as_T(gtm, "goal")
    ctx.label("restarts on" if case["check"] else "restarts off")
    req = {"seed": case["seed"], "check": case["check"]}
    ret = call_solver(su, solver, gtm, th0, req)
    what = "%s started %.3g rad from a solution (sigma_min %.3g)" % (solver, float(np.linalg.norm(delta)), smin)
    th, ok = audit(su, solver, Gseen, ret, what, limits_path=(solver != "free"))
    if not ok:
        raise Violation("%s 0.15 inside the limits: reported failure (pos_tolerance=%.3g rot_tolerance=%.3g)"
                        % (what, su.pt, su.rt))


def c_ikfree(case, ctx):
    """IKFree: only the free indices may move; success must still mean 'within the arm's tolerances'."""
    su = Setup(case, ctx)
    m = su.model
    ctx.nontrivial(su.tol_ratio_big)
    if m.n < 2:
        ctx.skip("IKFree needs >= 2 joints")
    inds = [i for i in range(m.n) if case["free"][i % len(case["free"])]]
    if not inds:
        inds = [int(case["seed"]) % m.n]
    inds = inds[:6]
    th0 = A.decode_theta(m, case["code0"], inside=True)
    move = A.decode_theta(m, case["code1"], inside=True)
    ths = th0.copy()
    frac = float(case["frac"])
    for i in inds:
        ths[i] = th0[i] + frac * (move[i] - th0[i])
    eps = float(case["eps"])
    if case.get("eps_rel") is not None:
        # residual aimed BETWEEN the arm's two tolerances (their geometric mean times 0.03..30): where a solver that
        # checks the wrong residual against the wrong tolerance gives a different verdict
        eps = min(1e-2, math.sqrt(float(case["tol"]["pos"]) * float(case["tol"]["rot"])) * float(case["eps_rel"]))
    fixed = [i for i in range(m.n) if i not in inds]
    if eps > 0 and fixed:
        d = delta_vec(len(fixed), [case["delta"][i % len(case["delta"])] for i in fixed], eps)
        for j, i in enumerate(fixed):
            ths[i] = min(max(ths[i] + d[j], m.mins[i]), m.maxs[i])
        ctx.label("fixed joints off by 1e%d" % math.floor(math.log10(eps)))
    else:
        ctx.label("goal exactly reachable with the free joints")
    Gm = su.fk(ths)
    if PI - O.angle(Gm[:3, :3]) < NEAR_PI:
        ctx.skip("goal rotation within 1e-3 of a half turn (axis-angle round trip: C01-near-pi-log)")
    if case["pre_fk"]:
        sut(su.arm.FK, th0.copy())
    gtm = goal_tm(Gm)
    Gseen = as_T(gtm, "goal")
    random.seed(int(case["seed"]))
    ctx.label("free indices %d of %d" % (len(inds), m.n))
    with time_guard(60):
        ret = sut(su.arm.IKFree, gtm, th0.copy(), list(inds))
    audit(su, "ikfree", Gseen, ret, "IKFree(inds=%r)" % (inds,), limits_path=False)


# ------------------------------------------------------------------------------------------------
# strategies
# ------------------------------------------------------------------------------------------------

SEED = st.integers(0, 2 ** 31 - 1)
def _tol_pair(t):
    a, b, c, d = t
    x = a + b / 1000.0
    y = (x + c + d / 1000.0) % 8.0
    return {"pos": 10.0 ** (-9.0 + x), "rot": 10.0 ** (-9.0 + y)}


# Two independent log-uniform draws from 1e-9..1e-1.  Built from small integers, the second as an offset modulo the
# range: Hypothesis likes to repeat a value it has just drawn, which made 75 % of plain (float, float) pairs equal.
TOLS = st.tuples(st.integers(0, 7), st.integers(0, 999), st.integers(0, 7), st.integers(0, 999)).map(_tol_pair)
UNIT = G.unit_vectors()
U01 = G.floats(0.0, 1.0)
DELTA = st.lists(G.floats(-1.0, 1.0), min_size=A.NMAX, max_size=A.NMAX)
SOLVERS = st.sampled_from(["limits", "limits", "constrained", "free", "free"])
CHECKS = st.sampled_from([True, False, True, False, None])
LEVELS = st.sampled_from([None, None, None, 1, 2, 6])
ITERS = st.sampled_from([None, None, None, None, 1, 5, 100])
BOUNDARY = st.sampled_from([False, False, True])


def goal_reach():
    return st.fixed_dictionaries({"kind": st.just("reach"), "code": A.theta_codes(), "boundary": BOUNDARY})


def goal_between(where=("between", "between", "between", "between", "below", "above", "just_over", "just_over")):
    return st.fixed_dictionaries({"kind": st.just("between"), "code": A.theta_codes(), "boundary": BOUNDARY,
                                  "mode": st.sampled_from(["rot", "trans"]), "dir": UNIT, "u": U01,
                                  "where": st.sampled_from(list(where))})


def goal_far(kind):
    return st.fixed_dictionaries({"kind": st.just(kind), "dir": UNIT, "u": U01, "rotvec": G.rotvecs_below()})


def starts():
    """Every start carries all fields (a goal without a reference vector falls back to "code")."""
    return st.fixed_dictionaries({
        "mode": st.sampled_from(["near", "near", "code", "code", "wrap", "state", "exact"]),
        "delta": DELTA, "mag": st.one_of(G.floats(0.0, 0.02), G.log_uniform(1e-12, 0.02)),
        "code": A.theta_codes(),
        "ks": st.lists(st.sampled_from([-1, 0, 0, 1]), min_size=A.NMAX, max_size=A.NMAX)})


def requests(goals):
    return st.fixed_dictionaries({"goal": goals, "start": starts(), "solver": SOLVERS, "check": CHECKS,
                                  "seed": SEED, "level": LEVELS, "max_iters": ITERS})


def base_case(**extra):
    d = {"arm": A.arm_specs(), "tol": TOLS}
    d.update(extra)
    return st.fixed_dictionaries(d)


S_BETWEEN = base_case(req=st.fixed_dictionaries({"goal": goal_between(), "solver": SOLVERS, "check": CHECKS, "seed": SEED,
                                                 "level": LEVELS, "max_iters": ITERS}),
                      via_state=st.booleans())
S_REACH = base_case(req=requests(goal_reach()), pre=st.one_of(st.none(), A.theta_codes()))
S_BEYOND = base_case(req=requests(goal_far("beyond")), pre=st.one_of(st.none(), A.theta_codes()))
_any_goal = st.one_of(goal_reach(), goal_reach(), goal_between(), goal_far("beyond"), goal_far("arbitrary"),
                      goal_far("arbitrary"))
_ops = st.one_of(st.fixed_dictionaries({"op": st.just("fk"), "code": A.theta_codes()}),
                 st.fixed_dictionaries({"op": st.just("sethome"), "rel": A.poses6(maxnorm=1.0, tiny=False)}),
                 st.one_of(st.fixed_dictionaries({"op": st.just("restore")}),
                           st.fixed_dictionaries({"op": st.just("move"), "base": A.poses6(maxnorm=3.0, tiny=False)})),
                 requests(_any_goal).map(lambda r: dict(r, op="solve")),
                 requests(_any_goal).map(lambda r: dict(r, op="solve")),
                 requests(_any_goal).map(lambda r: dict(r, op="solve")),
                 requests(_any_goal).map(lambda r: dict(r, op="solve")))
_tool_op = st.one_of(st.fixed_dictionaries({"op": st.just("sethome"), "rel": A.poses6(maxnorm=1.0, tiny=False)}),
                     st.fixed_dictionaries({"op": st.just("sethome"), "rel": A.poses6(maxnorm=1.0, tiny=False)}),
                     st.fixed_dictionaries({"op": st.just("move"), "base": A.poses6(maxnorm=3.0, tiny=False)}))
# a third of the histories: the arm is re-tooled / moved first, then asked for a reachable goal, then anything
_after_tool = st.tuples(_tool_op, requests(goal_reach()).map(lambda r: dict(r, op="solve")),
                        requests(_any_goal).map(lambda r: dict(r, op="solve"))).map(list)
S_HISTORY = base_case(ops=st.one_of(st.lists(_ops, min_size=2, max_size=4), st.lists(_ops, min_size=2, max_size=4), _after_tool))


@st.composite
def roomy_arm_specs(draw):
    """Arms whose every joint interval is wide enough to hold a solution 0.15 inside the limits."""
    spec = draw(A.arm_specs(limits="default"))
    if draw(st.booleans()):
        n = A.spec_n(spec)
        mins, maxs = np.zeros(n), np.zeros(n)
        for i in range(n):
            kind = draw(st.sampled_from(["around0", "around0", "onesided", "tight"]))
            if kind == "around0":
                lo, hi = -draw(G.floats(0.2, TWO_PI)), draw(G.floats(0.2, TWO_PI))
            elif kind == "onesided":
                lo = draw(G.floats(-3.0, 2.0))
                hi = lo + draw(G.floats(0.4, 3.0))
            else:
                lo = draw(G.floats(-3.0, 2.5))
                hi = lo + draw(G.floats(0.3001, 0.4))
            mins[i], maxs[i] = lo, hi
        spec["limits"] = (mins, maxs)
    return spec


@st.composite
def roomy_arm_specs_far(draw):
    """... and a third of them standing 5..15 units from the world origin: the world-frame space Jacobian the solvers
    invert then has a large top singular value (lever of the base), i.e. a wide singular-value spread at an
    otherwise well-conditioned solution -- where truncated / damped pseudo-inverses stop converging."""
    spec = draw(roomy_arm_specs())
    if draw(st.integers(0, 2)) == 0:
        far = draw(G.generic_unit_vectors()) * draw(G.floats(5.0, 15.0))
        base = np.array(spec.get("base", np.zeros(6)), dtype=float).reshape(6).copy()
        base[:3] = base[:3] + far
        spec["base"] = base
    return spec


S_LOCAL = st.fixed_dictionaries({
    "arm": roomy_arm_specs_far(), "tol": TOLS, "code": A.theta_codes(), "delta": DELTA,
    "mag": st.one_of(G.floats(0.0, 0.02), st.just(0.02), G.log_uniform(1e-9, 0.02)),
    "generic": st.sampled_from([True, True, True, False]),
    "worst_dir": st.sampled_from([None, None, True, False]),
    "solver": SOLVERS, "check": st.booleans(), "seed": SEED})
S_IKFREE = st.fixed_dictionaries({
    "arm": A.arm_specs(nmin=2), "tol": TOLS, "code0": A.theta_codes(), "code1": A.theta_codes(),
    "free": st.lists(st.booleans(), min_size=A.NMAX, max_size=A.NMAX),
    "frac": st.one_of(st.just(0.0), G.floats(0.0, 0.3), G.floats(0.0, 0.3), G.floats(0.0, 1.0)),
    "eps": st.one_of(st.just(0.0), G.log_uniform(1e-10, 1e-2), G.log_uniform(1e-6, 3e-3)),
    "eps_rel": st.one_of(st.none(), G.log_uniform(0.03, 30.0)),
    "delta": DELTA, "pre_fk": st.booleans(), "seed": SEED})

def half_turn_region(case, message):
    """Open known finding C07-success-at-relative-half-turn: decided by the oracle (FK(theta) within 2e-5 of a half
    turn from the goal at a claimed success) and carried in the message tag."""
    return "success_at_relative_half_turn" if "[region success_at_relative_half_turn]" in message else None


CLAUSES = [
    Clause("between_tolerances_goal", c_between, S_BETWEEN, 400, 24000, region=half_turn_region),
    Clause("reachable_goal_any_start", c_single, S_REACH, 400, 24000, region=half_turn_region),
    Clause("unreachable_goal_is_failure", c_single, S_BEYOND, 250, 12000, region=half_turn_region),
    Clause("solve_history_coherent", c_history, S_HISTORY, 250, 12000, region=half_turn_region),
    Clause("local_convergence", c_local, S_LOCAL, 600, 24000, region=half_turn_region),
    Clause("ikfree_success_meets_tol", c_ikfree, S_IKFREE, 500, 12000),
]
