"""C04 -- transform algebra is the SE(3) group; every constructor form means the same pose (class tm).

Poses are generated as six-vectors [p, w] (|p| <= 1e3, |w| in [0, pi-1e-3]) and turned into the expected 4x4
with vf/oracle.py only.  The library is observed through gTM() of its results.

Convention of the rpy flag.  The docstring says "ZYX(RPY)"; the code composes tm(x-rotation a) @ tm(y-rotation b)
@ tm(z-rotation c), i.e. R = Rx(a) Ry(b) Rz(c) (intrinsic x-y'-z'' = extrinsic z-y-x), which is also what the
suite's example (-1.2137551, 0.0894119, -2.3429888) <-> rotation vector (1,2,3) encodes and what the property
text names ("Rx*Ry*Rz angles").  The oracle therefore converts a target rotation into the triple (a,b,c) with
Rx(a) Ry(b) Rz(c) = R (own closed form, gimbal lock handled) and compares against the re-composed product.
"""
import math

import numpy as np
from hypothesis import strategies as st

from vf import gen as G
from vf import oracle as O
from vf.core import Clause, HarnessError, Violation, sut

PROPERTY_ID = "C04"
RULE = ("Hypothesis-generated poses [p,w] with |p|<=1e3 (zero / unit box / axis / log-uniform to 1e3) and rotation "
        "angle in [0, pi-1e-3] with boundary mass at 0, 1e-7, 1e-6+-1ulp, 2e-6, pi/2 and pi-1e-3 on axis-aligned, "
        "planar and generic axes; pairs and triples for the group laws, one pose described redundantly (vector, "
        "unnormalised quaternion of either sign, Rx*Ry*Rz angle triple incl. gimbal lock, 4x4, nested pair, tm, "
        "1-element array of tm) for the constructor laws. Non-trivial: group clauses -- every operand rotated by "
        ">=1e-3 about pairwise non-parallel axes and displaced; constructor clauses -- angle >= 1e-3 and all three "
        "rotation-vector components non-zero (a dropped or duplicated component is visible); distinct by digest.")
ASSUMPTIONS = [
    "oracle: vf/oracle.py (long-double Rodrigues, own quaternion->matrix, own Rx*Ry*Rz decomposition, numpy matmul)",
    "tolerance 5e-6*max(1,|p| of operands, intermediates and result): the property's 5e-6 absolute, scaled as DESIGN 1.3 "
    "prescribes because the documented NearZero cut-off (|w|<1e-6 -> identity) moves a point at distance |p| by 1e-6*|p|",
    "rpy=True means R = Rx(a) Ry(b) Rz(c) (see module docstring)",
    "results of localToGlobal/globalToLocal (they go through a logarithm) whose rotation lies within 1e-4 of a half turn "
    "are excluded and counted (open known finding C01-near-pi-log); '@', inv and the 4x4/quaternion constructors do not "
    "go through a logarithm on the way to gTM() and are enforced everywhere",
    "only C-contiguous float64 arrays / Python floats are handed to the library",
]

PI = math.pi
TOL = 5e-6
NEAR_PI = 1e-4          # derived matrices are orthonormal to ~1e-14 only and the logarithm amplifies that by 1/(pi-angle)^2: 1.4e-5 measured at pi-2.2e-5 (sweep #13)

_lib = {}


def lib():
    if not _lib:
        from basic_robotics.general import fsr, tm
        _lib["tm"] = tm
        _lib["fsr"] = fsr
    return _lib


def warm():
    L = lib()
    tm, fsr = L["tm"], L["fsr"]
    a = tm([1.0, 2.0, 3.0, 0.1, 0.2, 0.3])
    b = a.inv() @ a
    fsr.localToGlobal(a, b)
    fsr.globalToLocal(a, b)
    a.setQuat(a.getQuat())
    tm([0.1, 0.2, 0.3], True)
    tm(a.gTM())


# ----------------------------------------------------------------------------------- helpers

def _pn(T):
    return float(np.linalg.norm(np.asarray(T, dtype=float)[:3, 3]))


def _scale(*Ts):
    return max([1.0] + [_pn(T) for T in Ts])


def _near_pi(R):
    if R[0, 0] + R[1, 1] + R[2, 2] > -0.99:
        return False
    return PI - O.angle(R) < NEAR_PI


def _gtm(t, what):
    if not isinstance(t, lib()["tm"]):
        raise Violation("%s: result is %s, not a tm" % (what, type(t).__name__))
    M = sut(t.gTM)
    if not isinstance(M, np.ndarray) or M.shape != (4, 4) or not np.all(np.isfinite(np.asarray(M, dtype=float))):
        raise Violation("%s: gTM() is not a finite 4x4 array" % what)
    return np.asarray(M, dtype=float)


def _close(M, T, s, what):
    """rotation block and last row to TOL, translation to TOL*s."""
    dR = float(np.abs(M[:3, :3] - T[:3, :3]).max())
    dl = float(np.abs(M[3] - T[3]).max())
    dp = float(np.abs(M[:3, 3] - T[:3, 3]).max())
    if not (dR <= TOL and dl <= TOL and dp <= TOL * s):
        raise Violation("%s: rotation differs by %.3g, translation by %.3g (tol %.3g, %.3g)\n got %s\n want %s"
                        % (what, dR, dp, TOL, TOL * s, np.array2string(M, precision=8).replace("\n", ""),
                           np.array2string(T, precision=8).replace("\n", "")))


def _angle_label(th):
    if th == 0:
        return "ang=0"
    if th < 1e-6:
        return "ang<1e-6"
    if th < 2.1e-6:
        return "ang~1e-6+"
    if th < 1e-3:
        return "ang<1e-3"
    if th > PI - 2e-3:
        return "ang~pi-1e-3"
    return "ang generic"


def _p_label(p):
    n = float(np.linalg.norm(p))
    return "|p|=0" if n == 0 else "|p| 1e%d" % math.floor(math.log10(n))


def _build(v, form):
    """a tm for pose v=[p,w] through one of three constructor forms (all of them are compared with each
    other in the constructor clause; the group clauses only vary them)."""
    tm = lib()["tm"]
    v = np.asarray(v, dtype=float).reshape(6)
    if form == 0:
        return sut(tm, [float(x) for x in v])
    if form == 1:
        return sut(tm, np.ascontiguousarray(O.pose_from_taa(v)))
    return sut(tm, np.concatenate([v[:3], O.rotvec_to_quat(v[3:])]))


def _nonparallel(*ws):
    us = []
    for w in ws:
        n = np.linalg.norm(w)
        if n < 1e-3:
            return False
        us.append(w / n)
    for i in range(len(us)):
        for j in range(i + 1, len(us)):
            if np.linalg.norm(np.cross(us[i], us[j])) < 1e-2:
                return False
    return True


def euler_xyz(R):
    """(a,b,c) with Rx(a) Ry(b) Rz(c) = R.
    Rx Ry Rz = [[cb cc, -cb sc, sb], [ca sc + sa sb cc, ca cc - sa sb sc, -sa cb], [sa sc - ca sb cc, sa cc + ca sb sc, ca cb]]"""
    R = np.asarray(R, dtype=float)
    cb = math.hypot(R[0, 0], R[0, 1])
    b = math.atan2(R[0, 2], cb)
    if cb < 1e-9:
        # gimbal lock: only a+c (b=+pi/2) or a-c (b=-pi/2) is determined; choose c = 0
        a = math.atan2(R[2, 1], R[1, 1])
        c = 0.0
    else:
        a = math.atan2(-R[1, 2], R[2, 2])
        c = math.atan2(-R[0, 1], R[0, 0])
    return np.array([a, b, c])


def rxyz(e):
    return O.rotx(e[0]) @ O.roty(e[1]) @ O.rotz(e[2])


# ----------------------------------------------------------------------------------- group clauses

def c_compose(case, ctx):
    a, b = case["a"], case["b"]
    A, B = O.pose_from_taa(a), O.pose_from_taa(b)
    ctx.label(_angle_label(float(np.linalg.norm(a[3:]))))
    ctx.label(_p_label(a[:3]))
    ctx.nontrivial(_nonparallel(a[3:], b[3:]) and np.linalg.norm(a[:3]) > 0 and np.linalg.norm(b[:3]) > 0)
    ta, tb = _build(a, case["fa"]), _build(b, case["fb"])
    r = sut(lambda: ta @ tb)
    M = _gtm(r, "a @ b")
    s = _scale(A, B, A @ B)
    _close(M, A @ B, s, "(a @ b).gTM() vs A B")
    _close(M, _gtm(ta, "a") @ _gtm(tb, "b"), s, "(a @ b).gTM() vs a.gTM() b.gTM()")
    # the operands are not changed by composing them
    _close(_gtm(ta, "a"), A, s, "a after a @ b")
    _close(_gtm(tb, "b"), B, s, "b after a @ b")


def c_inverse(case, ctx):
    a = case["a"]
    A = O.pose_from_taa(a)
    th = float(np.linalg.norm(a[3:]))
    ctx.label(_angle_label(th))
    ctx.label(_p_label(a[:3]))
    ctx.nontrivial(th >= 1e-3 and np.linalg.norm(np.cross(a[3:], a[:3])) > 1e-6)
    ta = _build(a, case["fa"])
    ti = sut(ta.inv)
    Mi = _gtm(ti, "a.inv()")
    s = _scale(A, O.inv(A))
    _close(Mi, O.inv(A), s, "a.inv().gTM() vs inverse matrix")
    I = np.eye(4)
    _close(_gtm(sut(lambda: ti @ ta), "a.inv() @ a"), I, s, "a.inv() @ a vs identity")
    _close(_gtm(sut(lambda: ta @ ti), "a @ a.inv()"), I, s, "a @ a.inv() vs identity")
    _close(_gtm(sut(ti.inv), "a.inv().inv()"), A, s, "a.inv().inv() vs a")
    # the inverse is a transform like any other: used as the REFERENCE of a frame conversion (which reads the
    # six-vector, not the matrix) it must still act as inverse(A):  localToGlobal(a.inv(), a) = identity
    Ai = O.inv(A)
    if PI - O.angle(Ai[:3, :3]) >= 1e-3:
        fsr = lib()["fsr"]
        _close(_gtm(sut(fsr.localToGlobal, ti, ta), "localToGlobal(a.inv(), a)"), I, s,
               "localToGlobal(a.inv(), a) vs identity")
        _close(_gtm(sut(fsr.globalToLocal, ti, sut(lib()["tm"])), "globalToLocal(a.inv(), identity)"), A, s,
               "globalToLocal(a.inv(), identity) vs a")


    # the same object after its pose has been set anew (any of the public setters): inv() is the inverse of the pose
    # the object has NOW
    if case.get("b") is not None:
        b = np.asarray(case["b"], dtype=float)
        how = case.get("how", "sTM")
        ctx.label("inv() again after " + how)
        B = O.pose_from_taa(b)
        if how == "setQuat":
            sut(ta.setQuat, np.asarray(O.rotvec_to_quat(b[3:]), dtype=float))
            B = O.rp(B[:3, :3], A[:3, 3])
        elif how == "sTM":
            sut(ta.sTM, np.ascontiguousarray(B).copy())
        elif how == "sTAA":
            sut(ta.sTAA, b.copy())
        else:
            for k in range(6):
                sut(ta.__setitem__, k, float(b[k]))
        s2 = _scale(B, O.inv(B))
        _close(_gtm(ta, "a after " + how), B, s2, "a.gTM() after %s vs the pose set" % how)
        _close(_gtm(sut(ta.inv), "a.inv() after " + how), O.inv(B), s2,
               "a.inv() after a was given a new pose through %s vs the inverse of the new pose" % how)


def c_assoc(case, ctx):
    a, b, c = case["a"], case["b"], case["c"]
    A, B, C = (O.pose_from_taa(x) for x in (a, b, c))
    ctx.label(_angle_label(float(np.linalg.norm(b[3:]))))
    ctx.nontrivial(_nonparallel(a[3:], b[3:], c[3:]) and all(np.linalg.norm(x[:3]) > 0 for x in (a, b, c)))
    ta, tb, tc = _build(a, case["fa"]), _build(b, case["fb"]), _build(c, case["fc"])
    left = _gtm(sut(lambda: (ta @ tb) @ tc), "(a@b)@c")
    right = _gtm(sut(lambda: ta @ (tb @ tc)), "a@(b@c)")
    ABC = A @ B @ C
    s = _scale(A, B, C, A @ B, B @ C, ABC)
    _close(left, right, s, "(a@b)@c vs a@(b@c)")
    _close(left, ABC, s, "(a@b)@c vs A B C")
    _close(right, ABC, s, "a@(b@c) vs A B C")


def c_frames(case, ctx):
    fsr = lib()["fsr"]
    r, x = case["r"], case["x"]
    if case.get("xnear") is not None:
        # x is a small step away from the reference frame itself (a target next to where the tool already is, both
        # far from the origin): coordinates differ by 1e-7..1e-1, the rotation by nothing or next to nothing
        mag, d, dw = case["xnear"]
        x = np.asarray(r, dtype=float).copy()
        x[:3] = x[:3] + float(mag) * np.asarray(d, dtype=float)
        x[3:] = x[3:] + np.asarray(dw, dtype=float)
        ctx.label("x next to the reference frame")
    Rm, X = O.pose_from_taa(r), O.pose_from_taa(x)
    G_ = Rm @ X
    L_ = O.inv(Rm) @ X
    ctx.label(_angle_label(float(np.linalg.norm(r[3:]))))
    ctx.label(_p_label(r[:3]))
    if _near_pi(G_[:3, :3]) or _near_pi(L_[:3, :3]):
        ctx.skip("result within 1e-4 of a half turn (C01-near-pi-log)")
    ctx.nontrivial(_nonparallel(r[3:], x[3:]) and np.linalg.norm(r[:3]) > 0 and np.linalg.norm(x[:3]) > 0)
    tr, tx = _build(r, case["fr"]), _build(x, case["fx"])
    s = _scale(Rm, X, G_, L_)
    g = sut(fsr.localToGlobal, tr, tx)
    _close(_gtm(g, "localToGlobal(ref, x)"), G_, s, "localToGlobal(ref, x) vs Ref X")
    l = sut(fsr.globalToLocal, tr, tx)
    # inv(Ref) X = [R^T Rx, R^T (p_x - p_ref)]: the only length a rotation error can act on here is |p_x - p_ref|, so
    # that - not the distance of the frames from the origin - scales the translation tolerance (the statement's own
    # tolerance is 5e-6 absolute; two frames a millimetre apart at |p| = 1e3 are not "equal")
    s_l = max(1.0, float(np.linalg.norm(X[:3, 3] - Rm[:3, 3])))
    _close(_gtm(l, "globalToLocal(ref, x)"), L_, s_l, "globalToLocal(ref, x) vs inv(Ref) X")
    _close(_gtm(sut(fsr.globalToLocal, tr, g), "globalToLocal(ref, localToGlobal(ref, x))"), X, s,
           "globalToLocal(ref, localToGlobal(ref, x)) vs x")
    _close(_gtm(sut(fsr.localToGlobal, tr, l), "localToGlobal(ref, globalToLocal(ref, x))"), X, s,
           "localToGlobal(ref, globalToLocal(ref, x)) vs x")
    _close(_gtm(tr, "ref"), Rm, s, "ref after frame conversion")
    _close(_gtm(tx, "x"), X, s, "x after frame conversion")


def c_matmul_raw_right(case, ctx):
    a, b = case["a"], case["b"]
    A, B = O.pose_from_taa(a), np.ascontiguousarray(O.pose_from_taa(b))
    ctx.label(_angle_label(float(np.linalg.norm(b[3:]))))
    ctx.nontrivial(_nonparallel(a[3:], b[3:]) and np.linalg.norm(a[:3]) > 0 and np.linalg.norm(b[:3]) > 0)
    ta = _build(a, case["fa"])
    s = _scale(A, B, A @ B)
    _close(_gtm(sut(lambda: ta @ B.copy()), "a @ B(4x4)"), A @ B, s, "(a @ raw 4x4).gTM() vs A B")


def c_matmul_raw_left(case, ctx):
    a, b = case["a"], case["b"]
    A, B = O.pose_from_taa(a), np.ascontiguousarray(O.pose_from_taa(b))
    ctx.label(_angle_label(float(np.linalg.norm(b[3:]))))
    ctx.nontrivial(_nonparallel(a[3:], b[3:]) and np.linalg.norm(a[:3]) > 0 and np.linalg.norm(b[:3]) > 0)
    ta = _build(a, case["fa"])
    s = _scale(A, B, B @ A)
    _close(_gtm(sut(lambda: B.copy() @ ta), "B(4x4) @ a"), B @ A, s, "(raw 4x4 @ a).gTM() vs B A")


# ----------------------------------------------------------------------------------- constructor clauses

def _target(case):
    """(p, w, R, e): position, rotation vector, rotation matrix and Rx*Ry*Rz triple of ONE pose."""
    v = np.asarray(case["v"], dtype=float).reshape(6)
    p = v[:3].copy()
    if case["mode"] == "euler":
        e = v[3:].copy()
        R = rxyz(e)
        w = O.log3(R)
    else:
        w = v[3:].copy()
        R = O.exp3(w)
        e = euler_xyz(R)
    Re = rxyz(e)
    if np.abs(Re - R).max() > 1e-7:
        raise HarnessError("Rx*Ry*Rz decomposition is off by %.3g" % np.abs(Re - R).max())
    return p, w, R, e, Re


def _ctor_labels(ctx, case, p, w, e):
    th = float(np.linalg.norm(w))
    ctx.label(_angle_label(th))
    ctx.label(_p_label(p))
    ctx.label("mode " + case["mode"])
    cb = abs(math.cos(e[1]))
    ctx.label("gimbal lock" if cb < 1e-9 else ("near gimbal" if cb < 1e-3 else "rpy regular"))
    ctx.nontrivial(th >= 1e-3 and bool(np.all(np.abs(w) > 1e-6)))
    return th


def c_ctor_forms(case, ctx):
    tm = lib()["tm"]
    p, w, R, e, Re = _target(case)
    th = _ctor_labels(ctx, case, p, w, e)
    if th > PI - 1e-3 + 1e-12:
        ctx.skip("rotation angle above pi-1e-3 (outside the quantifier)")
    T = O.rp(R, p)
    T0 = O.rp(R, np.zeros(3))
    Te = O.rp(Re, p)
    Te0 = O.rp(Re, np.zeros(3))
    s = max(1.0, float(np.linalg.norm(p)))
    qs = float(case["qs"])
    q = np.asarray(O.rotvec_to_quat(w), dtype=float) * qs
    pl, wl, el = [float(x) for x in p], [float(x) for x in w], [float(x) for x in e]
    v6 = np.concatenate([p, w])
    e6 = np.concatenate([p, e])
    v7 = np.concatenate([p, q])
    base = sut(tm, pl + wl)
    one = np.empty(1, dtype=object)
    one[0] = base
    forms = [
        ("tm(list6)", lambda: base, T),
        ("tm(array(6,))", lambda: sut(tm, v6.copy()), T),
        ("tm(array(6,1))", lambda: sut(tm, v6.reshape(6, 1).copy()), T),
        ("tm(list3) rotation only", lambda: sut(tm, wl), T0),
        ("tm(array(3,)) rotation only", lambda: sut(tm, w.copy()), T0),
        ("tm(list6, rpy=True)", lambda: sut(tm, pl + el, True), Te),
        ("tm(array(6,), rpy=True)", lambda: sut(tm, e6.copy(), True), Te),
        ("tm(list3, rpy=True) rotation only", lambda: sut(tm, el, True), Te0),
        ("tm(array(3,), rpy=True) rotation only", lambda: sut(tm, e.copy(), True), Te0),
        ("tm(list7) position+quaternion", lambda: sut(tm, [float(x) for x in v7]), T),
        ("tm(array(7,)) position+quaternion", lambda: sut(tm, v7.copy()), T),
        ("tm(list7) position+negated quaternion", lambda: sut(tm, pl + [float(-x) for x in q]), T),
        ("tm(4x4)", lambda: sut(tm, np.ascontiguousarray(T).copy()), T),
        ("tm(tm)", lambda: sut(tm, base), T),
        ("tm(array([tm]))", lambda: sut(tm, one), T),
        # the roll-pitch-yaw flag says how an ANGLE TRIPLE is to be read; the forms that carry no angle triple mean the
        # same pose with it (the repository's own tests hand True to the 7-element and 4x4 forms and expect that)
        ("tm(list7, rpy=True)", lambda: sut(tm, [float(x) for x in v7], True), T),
        ("tm(4x4, rpy=True)", lambda: sut(tm, np.ascontiguousarray(T).copy(), True), T),
        ("tm(tm, rpy=True)", lambda: sut(tm, base, True), T),
        ("tm(array([tm]), rpy=True)", lambda: sut(tm, one, rpy=True), T),
    ]
    mats = []
    for name, make, want in forms:
        t1 = make()
        M = _gtm(t1, name)
        _close(M, want, s, "%s vs the described pose" % name)
        mats.append((name, M, want is T or want is Te))
        if name != "tm(list6)":
            # the object just built is put to use (moved in place through the public setters); the same description
            # given to the constructor again still describes the same pose
            for k, dv in enumerate((0.25, -0.5, 1.5, 0.125, -0.25, 0.0625)):
                sut(t1.__setitem__, k, float(np.asarray(t1[k]).reshape(-1)[0]) + dv)
            _close(_gtm(make(), name + " (second time)"), want, s,
                   "%s built again after the first instance was edited in place vs the described pose" % name)
    # "produce the same transform": pairwise through the first full-pose form
    ref = mats[0][1]
    for name, M, full in mats:
        if full:
            _close(M, ref, s, "%s vs tm(list6)" % name)


def c_nested_pair(case, ctx):
    tm = lib()["tm"]
    p, w, R, e, Re = _target(case)
    th = _ctor_labels(ctx, case, p, w, e)
    if th > PI - 1e-3 + 1e-12:
        ctx.skip("rotation angle above pi-1e-3 (outside the quantifier)")
    T = O.rp(R, p)
    s = max(1.0, float(np.linalg.norm(p)))
    pl, wl = [float(x) for x in p], [float(x) for x in w]
    _close(_gtm(sut(tm, [pl, wl]), "tm([[p],[w]])"), T, s, "tm([position list, rotation list]) vs the described pose")
    _close(_gtm(sut(tm, [p.copy(), w.copy()]), "tm([p_arr,w_arr])"), T, s,
           "tm([position array, rotation array]) vs the described pose")
    _close(_gtm(sut(tm, [pl, wl]), "tm([[p],[w]])"), _gtm(sut(tm, pl + wl), "tm(list6)"), s,
           "tm([position, rotation]) vs tm(list6)")
    # the two halves need not be of the same kind (callers write tm([t.gPos().flatten(), [0, 0, yaw]])): every mix of
    # list / (3,) array halves describes the same pose ((3,1) columns are not an accepted half: not generated)
    _close(_gtm(sut(tm, [p.copy(), wl]), "tm([p_arr,[w]])"), T, s,
           "tm([position array, rotation list]) vs the described pose")
    _close(_gtm(sut(tm, [pl, w.copy()]), "tm([[p],w_arr])"), T, s,
           "tm([position list, rotation array]) vs the described pose")


def c_quat_roundtrip(case, ctx):
    v = np.asarray(case["a"], dtype=float)
    A = O.pose_from_taa(v)
    th = float(np.linalg.norm(v[3:]))
    ctx.label(_angle_label(th))
    ctx.nontrivial(th >= 1e-3 and bool(np.all(np.abs(v[3:]) > 1e-6)))
    t = _build(v, case["fa"])
    before = _gtm(t, "t")
    s = _scale(A)
    q = np.asarray(sut(t.getQuat), dtype=float)
    if q.shape != (4,) or not np.all(np.isfinite(q)):
        raise Violation("getQuat() returned %r" % (q,))
    sut(t.setQuat, q.copy())
    after = _gtm(t, "t after setQuat(getQuat())")
    _close(after, before, s, "gTM() after t.setQuat(t.getQuat()) vs before")
    _close(after, A, s, "gTM() after t.setQuat(t.getQuat()) vs the described pose")
    # ... and as a list, and with the sign flipped (q and -q are the same rotation)
    usable = PI - O.angle(A[:3, :3]) >= 1e-3       # (frame conversion reads the six-vector; near pi that is C01's finding)
    fsr = lib()["fsr"]
    if usable:
        # the transform is the same TRANSFORM afterwards, not just the same matrix: used as the reference of a frame
        # conversion (which reads the six-vector) it still acts as A
        _close(_gtm(sut(fsr.localToGlobal, t, sut(lib()["tm"])), "localToGlobal(t, identity) after setQuat(getQuat())"), A, s,
               "localToGlobal(t, identity) after t.setQuat(t.getQuat()) vs the described pose")
    sut(t.setQuat, [float(-x) for x in q])
    _close(_gtm(t, "t after setQuat(-getQuat())"), before, s, "gTM() after t.setQuat(-t.getQuat()) vs before")
    if usable:
        _close(_gtm(sut(fsr.localToGlobal, t, sut(lib()["tm"])), "localToGlobal(t, identity) after setQuat(-getQuat())"), A, s,
               "localToGlobal(t, identity) after t.setQuat(-t.getQuat()) vs the described pose")


# ----------------------------------------------------------------------------------- strategies

def _unit(x, y, z):
    v = np.array([x, y, z], dtype=float)
    n = float(np.linalg.norm(v))
    return v / n if n > 1e-3 else np.array([0.0, 0.0, 1.0])


_F11 = G.floats(-1.0, 1.0)
_TH = st.one_of(G.floats(1e-3, PI - 1e-3), st.sampled_from([PI - 1e-3, PI / 2, 1.0, 1e-3, 3.0]))
_MAG = st.one_of(G.log_uniform(1e-2, 1e3), st.sampled_from([1.0, 10.0, 1e3, 999.0]))
_BOUNDARY = G.taas(maxnorm=1e3, maxang=PI - 1e-3)
_QUARTER = st.integers(0, 3)


@st.composite
def _poses(draw):
    """[p, w]: 3/4 'rich' poses (generic axis, angle in [1e-3, pi-1e-3], 1e-2 <= |p| <= 1e3 over the decades),
    1/4 the shared boundary-heavy generator (zero / tiny / cut-off angles, aligned axes, zero translations)."""
    if draw(_QUARTER) == 0:
        return draw(_BOUNDARY)
    u = _unit(draw(_F11), draw(_F11), draw(_F11))
    th = draw(_TH)
    d = _unit(draw(_F11), draw(_F11), draw(_F11))
    p = d * draw(_MAG)
    n = float(np.linalg.norm(p))
    if n > 1e3:
        p = p * (1e3 / n) * (1 - 1e-15)
    return np.concatenate([p, th * u])


_FORM = st.integers(0, 2)
_QS = st.one_of(st.sampled_from([1.0, -1.0, 2.0, -0.5, 1e-3, -1e3]), G.signed_log_uniform(1e-3, 1e3))


_MODE = st.sampled_from(["rotvec", "rotvec", "euler"])
# ANY real triple (a, b, c) is a description of the pose Rx(a) Ry(b) Rz(c): angles are NOT confined to the principal
# ranges a decomposition would return (|b| <= pi/2) -- a constructor that "normalises" the pitch must still mean
# the same rotation
_EANG = st.one_of(G.floats(-PI, PI), G.floats(-2 * PI, 2 * PI),
                  st.sampled_from([0.0, 1.0, -1.0, PI / 2, -PI / 2, 1e-7, 0.5, PI, -PI, 4.0]))
_EB = st.one_of(G.floats(-PI / 2, PI / 2), G.floats(-PI, PI), G.floats(-2 * PI, 2 * PI),
                st.sampled_from([PI / 2, -PI / 2, 0.0, math.nextafter(PI / 2, 0), 1.0, PI / 2 - 1e-7, -PI / 2 + 1e-5,
                                 2.0, -2.0, PI, 3 * PI / 2]))
_POS = G.positions(1e3)
_POSES = _poses()


@st.composite
def _ctor_cases(draw):
    mode = draw(_MODE)
    if mode == "rotvec":
        v = draw(_POSES)
    else:
        v = np.concatenate([draw(_POS), [draw(_EANG), draw(_EB), draw(_EANG)]])
    return {"v": v, "mode": mode, "qs": draw(_QS)}


def _fd(**kw):
    return st.fixed_dictionaries(kw)


CLAUSES = [
    Clause("compose_is_matrix_product", c_compose, _fd(a=_poses(), b=_poses(), fa=_FORM, fb=_FORM), 1500, 48000),
    Clause("inv_is_group_inverse", c_inverse,
           _fd(a=_poses(), fa=_FORM, b=st.one_of(st.none(), _poses()),
               how=st.sampled_from(["setQuat", "sTM", "sTAA", "setitem"])), 1500, 48000),
    Clause("composition_associative", c_assoc,
           _fd(a=_poses(), b=_poses(), c=_poses(), fa=_FORM, fb=_FORM, fc=_FORM), 1500, 48000),
    Clause("local_global_mutual_inverse", c_frames, _fd(r=_poses(), x=_poses(), fr=_FORM, fx=_FORM,
               xnear=st.one_of(st.none(), st.none(), st.none(),
                               st.tuples(G.log_uniform(1e-7, 1e-1), st.lists(_F11, min_size=3, max_size=3),
                                         st.one_of(st.just([0.0, 0.0, 0.0]),
                                                   st.lists(G.signed_log_uniform(1e-9, 1e-5), min_size=3, max_size=3))))),
           1500, 48000),
    Clause("constructor_forms_agree", c_ctor_forms, _ctor_cases(), 1500, 48000),
    Clause("nested_pair_form", c_nested_pair, _ctor_cases(), 1000, 32000),
    Clause("quaternion_get_set_identity", c_quat_roundtrip, _fd(a=_poses(), fa=_FORM), 1500, 48000),
    Clause("matmul_raw_matrix_right", c_matmul_raw_right, _fd(a=_poses(), b=_poses(), fa=_FORM), 1000, 32000),
    # Coordinator decision: `ndarray @ tm` (numpy never defers to tm.__rmatmul__, so it raises ValueError) is NOT part
    # of the property statement (it speaks of composing transforms); the clause c_matmul_raw_left is kept in the
    # module for reference but not registered, and the proposed `__array_ufunc__ = None` patch was not landed because
    # it changes the meaning of every other `ndarray <op> tm` expression (see notes/C04.md).
]
