"""C05 -- arm FK = base . product of exponentials . home tool pose, through any history.

A case is {"arm": <arm spec of vf.arms>, "ops": [<op dict>, ...]} (<= 10 ops).  ``check`` builds a fresh
arm and an independent reference model (vf.arms.build_arm), interprets the op list on both, and after
EVERY step compares what the arm reports with the model:

  value returned by the call (FK, FK(None), randomPos) ; getEEPos() ; getBasePos() ;
  getJointTransforms() (first = base, last = tool pose, joint frames in between) ;
  jacobian() / jacobianBody() with defaulted theta ; the stored joint vector.

The model is {B, S, M0, candidates for the current home tool pose M, theta, limits}:
  FK(theta) = B . prod exp([S_i] clamp(theta)_i) . M          (oracle toolkit, long double Rodrigues)
Where the statement is silent the model admits every reading and commits to what the arm exhibits:
  * move(): the tool afterwards may be the changed one or the original one (candidates {M, M0});
  * setArbitraryHome(N, theta): the arm may or may not adopt theta as its state;
  * IK / move(stationary) / randomPos: the joint vector is the library's choice -- the model ADOPTS the
    arm's stored vector and demands coherence only (C07 owns whether the goal was reached).
"""
import math
import random

import numpy as np
from hypothesis import strategies as st

from vf import arms as A
from vf import gen as G
from vf import oracle as O
from vf.core import Clause, HarnessError, Violation, sut

PROPERTY_ID = "C05"
RULE = ("Arms: the suite's 6R arm, the five bundled URDFs, random 1..7-joint revolute chains (axes/points like the "
        "suite, generic / serial / coincident-wrist layouts), each at the identity and at random bases (URDF: load "
        "then move), default or custom joint limits (one-sided, narrow, wider than the domain). Histories of <= 10 ops "
        "over {FK(theta in [-2pi,2pi]^n with mass exactly on / one ulp off / far beyond the limits), FK(None), "
        "IK limit-respecting and free (reachable goals = model FK of in-limit vectors, arbitrary goals; start given or "
        "defaulted; restarts on/off, RNG seeded from the case), IKFree, move, move(stationary), setArbitraryHome "
        "(absolute or tool-relative new frame, with/without theta), restoreOriginalEE, randomPos}; all invariants are "
        "checked after every step. Non-trivial: the history has a non-identity base AND (a move or a tool change) "
        "followed later by an FK, or an FK whose theta lies outside the limits (fresh-arm clause: non-identity base or theta "
        "outside the limits); distinct by digest of the whole case.")
ASSUMPTIONS = [
    "oracle: vf.oracle (long-double Rodrigues exp, PoE, space/body Jacobians); model screws/home/limits computed from "
    "the spec BEFORE the library constructor runs (URDF arms: read from the arm right after loading at the identity "
    "base -- loading itself is C13)",
    "setArbitraryHome(N, theta) means: afterwards the tool frame at configuration theta (default: current) is N, "
    "i.e. M' = M (T(theta))^-1 N  (this is what the suite's own test relies on)",
    "tolerance 1e-7 (rotation entries) and 1e-7*max(1, |p| scale) (translations, linear Jacobian rows); 5e-6 instead when "
    "a rotation angle that enters a library exp/log in the step (base, tool, relative tool change, joint value) lies "
    "in the open NearZero band (1e-9, 2e-6)",
    "poses the library round-trips through its axis-angle form whose rotation is within 1e-3 of a half turn are the "
    "open finding C01-near-pi-log seen at this property's 1e-7 (MatrixLog3 error ~2.6e-16/(pi-angle)^2): such tool "
    "changes are not executed (counted), such joint frames are not compared",
    "a free IK (protect=True) that leaves the stored joint vector outside the limits is followed by an explicit FK "
    "of the clamped vector before anything is compared (the statement does not say what the state means there)",
    "IKFree is only issued on arms with >= 2 joints and with at most 6 free indices (its least-squares solver "
    "rejects more unknowns than the 6 residuals; a 1-joint arm makes np.squeeze produce a 0-d array)",
]
SHARDS = {"quick": 4, "thorough": 16}

TOL = 1e-7
LOOSE = 5e-6
BAND_LO, BAND_HI = 1e-9, 2e-6
# The library's axis-angle round trip (MatrixLog3) loses accuracy as the angle approaches pi: measured error
# ~2.6e-16/(pi-angle)^2, i.e. 3e-6 at 1e-5, 3e-8 at 1e-4, 3e-11 at 1e-3 (open finding C01-near-pi-log, stated there
# for C01's 5e-6 tolerance as pi-angle < 2e-5).  At this property's 1e-7 the affected band is pi-angle < 1e-3.
NEAR_PI = 1e-3

_lib = {}


def lib():
    if not _lib:
        from basic_robotics.general import tm
        _lib["tm"] = tm
    return _lib


def warm():
    # Warm-up is an optimisation only: if the library is broken enough to raise here, the clauses report it
    # (as a VIOLATION with the failing case) instead of the run dying with a harness error.
    try:
        A.warm()
    except Exception:  # noqa: BLE001 -- deliberately broad, see above
        pass


# ------------------------------------------------------------------------------------------------
# helpers
# ------------------------------------------------------------------------------------------------

def count_band(*angles):
    return sum(1 for a in angles if BAND_LO < abs(a) < BAND_HI)


def ang(T):
    return O.angle(np.asarray(T)[:3, :3])


def near_pi(*Ts):
    return any(math.pi - ang(T) < NEAR_PI for T in Ts)


def as_T(x, what):
    """4x4 float matrix of a library tm (reads .TM through the public getter)."""
    if x is None or not hasattr(x, "gTM"):
        raise Violation("%s: expected a transform, got %r" % (what, type(x).__name__))
    T = np.array(sut(x.gTM), dtype=float)
    if T.shape != (4, 4) or not np.all(np.isfinite(T)):
        raise Violation("%s: not a finite 4x4 (%s)" % (what, T.shape))
    return T


def pose_diff(T, Tref):
    return float(np.abs(T[:3, :3] - Tref[:3, :3]).max()), float(np.abs(T[:3, 3] - Tref[:3, 3]).max())


class Tol:
    """1e-7 unless rotation angles in the NearZero band (1e-9, 2e-6) entered library exponentials/logarithms:
    each such angle may be dropped by the library (cut-off 1e-6), so the budget is max(5e-6, 1.5e-6 * count)."""

    def __init__(self, scale):
        self.scale = max(1.0, scale)
        self.sticky = 0          # in-band angles baked into the arm's stored model (base, tool, joint homes)
        self.step = 0            # in-band joint values of the current state
        self.ambiguous = False   # two admissible tools could not be told apart at 1e-7 (see match_tool)

    def add_sticky(self, *angles):
        self.sticky += count_band(*angles)

    def set_step(self, theta):
        self.step = count_band(*theta)

    @property
    def base(self):
        k = self.sticky + self.step
        if k == 0:
            return LOOSE if self.ambiguous else TOL
        return max(LOOSE, 1.5e-6 * k)

    def pose_ok(self, T, Tref):
        dr, dp = pose_diff(T, Tref)
        s = max(self.scale, float(np.linalg.norm(Tref[:3, 3])))
        return dr <= self.base and dp <= self.base * s, dr, dp


def expect_pose(T, Tref, tol, what):
    ok, dr, dp = tol.pose_ok(T, Tref)
    if not ok:
        raise Violation("%s: rotation diff %.3g, translation diff %.3g (tol %.1g, scale %.3g)"
                        % (what, dr, dp, tol.base, tol.scale))


def expect_jac(J, Jref, tol, what):
    J = np.asarray(J, dtype=float)
    if J.shape != Jref.shape:
        raise Violation("%s: shape %s, expected %s" % (what, J.shape, Jref.shape))
    if not np.all(np.isfinite(J)):
        raise Violation("%s: non-finite" % what)
    da = float(np.abs(J[:3] - Jref[:3]).max())
    dl = float(np.abs(J[3:] - Jref[3:]).max())
    if da > tol.base or dl > tol.base * tol.scale:
        raise Violation("%s: angular rows diff %.3g, linear rows diff %.3g (tol %.1g, scale %.3g)"
                        % (what, da, dl, tol.base, tol.scale))


class State:
    """Reference model state during one history."""

    def __init__(self, model):
        self.m = model
        self.B = model.B.copy()
        self.Ms = [model.M0.copy()]              # candidates for the current home tool pose (base frame)
        self.th = np.zeros(model.n)              # the constructor ends with FK(zeros)
        self.joint_taint = [False] * model.n     # joint frame i went through a near-pi axis-angle round trip

    def fk(self, th=None, M=None, B=None):
        return A.model_fk(self.m, self.th if th is None else th, M=self.Ms[0] if M is None else M,
                          B=self.B if B is None else B)


def match_tool(st_, T, tol, what, th=None):
    """The arm's tool pose T must equal the model pose for at least one tool candidate; prune the others."""
    keep = []
    worst = None
    for M in st_.Ms:
        ok, dr, dp = tol.pose_ok(T, st_.fk(th=th, M=M))
        if ok:
            keep.append(M)
        elif worst is None or dr + dp < worst[0] + worst[1]:
            worst = (dr, dp)
    if not keep:
        raise Violation("%s: differs from base . PoE(clamp(theta)) . M for every admissible tool (best: rotation "
                        "diff %.3g, translation diff %.3g; tol %.1g, scale %.3g; %d candidate(s))"
                        % (what, worst[0], worst[1], tol.base, tol.scale, len(st_.Ms)))
    if len(keep) > 1:
        tol.ambiguous = True        # two readings indistinguishable here: do not let the choice cost 1e-7
    st_.Ms = keep


def observe(arm, st_, tol, ctx, step, expect_theta=True):
    """All invariants of the statement, after a step.  Reads the stored joint vector first."""
    m = st_.m
    n = m.n
    tag = "step %d" % step
    th_arm = np.array(arm._theta, dtype=float).reshape(-1).copy()
    if th_arm.shape != (n,) or not np.all(np.isfinite(th_arm)):
        raise Violation("%s: stored joint vector has shape %s / non-finite" % (tag, th_arm.shape))
    if expect_theta:
        d = float(np.abs(th_arm - st_.th).max()) if n else 0.0
        if d > 1e-12:
            raise Violation("%s: stored joint vector differs from clamp(theta) by %.3g" % (tag, d))
    else:
        st_.th = th_arm.copy()
    tol.set_step(st_.th)

    E = as_T(sut(arm.getEEPos), tag + " getEEPos")
    match_tool(st_, E, tol, tag + " getEEPos() vs pose of the stored joint vector")
    Eref = st_.fk()

    Bp = as_T(sut(arm.getBasePos), tag + " getBasePos")
    expect_pose(Bp, st_.B, tol, tag + " getBasePos() vs base")

    J = sut(arm.jacobian)
    expect_jac(J, A.model_jac_space(m, st_.th, B=st_.B), tol, tag + " jacobian() (defaulted theta) vs oracle at the state")
    Jb = sut(arm.jacobianBody)
    expect_jac(Jb, A.model_jac_body(m, st_.th, M=st_.Ms[0]), tol,
               tag + " jacobianBody() (defaulted theta) vs oracle at the state")

    JT = sut(arm.getJointTransforms)
    if not isinstance(JT, list) or len(JT) not in (n + 1, n + 2):
        raise Violation("%s: getJointTransforms returned %s entries for %d joints"
                        % (tag, len(JT) if isinstance(JT, list) else type(JT).__name__, n))
    first = as_T(JT[0], tag + " getJointTransforms[0]")
    expect_pose(first, st_.B if m.F is None else st_.B @ m.F, tol, tag + " getJointTransforms()[0] vs base")
    last = as_T(JT[-1], tag + " getJointTransforms[-1]")
    expect_pose(last, Eref, tol, tag + " getJointTransforms()[-1] vs tool pose of the state")
    frames = A.model_joint_frames(m, st_.th, B=st_.B)
    for i in range(n - 1):
        if st_.joint_taint[i]:
            continue
        Ti = as_T(JT[1 + i], tag + " getJointTransforms[%d]" % (1 + i))
        expect_pose(Ti, frames[i], tol, tag + " joint frame %d vs base . PoE_{<=%d} . joint home" % (i, i))
    # The entry before the tool is the last joint's frame -- documented to exist only when the tool is not
    # coincident with the last joint; when it is coincident its content is not specified (and not compared).
    off_joint = n and float(np.linalg.norm(st_.Ms[0][:3, 3] - m.H[n - 1][:3, 3])) > 1e-6
    if len(JT) == n + 2 and m.kind != "urdf" and off_joint and not st_.joint_taint[n - 1]:
        Tl = as_T(JT[-2], tag + " getJointTransforms[-2]")
        expect_pose(Tl, frames[n - 1], tol, tag + " last joint frame (entry before the tool) vs model")
    # "Base return behavior can be disabled by setting 'return_base' to false": the same list without its first entry
    # (asked positionally and by keyword)
    for how, JT2 in (("getJointTransforms(False)", sut(arm.getJointTransforms, False)),
                     ("getJointTransforms(return_base=False)", sut(arm.getJointTransforms, return_base=False))):
        if not isinstance(JT2, list) or len(JT2) != len(JT) - 1:
            raise Violation("%s: %s returned %s entries, the default form %d" % (
                tag, how, len(JT2) if isinstance(JT2, list) else type(JT2).__name__, len(JT)))
        for k in range(len(JT2)):
            expect_pose(as_T(JT2[k], "%s %s[%d]" % (tag, how, k)), as_T(JT[k + 1], tag + " getJointTransforms[%d]" % (k + 1)),
                        tol, "%s %s[%d] vs getJointTransforms()[%d]" % (tag, how, k, k + 1))
    # the state must not have been changed by looking at it
    th2 = np.array(arm._theta, dtype=float).reshape(-1)
    if th2.shape != (n,) or (n and float(np.abs(th2 - st_.th).max()) > 1e-12):
        raise Violation("%s: queries with defaulted arguments changed the stored joint vector" % tag)
    return Eref


def mk_tm(x):
    tm = lib()["tm"]
    return tm(np.array(x, dtype=float).copy())


def taint_joints_on_move(st_, B_old, B_new, tol):
    """move() re-expresses every joint home through the library's axis-angle form."""
    m = st_.m
    for i in range(m.n):
        H = m.H[i]
        if near_pi(H, B_old @ H, B_new @ H):
            st_.joint_taint[i] = True
        tol.add_sticky(ang(H), ang(B_old @ H), ang(B_new @ H))
    if m.kind != "urdf" and m.n:
        # eef -> last joint is re-derived (axis-angle) whenever the tool home is off the last joint
        Hl = m.H[m.n - 1]
        for M in st_.Ms + [m.M0]:
            rel = O.inv(M) @ Hl
            if near_pi(B_new @ M, B_new @ Hl, rel):
                st_.joint_taint[m.n - 1] = True
            tol.add_sticky(ang(B_new @ M), ang(B_new @ Hl), ang(rel))


# ------------------------------------------------------------------------------------------------
# the interpreter
# ------------------------------------------------------------------------------------------------

def run_history(case, ctx, allowed=None, fresh=False):
    spec = case["arm"]
    ops = case["ops"]
    base6 = np.asarray(spec.get("base", np.zeros(6)), dtype=float)
    ctx.label("arm " + spec["kind"])
    ctx.label("base identity" if not np.any(base6 != 0) else "base moved")
    ctx.label("limits " + ("default" if spec.get("limits") is None else "custom"))
    state = random.getstate()
    try:
        random.seed(0)
        arm, model = sut(A.build_arm, spec)
        ctx.label("n=%d" % model.n)
        st_ = State(model)
        tol = Tol(A.model_scale(model))
        tol.add_sticky(ang(model.B), ang(model.M0), ang(model.B @ model.M0))
        if model.built_by_move:
            taint_joints_on_move(st_, np.eye(4), model.B, tol)
        elif model.kind != "urdf" and model.n:
            # the constructor derives eef -> last joint through the axis-angle form
            Hl = model.H[model.n - 1]
            rel = O.inv(model.M0) @ Hl
            if near_pi(model.B @ model.M0, model.B @ Hl, rel):
                st_.joint_taint[model.n - 1] = True
            tol.add_sticky(ang(model.B @ Hl), ang(rel))
        nonid_seen = bool(np.any(base6 != 0))   # some base of the history is not the identity
        changed = False                          # a move or a tool change has been executed
        nontrivial = False
        if A.outside_limits(model, st_.th):
            # limits are set after construction (as the suite does): the home vector may lie outside them and
            # the statement only speaks about the state after a call -> start with an explicit FK
            _resync(arm, st_, tol, ctx, 0, "home outside custom limits -> explicit FK")
        else:
            observe(arm, st_, tol, ctx, 0)
        for k, op in enumerate(ops, start=1):
            name = op["op"]
            if allowed is not None and name not in allowed:
                raise HarnessError("op %s not allowed in this clause" % name)
            tol.scale = max(tol.scale, A.model_scale(model, B=st_.B, M=st_.Ms[0]))
            did = _STEP[name](arm, st_, tol, ctx, k, op)
            if did is False:
                continue
            ctx.label("op " + name)
            if name in ("move", "sethome", "restore"):
                changed = True
                if name == "move" and np.any(np.asarray(op["base"]) != 0):
                    nonid_seen = True
            if name == "fk":
                if did == "clamped" or (changed and nonid_seen):
                    nontrivial = True
        if fresh:
            nontrivial = nontrivial or nonid_seen
        if tol.sticky:
            ctx.label("loose tolerance (NearZero band)")
        ctx.nontrivial(nontrivial)
    finally:
        random.setstate(state)


def step_fk(arm, st_, tol, ctx, k, op):
    m = st_.m
    th = A.decode_theta(m, op["th"], inside=False)
    out = A.outside_limits(m, th)
    thc = A.clamp(m, th)
    tol.set_step(thc)
    # every FK of one history is handed the SAME array object, rewritten in place between calls (a jogging loop over
    # one buffer): FK is about the values in the array at the time of the call
    buf = getattr(st_, "fk_buf", None)
    if buf is None or buf.shape != th.shape:
        buf = st_.fk_buf = np.array(th, dtype=float, copy=True)
    else:
        buf[:] = th
    T = as_T(sut(arm.FK, buf), "step %d FK" % k)
    st_.th = thc
    match_tool(st_, T, tol, "step %d value returned by FK(theta%s)" % (k, ", outside the limits" if out else ""))
    observe(arm, st_, tol, ctx, k)
    if out:
        ctx.label("fk clamped")
        return "clamped"
    return True


def step_fk_none(arm, st_, tol, ctx, k, op):
    T = as_T(sut(arm.FK, None), "step %d FK(None)" % k)
    tol.set_step(st_.th)
    match_tool(st_, T, tol, "step %d value returned by FK(None) vs pose of the stored joint vector" % k)
    observe(arm, st_, tol, ctx, k)
    return True


def _resync(arm, st_, tol, ctx, k, why):
    m = st_.m
    ctx.label(why)
    thc = A.clamp(m, np.array(arm._theta, dtype=float).reshape(-1))
    tol.set_step(thc)
    T = as_T(sut(arm.FK, thc.copy()), "step %d FK(resync)" % k)
    st_.th = thc
    match_tool(st_, T, tol, "step %d value returned by FK(clamped stored vector)" % k)
    observe(arm, st_, tol, ctx, k)


def _resync_if_outside(arm, st_, tol, ctx, k):
    """After a free solve the stored vector may lie outside the limits; the statement does not say what the
    state means then, so an explicit FK of the clamped vector is issued before anything is compared."""
    m = st_.m
    th_arm = np.array(arm._theta, dtype=float).reshape(-1).copy()
    if th_arm.shape == (m.n,) and np.all(np.isfinite(th_arm)) and A.outside_limits(m, th_arm):
        _resync(arm, st_, tol, ctx, k, "free ik left theta outside limits -> explicit FK")
        return True
    return False


def _goal(st_, g):
    m = st_.m
    if g["kind"] == "reach":
        ths = A.decode_theta(m, g["th"], inside=True)
        return st_.fk(th=ths)
    return O.pose_from_taa(g["pose"])


def step_ik(arm, st_, tol, ctx, k, op):
    m = st_.m
    goal = _goal(st_, op["goal"])
    init = None if op["init"] is None else A.decode_theta(m, op["init"], inside=False)
    random.seed(int(op["seed"]))
    res = sut(arm.IK, mk_tm(goal), None if init is None else init.copy(), bool(op["check"]), 6, 30,
              bool(op["protect"]))
    if not (isinstance(res, tuple) and len(res) == 2):
        raise Violation("step %d IK returned %r, not (theta, success)" % (k, type(res).__name__))
    ok = bool(res[1])
    ctx.label("ik %s %s" % ("free" if op["protect"] else "limits", "success" if ok else "failure"))
    if op["protect"] and _resync_if_outside(arm, st_, tol, ctx, k):
        return True
    observe(arm, st_, tol, ctx, k, expect_theta=False)
    return True


def step_ikfree(arm, st_, tol, ctx, k, op):
    m = st_.m
    if m.n < 2:
        return False
    goal = _goal(st_, op["goal"])
    init = A.decode_theta(m, op["init"], inside=False)
    inds = [i for i in range(m.n) if (int(op["mask"]) >> i) & 1]
    if not inds:
        inds = [int(op["mask"]) % m.n]
    inds = inds[:6]      # IKFree solves 6 residuals with scipy's 'lm', which needs #unknowns <= 6
    random.seed(int(op["seed"]))
    res = sut(arm.IKFree, mk_tm(goal), init.copy(), inds)
    if not (isinstance(res, tuple) and len(res) == 2):
        raise Violation("step %d IKFree returned %r, not (theta, success)" % (k, type(res).__name__))
    ctx.label("ikfree %s" % ("success" if bool(res[1]) else "failure"))
    if _resync_if_outside(arm, st_, tol, ctx, k):
        return True
    observe(arm, st_, tol, ctx, k, expect_theta=False)
    return True


def step_move(arm, st_, tol, ctx, k, op):
    m = st_.m
    b6 = np.asarray(op["base"], dtype=float)
    B_new = O.pose_from_taa(b6)
    tol.add_sticky(ang(B_new))
    taint_joints_on_move(st_, st_.B, B_new, tol)
    stationary = bool(op["stationary"])
    random.seed(int(op["seed"]))
    sut(arm.move, mk_tm(b6), stationary)
    st_.B = B_new
    tol.scale = max(tol.scale, A.model_scale(m, B=B_new, M=st_.Ms[0]))
    # the statement does not say whether a base move keeps a changed tool
    cands = [st_.Ms[0]]
    if not any(np.array_equal(m.M0, M) for M in cands):
        cands.append(m.M0.copy())
    for M in st_.Ms[1:]:
        cands.append(M)
    st_.Ms = cands
    if stationary:
        ctx.label("move stationary")
        observe(arm, st_, tol, ctx, k, expect_theta=False)
    else:
        observe(arm, st_, tol, ctx, k)
    return True


def step_sethome(arm, st_, tol, ctx, k, op):
    m = st_.m
    M = st_.Ms[0]
    th_ref = st_.th if op["th"] is None else A.clamp(m, A.decode_theta(m, op["th"], inside=False))
    T_ref = st_.fk(th=th_ref, M=M)
    if op["mode"] == "rel":
        N = T_ref @ O.pose_from_taa(op["pose"])
        N_arg = N
    elif op["mode"] == "onto_joint":
        # new tool frame sitting on the last joint (orientation from the drawn pose)
        Hl = A.model_joint_frames(m, th_ref, B=st_.B)[m.n - 1]
        N = Hl @ O.rp(O.pose_from_taa(op["pose"])[:3, :3], np.zeros(3))
        N_arg = N
    else:
        N = O.pose_from_taa(op["pose"])
        N_arg = np.asarray(op["pose"], dtype=float)
    X = O.inv(T_ref) @ N
    M_new = M @ X
    Mg_old, Mg_new = st_.B @ M, st_.B @ M_new
    if near_pi(T_ref, N, X, Mg_old, Mg_new):
        ctx.label("sethome not executed (near-pi axis-angle round trip, C01-near-pi-log)")
        return False
    angles = [ang(T_ref), ang(N), ang(X), ang(Mg_old), ang(Mg_new)]
    if m.kind != "urdf":
        Hl = m.H[m.n - 1]
        rel = O.inv(M_new) @ Hl
        if near_pi(st_.B @ Hl, rel):
            st_.joint_taint[m.n - 1] = True
        angles += [ang(st_.B @ Hl), ang(rel)]
    tol.add_sticky(*angles)
    tol.add_sticky(*th_ref)
    if op["th"] is None:
        sut(arm.setArbitraryHome, mk_tm(N_arg))
        th_cands = [st_.th]
    else:
        th_in = A.decode_theta(m, op["th"], inside=False)
        sut(arm.setArbitraryHome, mk_tm(N_arg), th_in.copy())
        th_cands = [th_ref, st_.th]
        ctx.label("sethome with theta")
    st_.Ms = [M_new]
    tol.scale = max(tol.scale, A.model_scale(m, B=st_.B, M=M_new))
    # the statement does not say whether setArbitraryHome(theta) moves the arm to theta
    th_arm = np.array(arm._theta, dtype=float).reshape(-1)
    chosen = None
    for c in th_cands:
        if th_arm.shape == c.shape and (not len(c) or float(np.abs(th_arm - c).max()) <= 1e-12):
            chosen = c
            break
    if chosen is None:
        raise Violation("step %d setArbitraryHome: stored joint vector is neither the previous state nor "
                        "clamp(theta given)" % k)
    st_.th = chosen.copy()
    observe(arm, st_, tol, ctx, k)
    return True


def step_restore(arm, st_, tol, ctx, k, op):
    sut(arm.restoreOriginalEE)
    m = st_.m
    st_.Ms = [m.M0.copy()]
    if m.kind != "urdf" and m.n:
        Hl = m.H[m.n - 1]
        rel = O.inv(m.M0) @ Hl
        if near_pi(st_.B @ m.M0, st_.B @ Hl, rel):
            st_.joint_taint[m.n - 1] = True
        tol.add_sticky(ang(st_.B @ m.M0), ang(st_.B @ Hl), ang(rel))
    observe(arm, st_, tol, ctx, k)
    return True


def step_randompos(arm, st_, tol, ctx, k, op):
    m = st_.m
    random.seed(int(op["seed"]))
    T = as_T(sut(arm.randomPos), "step %d randomPos" % k)
    th_arm = np.array(arm._theta, dtype=float).reshape(-1).copy()
    if th_arm.shape != (m.n,) or not np.all(np.isfinite(th_arm)):
        raise Violation("step %d randomPos: stored joint vector shape %s / non-finite" % (k, th_arm.shape))
    st_.th = th_arm
    tol.set_step(A.clamp(m, th_arm))
    match_tool(st_, T, tol, "step %d value returned by randomPos vs pose of the stored joint vector" % k)
    observe(arm, st_, tol, ctx, k, expect_theta=False)
    return True


_STEP = {"fk": step_fk, "fk_none": step_fk_none, "ik": step_ik, "ikfree": step_ikfree, "move": step_move,
         "sethome": step_sethome, "restore": step_restore, "randompos": step_randompos}


# ------------------------------------------------------------------------------------------------
# strategies
# ------------------------------------------------------------------------------------------------

_seed = st.integers(0, 2 ** 31 - 1)

op_fk = st.fixed_dictionaries({"op": st.just("fk"), "th": A.theta_codes()})
op_fk_none = st.just({"op": "fk_none"})
_goals = st.one_of(
    st.fixed_dictionaries({"kind": st.just("reach"), "th": A.theta_codes()}),
    st.fixed_dictionaries({"kind": st.just("pose"), "pose": A.poses6(maxnorm=8.0, tiny=False)}))
op_ik = st.fixed_dictionaries({"op": st.just("ik"), "protect": st.booleans(), "goal": _goals,
                               "init": st.one_of(st.none(), A.theta_codes()), "check": st.booleans(), "seed": _seed})
op_ikfree = st.fixed_dictionaries({"op": st.just("ikfree"), "goal": _goals, "init": A.theta_codes(),
                                   "mask": st.integers(1, 127), "seed": _seed})
op_move = st.fixed_dictionaries({"op": st.just("move"), "base": A.poses6(maxnorm=5.0, identity_weight=10),
                                 "stationary": st.just(False), "seed": _seed})
op_move_stat = st.fixed_dictionaries({"op": st.just("move"), "base": A.poses6(maxnorm=2.0, identity_weight=10),
                                      "stationary": st.just(True), "seed": _seed})
op_sethome = st.fixed_dictionaries({"op": st.just("sethome"),
                                    "mode": st.sampled_from(["rel", "rel", "abs", "onto_joint"]),
                                    "pose": A.poses6(maxnorm=3.0), "th": st.one_of(st.none(), A.theta_codes())})
op_restore = st.just({"op": "restore"})
op_randompos = st.fixed_dictionaries({"op": st.just("randompos"), "seed": _seed})

OPS_NO_IK = st.one_of(op_fk, op_fk, op_fk, op_fk_none, op_move, op_move, op_sethome, op_sethome, op_restore,
                      op_randompos)
OPS_ALL = st.one_of(op_fk, op_fk, op_fk_none, op_move, op_move_stat, op_sethome, op_restore, op_randompos,
                    op_ik, op_ik, op_ik, op_ikfree)


def histories(ops, kinds=("sixr", "urdf", "random"), min_size=1, max_size=10):
    # the length is drawn first (uniform), so that long histories are as frequent as short ones
    ops_list = st.integers(min_size, max_size).flatmap(lambda k: st.lists(ops, min_size=k, max_size=k))
    return st.fixed_dictionaries({"arm": A.arm_specs(kinds=kinds), "ops": ops_list})


def c_fresh(case, ctx):
    """Freshly constructed arm (any base, any limits): one FK, every invariant."""
    run_history(case, ctx, allowed=("fk",), fresh=True)


def c_history_kin(case, ctx):
    run_history(case, ctx, allowed=("fk", "fk_none", "move", "sethome", "restore", "randompos"))


def c_history_all(case, ctx):
    run_history(case, ctx)


CLAUSES = [
    Clause("fresh_arm_fk_is_base_poe_home", c_fresh, histories(op_fk, min_size=1, max_size=1), 600, 8000),
    Clause("history_fk_move_tool", c_history_kin, histories(OPS_NO_IK), 500, 16000),
    Clause("history_with_solvers", c_history_all, histories(OPS_ALL), 400, 12000),
]
