"""C09 -- Stewart platform: IK is exact geometry and FK inverts it (sp_model.SP, SPIKinSpace, SPFKinSpaceR)."""
import math
import random
import re
import warnings

import numpy as np
from hypothesis import strategies as st

from vf import gen as G
from vf import oracle as O
from vf import sps
from vf.core import Clause, Violation, time_guard
from vf.sps import lib_call as sut      # vf.core.sut with the (possibly 1000-deep) exception chain cut

PROPERTY_ID = "C09"
RULE = ("Hypothesis-generated platform geometries over the whole quantifier range (bottom joint radius 0.2..2, ratio "
        "0.3..1, spacings 5..40 deg, thickness <=10% radius, min leg 0.8..1.5 radii, stroke 1.5..2x, both handedness "
        "values, mass on every range end) built through newSP / loadSP (JSON temp file) / makeSP at arbitrary base "
        "poses, optionally moved and re-spun (operation list in the case); relative poses inside the stated box "
        "(lateral <=20% h, height +-15% h, rotation-vector components <=0.3) with mass on box faces/corners, zero and "
        "tiny components. Non-trivial: relative pose with >=2 non-zero rotation components and lateral offset >=2% h, "
        "or a platform that was moved or spun; distinct by digest of the whole case.")
ASSUMPTIONS = [
    "plate-fixed joint coordinates are read from getBottomJoints/getTopJoints/getBottomT/getTopT BEFORE the call and "
    "transformed back with the independent SE(3) toolkit (vf/oracle.py); they must also have the radius and z offset "
    "named by the constructor parameters (1e-9 relative)",
    "a pose handed to the library is a tm; 'the requested pose' is the 4x4 that tm holds (tm conversions are C03/C04)",
    "'inside the workspace (accepted without corrective action)' is decided by the harness: oracle leg lengths inside "
    "[min,max] and every enabled constraint satisfied with a margin of 1e-4 h (1e-3 rad), IK returned valid=True and left "
    "bit-exactly the requested poses in place; the library's validation_error text is not used (DESIGN C09 '!')",
    "'pose within 1e-3 h': every top-plate joint point and the plate origin, carried by the recovered pose (returned "
    "by FK, and getBottomT^-1 getTopT), lies within 1e-3 h of where the goal pose carries it",
    "base / moved poses keep their rotation angle <= pi-1e-3 and cases whose top-plate rotation lands within 2e-5 of a "
    "half turn are skipped and counted (open C01 finding in the library's matrix log, used by move/globalToLocal)",
    "spinCustom is applied only while the platform stands at its neutral relative pose (DESIGN C09 G)",
    "FK calls run under a 30 s runaway guard (fsolve / fallback recursion) -> inconclusive, counted",
    "three proposed open known findings (fk_regions): Raphson runs out of iterations / lands on a second exact root for "
    "top/bottom ratio <= 0.40 under |rotation vector| >= 0.20, and fk_mode=0 (fsolve) returning another exact root of "
    "the leg-length equations; each is recognised by a signature computed from public state (fail_count + plates at "
    "neutral; returned pose reproduces the requested lengths to 0.3e-3 h over the requested base) -- cases are executed "
    "and counted, nothing else is suppressed",
]

warnings.filterwarnings("ignore", message=".*np.dot\\(\\) is faster on contiguous arrays.*")

REL = 1e-9            # relative tolerance of the exact-geometry clauses
FK_TOL = 1e-3         # of the neutral height
GUARD_S = 30
NEAR_PI = 2e-5


def warm():
    sps.warm()


# ------------------------------------------------------------------------------------------ helpers

def _seed(case):
    s = int(case.get("seed", 0))
    np.random.seed(s % (2 ** 32))
    random.seed(s)


def _pnorm(*Ts):
    return max(float(np.linalg.norm(T[:3, 3])) for T in Ts)


def _near_pi(*Ts):
    return any(math.pi - O.angle(T[:3, :3]) < NEAR_PI for T in Ts)


def _label_spec(ctx, spec):
    ctx.label("route " + spec["route"])
    ctx.label("hand %+d" % spec["rot"])
    ctx.label("base identity" if not np.any(spec["base"]) else "base moved")
    ctx.label("ratio %s" % ("=1" if spec["rt"] == spec["rb"] else ("<0.5" if spec["rt"] < 0.5 * spec["rb"] else ">=0.5")))


def _label_shape(ctx, model):
    k = model.h / model.spec["rb"]
    ctx.label("shape " + ("flat: h<lmin/2" if model.h < model.lmin / 2 else
                          ("h/rb<0.6" if k < 0.6 else ("h/rb<1.2" if k < 1.2 else "h/rb>=1.2"))))


def _pose_nontrivial(u):
    u = np.asarray(u, dtype=float)
    return int(np.count_nonzero(u[3:])) >= 2 and math.hypot(u[0], u[1]) >= 0.02


def _label_u(ctx, u):
    u = np.asarray(u, dtype=float)
    nz = int(np.count_nonzero(u[3:]))
    ctx.label("rot comps %d" % nz)
    lat = math.hypot(u[0], u[1])
    ctx.label("lateral %s" % ("0" if lat == 0 else ("<2%" if lat < 0.02 else ">=2%")))
    if (abs(abs(u[0]) - sps.BOX_LAT) < 1e-12 or abs(abs(u[1]) - sps.BOX_LAT) < 1e-12
            or abs(abs(u[2]) - sps.BOX_H) < 1e-12 or np.any(np.abs(np.abs(u[3:]) - sps.BOX_ROT) < 1e-12)):
        ctx.label("on box face")
    if np.any((np.abs(u[3:]) > 0) & (np.abs(u[3:]) < 2e-6)):
        ctx.label("rot comp tiny")


def _check_parameters(model, what):
    """The plate-fixed points are the joints the constructor parameters describe: bottom joints on the circle of the
    bottom joint radius at the bottom joint-plane offset, top joints on theirs."""
    spec = model.spec
    zb = model.b_spec[2, 0]
    zt = model.t_spec[2, 0]
    tol = REL * max(1.0, spec["rb"])
    for name, P, r, z in (("bottom", model.b, spec["rb"], zb), ("top", model.t, spec["rt"], zt)):
        rad = np.hypot(P[0], P[1])
        if not np.all(np.isfinite(P)):
            raise Violation("%s: %s plate-fixed joint coordinates are not finite" % (what, name))
        if np.abs(rad - r).max() > tol:
            raise Violation("%s: %s joints lie at radius %s, constructor was given joint radius %.17g"
                            % (what, name, np.array2string(rad, precision=12), r))
        if np.abs(P[2] - z).max() > tol:
            raise Violation("%s: %s joints lie at plate-frame z=%s, parameters give %.17g"
                            % (what, name, np.array2string(P[2], precision=12), z))


def _check_plate_fixed(sp, model, what, extra_scale=0.0):
    """Read the plate-fixed coordinates now (before the call under test) and insist they are still the ones the
    platform was built / re-spun with: that is what 'plate-fixed' means."""
    b, t = sps.read_plate_coords(sp)
    tol = 1e-9 * max(1.0, model.scale, extra_scale)
    for name, now, ref in (("bottom", b, model.b), ("top", t, model.t)):
        if now.shape != (3, 6) or not np.all(np.isfinite(now)):
            raise Violation("%s: %s joint getter returned shape %s / non-finite" % (what, name, now.shape))
        d = np.abs(now - ref).max()
        if d > tol:
            raise Violation("%s: %s joints moved in their own plate frame by %.3g (tol %.3g)" % (what, name, d, tol))
    return b, t


def _lengths(L, what):
    L = np.asarray(L, dtype=float)
    if L.size != 6:
        raise Violation("%s: %d lengths returned" % (what, L.size))
    L = L.reshape(6)
    if not np.all(np.isfinite(L)):
        raise Violation("%s: non-finite lengths %s" % (what, L))
    return L


def _cmp_lengths(L, Lo, tol, what):
    d = np.abs(L - Lo)
    if d.max() > tol:
        i = int(d.argmax())
        raise Violation("%s: leg %d has length %.15g, joint-to-joint distance is %.15g (|diff| %.3g > tol %.3g)"
                        % (what, i, L[i], Lo[i], d[i], tol))


def _apply_ops(sp, model, ops, ctx):
    """Interpret the operation list (moves / spins at the neutral relative pose); keeps the model in step."""
    moved = spun = False
    for op in ops:
        if op["op"] == "move":
            T = O.pose_from_taa(op["pose"])
            rel_before = O.inv(model.T_bot) @ model.T_top
            new_base = sps.make_tm(T, op.get("form", "taa"))
            T_req = sps.held(new_base)
            sut(sp.move, new_base)
            moved = True
            if op.get("form") == "taa_wound":
                ctx.label("moved to a base written with a rotation vector beyond one revolution")
            Tb_now, Tt_now = sps.read_poses(sp)
            # "Move entire stewart platform to another location and orientation": the base stands at the pose given,
            # the top plate keeps its pose relative to it (the moves of these clauses happen at the neutral pose)
            e_b = _pose_err(model, Tb_now, T_req)
            e_r = _pose_err(model, O.inv(Tb_now) @ Tt_now, rel_before)
            big = max(1.0, model.scale, _pnorm(T_req))
            # the base is stored as given (1e-9); the relative pose goes through the library's log/exp, whose
            # resolution near zero angles is the 5e-6 of the tolerance policy
            if e_b > 1e-9 * big or e_r > 5e-6 * big:
                raise Violation("after move(%s) the base is %.3g from the pose given (limit %.3g) and the relative plate "
                                "pose changed by %.3g (limit %.3g)" % (op.get("form", "taa"), e_b, 1e-9 * big, e_r, 5e-6 * big))
            model.T_bot, model.T_top = Tb_now, Tt_now
            _check_plate_fixed(sp, model, "after move", _pnorm(model.T_bot, model.T_top))
        elif op["op"] == "spin":
            sut(sp.spinCustom, float(op["angle"]))
            spun = True
            model.refresh(sp)
        else:
            raise ValueError(op)
    return moved, spun


def _pose_err(model, T_got, T_goal):
    """Largest displacement of a point of the top plate (its six joints and its origin)."""
    P = np.hstack([model.t, np.zeros((3, 1))])
    d = (T_got[:3, :3] @ P + T_got[:3, 3:4]) - (T_goal[:3, :3] @ P + T_goal[:3, 3:4])
    return float(np.sqrt((d * d).sum(axis=0)).max())


LEN_TOL = 1e-5        # the library's own acceptance of an FK solution: every leg length within 1e-5 of the request


def _pose_sensitivity(model, T_bot, T_top):
    """Upper bound on the displacement of a top-plate point per unit of leg-length error (worst sign pattern over
    the six legs), from the oracle's own leg-length Jacobian at the goal pose.  'Recovers the pose to solver
    tolerance': the solvers' tolerance is on the LENGTHS; what that leaves for the pose is this factor times it, and
    near a singular configuration (one leg-length combination hardly moves the plate) the factor is large."""
    hh = 1e-6 * max(1.0, model.scale)
    J = np.zeros((6, 6))
    for i in range(6):
        e = np.zeros(6)
        e[i] = hh if i < 3 else 1e-6
        Dp, Dm = O.pose_from_taa(e), O.pose_from_taa(-e)
        J[:, i] = (sps.oracle_leg_lengths(model, T_bot, T_top @ Dp) - sps.oracle_leg_lengths(model, T_bot, T_top @ Dm)) / (2 * e[i])
    try:
        Ji = np.linalg.inv(J)
    except np.linalg.LinAlgError:
        return float("inf")
    P = np.hstack([model.t, np.zeros((3, 1))])
    worst = 0.0
    for k in range(P.shape[1]):
        p = P[:, k]
        M = np.hstack([np.eye(3), -np.array([[0, -p[2], p[1]], [p[2], 0, -p[0]], [-p[1], p[0], 0]])])   # x -> v + w x p
        worst = max(worst, float(np.sqrt(((M @ Ji) ** 2).sum(axis=0)).sum()))
    return worst


def _decade(x, unit):
    if x == 0:
        return "0"
    return "1e%d" % math.floor(math.log10(x / unit))


# ------------------------------------------------------------------------------------------ clause: IK exact

def c_ik_exact(case, ctx):
    """IK(top, bottom) returns the six distances between corresponding plate-fixed joint points."""
    _seed(case)
    spec = case["spec"]
    sp, model = sps.build_sp(spec)
    _label_spec(ctx, spec)
    _label_shape(ctx, model)
    _check_parameters(model, "after construction")
    moved, spun = _apply_ops(sp, model, case["ops"], ctx)
    spun = spun or spec.get("spin") is not None
    if spun:
        _check_parameters(model, "after spinCustom")
    ctx.label("moved" if moved else "not moved")
    ctx.label("spun" if spun else "not spun")
    u = case["u"]
    _label_u(ctx, u)
    ctx.nontrivial(_pose_nontrivial(u) or moved or spun)

    cur_bot = model.T_bot
    if case["bot"] is None:
        T_bot = cur_bot
        bot_tm = None
        ctx.label("bottom: current")
    else:
        T_bot = O.pose_from_taa(case["bot"])
        bot_tm = sps.make_tm(T_bot, case["bot_form"])
        T_bot = sps.held(bot_tm)
        ctx.label("bottom: given " + case["bot_form"])
    top_tm = sps.make_tm(T_bot @ sps.rel_T(model, u), case["top_form"])
    T_top = sps.held(top_tm)
    ctx.label("top: " + case["top_form"])
    top_omitted = bool(case.get("top_omitted")) and bot_tm is not None
    if top_omitted:
        # IK(bottom_plate_pos=B) alone: the top plate is the one the platform has (where it stands now); the pair
        # asked about is (B, current top)
        T_top = model.T_top.copy()
        ctx.label("top: left out (bottom plate given alone)")
    if _near_pi(T_bot, T_top):
        ctx.skip("plate rotation within 2e-5 of a half turn (open C01 finding in the matrix log)")

    big = _pnorm(T_bot, T_top, cur_bot)
    _check_plate_fixed(sp, model, "before IK", big)        # coordinates read BEFORE the call
    Lo = sps.oracle_leg_lengths(model, T_bot, T_top)
    ws = sps.in_workspace(model, T_bot, T_top)
    ctx.label("workspace: " + ("inside" if ws else ws.reason))
    ctx.label("protect" if case["protect"] else "validate")

    with time_guard(GUARD_S):
        if top_omitted:
            ret = sut(sp.IK, bottom_plate_pos=bot_tm, protect=case["protect"])
        else:
            ret = sut(sp.IK, top_tm, bot_tm, case["protect"])
    if not (isinstance(ret, tuple) and len(ret) == 2):
        raise Violation("IK returned %r, not (lengths, valid)" % (type(ret),))
    L = _lengths(ret[0], "IK")
    tol = REL * max(float(Lo.max()), big)
    _cmp_lengths(L, Lo, tol, "IK")
    ctx.label("valid=%s" % bool(ret[1]))


# ------------------------------------------------------------------------------------------ clause: invariance

def c_ik_invariance(case, ctx):
    """IK(X Tb, X Tt) = IK(Tb, Tt) for any rigid motion X."""
    _seed(case)
    spec = case["spec"]
    sp, model = sps.build_sp(spec)
    _label_spec(ctx, spec)
    _label_shape(ctx, model)
    ctx.label("spun" if spec.get("spin") is not None else "not spun")
    u = case["u"]
    _label_u(ctx, u)
    X = np.asarray(case["X"], dtype=float)
    ang = O.angle(X[:3, :3])
    ctx.label("X angle %s" % ("0" if ang == 0 else ("<1e-6" if ang < 1e-6 else ("~pi" if math.pi - ang < 1e-3 else "generic"))))
    ctx.label("X |p| %s" % _decade(float(np.linalg.norm(X[:3, 3])), 1.0))
    ctx.nontrivial(ang >= 1e-6 and np.linalg.norm(X[:3, 3]) > 0 and (_pose_nontrivial(u) or spec.get("spin") is not None))

    T_bot = model.T_bot if case["bot"] is None else O.pose_from_taa(case["bot"])
    T_top = T_bot @ sps.rel_T(model, u)
    T_bot2, T_top2 = X @ T_bot, X @ T_top
    # both requests are made with exactly-held matrices, so the two pairs differ by one rigid motion up to rounding
    with time_guard(GUARD_S):
        L1 = _lengths(sut(sp.IK, sps.make_tm(T_top), sps.make_tm(T_bot), case["protect"])[0], "IK(Tb,Tt)")
    if case["fresh"]:
        sp2, _m2 = sps.build_sp(spec)
        ctx.label("second call: fresh platform")
    else:
        sp2 = sp
        ctx.label("second call: same platform")
    with time_guard(GUARD_S):
        L2 = _lengths(sut(sp2.IK, sps.make_tm(T_top2), sps.make_tm(T_bot2), case["protect"])[0], "IK(XTb,XTt)")
    big = _pnorm(T_bot, T_top, T_bot2, T_top2)
    tol = REL * max(float(L1.max()), big)
    d = np.abs(L1 - L2)
    if d.max() > tol:
        i = int(d.argmax())
        raise Violation("IK not invariant under a common rigid motion: leg %d %.15g vs %.15g (|diff| %.3g > %.3g)"
                        % (i, L1[i], L2[i], d[i], tol))
    _cmp_lengths(L2, sps.oracle_leg_lengths(model, T_bot2, T_top2), tol, "IK(XTb,XTt)")


# ------------------------------------------------------------------------------------------ clauses: FK inverts IK

def _fk_roundtrip(case, ctx):
    _seed(case)
    spec = case["spec"]
    sp, model = sps.build_sp(spec)
    _label_spec(ctx, spec)
    _label_shape(ctx, model)
    moved, spun = _apply_ops(sp, model, case["ops"], ctx)
    spun = spun or spec.get("spin") is not None
    ctx.label("moved" if moved else "not moved")
    ctx.label("spun" if spun else "not spun")
    mode = int(case["fk_mode"])
    ctx.label("fk_mode %d" % mode)
    switches = tuple(int(s) for s in case["switches"])
    ctx.label("switches %s" % (switches,))
    h = model.h

    T_bot = model.T_bot
    # pick the largest of u, u/2, u/4 that lies in the workspace: valid inputs by construction, not by rejection
    u0 = np.asarray(case["u"], dtype=float)
    ws = None
    for k, f in enumerate((1.0, 0.5, 0.25)):
        u = u0 * f
        top_tm = sps.make_tm(T_bot @ sps.rel_T(model, u), case["top_form"])
        T_top = sps.held(top_tm)
        ws = sps.in_workspace(model, T_bot, T_top, switches)
        if ws:
            ctx.label("pose scale 1/%d" % (2 ** k))
            break
    if not ws:
        ctx.skip("outside the workspace even at u/4: " + ws.reason)
    if _near_pi(T_bot, T_top):
        ctx.skip("plate rotation within 2e-5 of a half turn (open C01 finding in the matrix log)")
    _label_u(ctx, u)
    ctx.nontrivial(_pose_nontrivial(u) or moved or spun)

    sp.validation_settings = [int(s) for s in switches]
    big = _pnorm(T_bot, T_top)
    _check_plate_fixed(sp, model, "before IK", big)
    with time_guard(GUARD_S):
        L, valid = sut(sp.IK, top_tm, None if case["bot_implicit"] else sps.make_tm(T_bot), False)
    L = _lengths(L, "IK")
    _cmp_lengths(L, ws.lengths, REL * max(float(ws.lengths.max()), big), "IK")
    if not valid or not sps.accepted_unchanged(sp, T_bot, T_top):
        # the library did not accept the pose as it stands (flag false, or it rewrote the plates): outside the
        # clause's domain by the property's own wording; counted.  (Whether that refusal is right is C10.)
        ctx.skip("library did not accept a pose the oracle places inside the workspace (valid=%s)" % bool(valid))

    T_bot0, T_top0 = T_bot.copy(), T_top.copy()
    # One pass = reset to neutral, FK, verify.  A second pass ("again") repeats the SAME request after going back to
    # neutral -- with the same or with the other solver: FK is a function of (lengths, fixed plate), whatever was
    # asked before.
    passes = [mode]
    if case.get("again") == "same":
        passes.append(mode)
    elif case.get("again") == "other":
        passes.append(1 - mode)
    if len(passes) > 1:
        ctx.label("FK asked twice (%s solver the second time)" % case["again"])
    for mode in passes:
        T_bot, T_top = T_bot0.copy(), T_top0.copy()
        # reset to neutral, then FK
        sps.reset_neutral(sp, model, T_bot)
        if not sps.accepted_unchanged(sp, T_bot, sps.neutral_top(model, T_bot)):
            raise Violation("protected IK to the neutral pose did not leave the platform at the requested poses")
        Larg = np.array(L, dtype=float).reshape((6, 1) if case["col"] else (6,))
        kw = {"fk_mode": mode}
        if case["plate_pos"]:
            # Only for the Raphson solver (fk_mode 1), which iterates in base-relative coordinates and therefore really
            # does "start from the neutral pose" over the new base.  fk_mode 0 starts scipy's fsolve from the GLOBAL top
            # pose it finds, which for a displaced base is not the neutral pose of the statement: not generated.
            if case.get("pp_x") is not None:
                X = O.pose_from_taa(np.asarray(case["pp_x"], dtype=float))
                T_bot, T_top = X @ T_bot, X @ T_top          # what FK is now asked to assemble
                ctx.label("plate_pos given, different from the current base")
                ctx.nontrivial(True)
            else:
                ctx.label("plate_pos given")
            kw["plate_pos"] = sps.make_tm(T_bot)
        if case["mode_attr"]:
            sp.fk_mode = mode
            kw.pop("fk_mode")
        with time_guard(GUARD_S):
            ret = sut(sp.FK, Larg, **kw)
        if not (isinstance(ret, tuple) and len(ret) == 2):
            raise Violation("FK returned %r, not (pose, valid)" % (type(ret),))
        top_ret = sps.held(ret[0])
        Tb_now, Tt_now = sps.read_poses(sp)
        tol_len = FK_TOL * h
        amp = _pose_sensitivity(model, T_bot, T_top)
        tol = max(tol_len, amp * LEN_TOL)
        if tol > tol_len:
            ctx.label("ill-conditioned pose: a 1e-5 length error moves the plate by more than 1e-3 h (pose tolerance = sensitivity x 1e-5)")
            if tol > 0.05 * h:
                ctx.skip("singular configuration: leg lengths to 1e-5 leave the pose undetermined to more than 0.05 h")
        if not (np.all(np.isfinite(top_ret)) and np.all(np.isfinite(Tt_now)) and np.all(np.isfinite(Tb_now))):
            raise Violation("FK(mode %d) produced non-finite poses" % mode)
        e_ret = _pose_err(model, top_ret, T_top)
        e_state = _pose_err(model, O.inv(Tb_now) @ Tt_now, O.inv(T_bot) @ T_top)
        e_top = _pose_err(model, Tt_now, T_top)
        Lnow = _lengths(sut(sp.getLens), "getLens")
        e_len = float(np.abs(Lnow - L).max())
        e_bot = _pose_err(model, Tb_now, T_bot)
        ctx.label("fk err/h " + _decade(max(e_ret, e_state, e_top, e_len, 1e-300), h))
        ctx.label("FK valid=%s" % bool(ret[1]))
        fails = int(getattr(sp, "fail_count", 0) or 0)
        if fails:
            ctx.label("solver fail_count>0")
        # signature of "the Raphson solver ran out of iterations and put the platform back to neutral" (public fail_count
        # attribute + the plates standing exactly at neutral): named in the message so that the known-finding region
        # predicate can be as narrow as that defect
        tag = ""
        if fails and _pose_err(model, Tt_now, sps.neutral_top(model, T_bot)) <= 1e-9 * max(1.0, model.scale, big):
            low = min(h, float(ws.T_rel[2, 3])) < 0.5 * model.lmin * (1 + 1e-6)     # where the (fixed) height clamp bit
            tag = "[raphson-gave-up ratio=%.6f rot=%.6f flat=%d] " % (
                model.spec["rt"] / model.spec["rb"], float(np.linalg.norm(u[3:])), int(low))
        # signature of "FK returned ANOTHER root of the leg-length equations" (a different assembly mode): the returned pose
        # is off, yet over the requested base it reproduces the requested lengths (oracle distances) far inside the pose
        # tolerance.  No solver-tolerance, frame or bookkeeping error looks like that.
        elif e_ret > tol:
            d_root = float(np.abs(sps.oracle_leg_lengths(model, T_bot, top_ret) - L).max())
            if d_root <= 0.3 * tol:
                tag = "[other-fk-root mode=%d ratio=%.6f rot=%.6f dlen=%.2e] " % (
                    mode, model.spec["rt"] / model.spec["rb"], float(np.linalg.norm(u[3:])), d_root)
        msg = "%sFK(mode %d, h=%.4g, tol=%.3g)" % (tag, mode, h, tol)
        if e_bot > tol:
            raise Violation("%s: getBottomT() is %.3g from the fixed-plate pose FK was given" % (msg, e_bot))
        if e_ret > tol:
            raise Violation("%s: returned pose is %.3g from the goal pose (largest displacement of a top-plate point)"
                            % (msg, e_ret))
        if e_top > tol:
            raise Violation("%s: getTopT() is %.3g from the goal pose" % (msg, e_top))
        if e_state > tol:
            raise Violation("%s: getBottomT()^-1 getTopT() is %.3g from the goal relative pose" % (msg, e_state))
        if e_len > tol_len:
            raise Violation("%s: getLens() differs from the requested lengths by %.3g" % (msg, e_len))


_TAG = re.compile(r"\[raphson-gave-up ratio=([0-9.]+) rot=([0-9.]+) flat=(\d)\]")
_TAG2 = re.compile(r"\[other-fk-root mode=(\d) ratio=([0-9.]+) rot=([0-9.]+) dlen=([0-9.e+-]+)\]")


def fk_regions(case, message):
    """Proposed open known finding C09-raphson-inexact-jacobian: SPFKinSpaceR's orientation columns are Euler-angle
    partials although the unknowns are a rotation vector; the iteration is then not locally convergent for a small top
    plate under a large tilt, runs out of iterations and FK silently returns the neutral pose.  Region: the solver gave
    up (signature above) AND top/bottom radius ratio <= 0.40 AND |rotation vector| >= 0.20 AND neither the neutral
    nor the goal height is below leg_ext_min/2 ('flat=0'; below it is the separate, fixed, height-clamp defect)."""
    spec = case["spec"]
    ratio = spec["rt"] / spec["rb"]
    umax = float(np.linalg.norm(np.asarray(case["u"], dtype=float)[3:])) + 1e-6
    m = _TAG.search(message)
    if m:
        rot = float(m.group(2))
        # tilt threshold 0.20: measured extent of the defect (ratio 0.3, joint spacing 40 deg gives up from a tilt of
        # ~0.23 on; no give-up was found at <= 0.22 over ratios 0.3..0.5 x spacings 5..40 deg x both tilt axes)
        if rot <= umax and ratio <= 0.40 and rot >= 0.20 and m.group(3) == "0":
            return "raphson_small_top_large_tilt"
        return None
    m = _TAG2.search(message)
    if m:
        mode, rot = int(m.group(1)), float(m.group(3))
        allowed = {int(case["fk_mode"])}
        if case.get("again") == "other":
            allowed.add(1 - int(case["fk_mode"]))       # the second pass of the case runs the other solver
        if mode not in allowed or rot > umax:
            return None
        # proposed open known finding C09-fsolve-other-assembly-mode: fk_mode=0 hands the six length equations to
        # scipy's fsolve in global rotation-vector coordinates; the equations have many roots and now and then it
        # converges to another one (mirror image below the base, twisted or flipped top plate), which the
        # library's post-checks do not always reject.  Region: fk_mode 0 AND the returned pose is an exact root.
        if mode == 0:
            return "fsolve_other_root"
        # proposed open known finding C09-raphson-other-assembly-mode: with a small top plate the orientation is weakly
        # determined by the legs; at the box corner of the ratio-0.3 geometries a second exact solution lies 0.015 from
        # the goal and Newton from neutral lands on it.  Region: fk_mode 1 AND exact root AND ratio <= 0.40 AND
        # |rotation vector| >= 0.20.
        if ratio <= 0.40 and rot >= 0.20:
            return "raphson_other_root_small_top_large_tilt"
    return None


# ------------------------------------------------------------------------------------------ strategies

_FORMS = st.sampled_from(["mat", "taa"])
_SEED = st.integers(0, 2 ** 32 - 1)
_SWITCHES = st.sampled_from([(1, 0, 0, 1), (1, 0, 0, 1), (1, 1, 1, 1), (1, 1, 0, 1), (1, 0, 0, 0), (0, 0, 0, 0)])


def _move_op():
    return st.fixed_dictionaries({"op": st.just("move"), "pose": sps.base_poses(),
                                  "form": st.sampled_from(["mat", "taa", "taa", "taa_wound"])})


def _spin_op():
    return st.fixed_dictionaries({"op": st.just("spin"), "angle": sps.spin_angles()})


@st.composite
def _ops(draw, need=None, max_ops=3):
    """Operation lists: moves and spins in any order; `need` forces at least one op of that kind."""
    if need == "move_only":
        return draw(st.lists(_move_op(), min_size=1, max_size=max_ops))
    if need == "spin":
        ops = draw(st.lists(st.one_of(_move_op(), _spin_op()), min_size=0, max_size=max_ops - 1))
        ops.insert(draw(st.integers(0, len(ops))), draw(_spin_op()))
        return ops
    return draw(st.lists(st.one_of(_move_op(), _spin_op()), min_size=0, max_size=max_ops))


def _ik_cases():
    return st.fixed_dictionaries({
        "spec": sps.sp_specs(),
        "ops": _ops(max_ops=2),
        "u": sps.rel_poses(),
        "bot": st.one_of(st.none(), sps.base_poses()),
        "bot_form": _FORMS, "top_form": _FORMS,
        "protect": st.booleans(),
        "top_omitted": st.sampled_from([False, False, False, True]),
        "seed": _SEED,
    })


def _inv_cases():
    return st.fixed_dictionaries({
        "spec": sps.sp_specs(),
        "u": sps.rel_poses(),
        "bot": st.one_of(st.none(), sps.base_poses()),
        "X": G.se3s(maxnorm=100.0),
        "protect": st.booleans(),
        "fresh": st.booleans(),
        "seed": _SEED,
    })


def _fk_cases(kind):
    if kind == "fresh":
        spec, ops = sps.sp_specs(spin=False), st.just([])
    elif kind == "moved":
        spec, ops = sps.sp_specs(spin=False), _ops(need="move_only", max_ops=2)
    else:
        spec, ops = sps.sp_specs(spin=True), _ops(need="spin", max_ops=3)
    return st.fixed_dictionaries({
        "spec": spec, "ops": ops,
        "u": sps.rel_poses(),
        "fk_mode": st.sampled_from([1, 0]),
        "mode_attr": st.booleans(),
        "switches": _SWITCHES,
        "top_form": _FORMS,
        "bot_implicit": st.booleans(),
        "plate_pos": st.booleans(),
        # when the fixed plate is passed explicitly it may also differ from where the platform stands: FK then has to
        # assemble the platform over THAT base (X . T_bot), i.e. recover X . T_top
        "pp_x": st.one_of(st.none(), st.none(), G.taas(maxnorm=3.0, maxang=2.0)),
        "again": st.sampled_from([None, None, None, "same", "other"]),
        "col": st.booleans(),
        "seed": _SEED,
    })


CLAUSES = [
    Clause("ik_exact_geometry", c_ik_exact, _ik_cases(), 300, 8000),
    Clause("ik_rigid_motion_invariance", c_ik_invariance, _inv_cases(), 200, 6000),
    Clause("fk_inverts_ik", _fk_roundtrip, _fk_cases("fresh"), 400, 12000, region=fk_regions),
    Clause("fk_inverts_ik_moved", _fk_roundtrip, _fk_cases("moved"), 400, 12000, region=fk_regions),
    Clause("fk_inverts_ik_spun", _fk_roundtrip, _fk_cases("spun"), 400, 12000, region=fk_regions),
]
