"""C11 -- Stewart platform: inverse Jacobian = d(leg lengths)/d(spatial twist); leg forces balance the load
(sp_model.SP.inverseJacobian / carryMassCalc / sumActuatorWrenches, robot_model.Robot.staticForces*).

Conventions established from the code (and measured, see notes/C11.md):

* `SP.inverseJacobian()` is 6x6, row i = [q_i x n_i ; n_i] with q_i the i-th BOTTOM joint position and n_i the unit
  vector from bottom joint i to top joint i, both in the SPACE frame.  It multiplies a SPATIAL twist of the top
  plate in Modern-Robotics order V = [w ; v] (v = velocity of the body point that instantaneously sits at the space
  origin): leg rate_i = n_i . (v + w x t_i) = [t_i x n_i ; n_i] . V and t_i x n_i = q_i x n_i because t_i = q_i + L n_i.
* `Wrench.data` is [moment about the frame origin ; force] (6,1).  `staticForces(W)` = pinv(invJ)^T W ignores the
  wrench's frame tag: W is the wrench APPLIED TO THE TOP PLATE, expressed in the space frame; the returned (6,1) f are
  the compressive leg forces that carry it: sum_i f_i [q_i x n_i ; n_i] = W.
* `sumActuatorWrenches(f)` sums -f_i n_i applied at top joint t_i: the wrench the legs pass on to the BASE, = -W.
* body interface: `jacobianBody = Ad(T_top^-1) jacobian`, W_b is expressed in the top-plate frame,
  W_s = Ad(T_top^-1)^T W_b.
* `carryMassCalc(W)[0]` = staticForces(W + top-plate weight at the top-plate origin + 6 shaft weights), shaft COG =
  top joint - shaft_grav_center * n_i (`getActuatorLoc(i,'t')`, newSP's docstring: "inline CG distance from top
  joint"); weight = mass * self.grav, grav = the `grav` argument of setMasses (default [0,0,-9.81], a SPACE-frame
  vector whatever the base pose); top-plate mass = setMasses' top_plate_mass, or plate_mass_general when that is 0.
"""
import math
import warnings

import numpy as np
from hypothesis import strategies as st

from vf import gen as G
from vf import oracle as O
from vf import sps
from vf.core import Clause, Violation, time_guard
from vf.sps import lib_call as sut      # vf.core.sut with the exception chain cut (see vf/sps.py)

PROPERTY_ID = "C11"
RULE = ("C09 platform geometries (vf/sps.py: newSP / loadSP / makeSP over the whole parameter box, both handedness "
        "values, optional spinCustom) with masses and COG distances, at C09 base poses plus a quarter of the cases "
        "3..10 m from the space origin, optionally moved once more; relative poses from the stated box, scaled by "
        "1, 1/2, 1/4 until the oracle places them inside the workspace, condition number of the (oracle's) inverse "
        "Jacobian <= 1e4; the pose is either put on the platform with IK (and must be accepted unchanged) or handed "
        "to the function as explicit top/bottom arguments; spatial twists [w;v] drawn in the space frame or in the "
        "top-plate frame (carried over by the oracle's Ad); wrenches [m;f] about the space origin or about the "
        "top-plate origin, generic / pure force / pure moment / vertical / zero, |W| 1e-3..1e4 with mass in every decade. "
        "Non-trivial: base pose not the identity AND (wrench with non-zero lateral force and non-zero moment | twist "
        "with non-zero angular and linear part); distinct by digest of the whole case.")
ASSUMPTIONS = [
    "plate-fixed joint coordinates come from the C09 fixture (read through public getters at the neutral pose); joint "
    "positions at the evaluated pose are those coordinates carried by the held 4x4 poses with the independent toolkit",
    "a pose handed to the library is a tm; 'the pose' is the 4x4 that tm holds; a wrench handed to the library is a "
    "Wrench and 'the applied wrench' is the (6,1) data it holds before the call (Wrench construction is C12)",
    "inside the workspace / accepted unchanged is decided as in C09 (oracle leg lengths and constraints with margins, "
    "IK valid and poses left bit-exact); non-singular = cond_2 of the oracle's own inverse Jacobian <= 1e4",
    "derivative: 3-level Richardson central differences (vf.oracle.richardson, steps 1e-3, 5e-4, 2.5e-4 >= 1e-4) of the "
    "oracle's joint-to-joint distances along exp([V^]h) T_top built with the oracle's exp6; V^ = V/sigma with sigma "
    "chosen so that no top joint moves faster than one neutral height per unit h and |w^| <= 1 (keeps the truncation "
    "error ~1e-15); compared at 1e-6 |J|_2 |V|; on half of the cases also differentiated through the library's IK",
    "equilibrium tolerance 1e-8 * (|W| resp. |W| + sum of the |weight wrenches| for the mass-carrying variant)",
    "body clause: W_b -> W_s = Ad(T_top^-1)^T W_b with the oracle's Ad; space-side comparisons at 1e-8 max(|W_s|,|W_b|), "
    "the body round trip at 1e-8 |W_b|",
    "gravity: any non-zero vector given to setMasses (zero gravity makes sumActuatorWrenches divide 0/0; not quantified "
    "by the property, reported as an observation)",
    "top-plate rotation within 2e-5 of a half turn: skipped and counted (open C01 finding in the matrix log)",
]

warnings.filterwarnings("ignore", message=".*np.dot\\(\\) is faster on contiguous arrays.*")

DERIV_TOL = 1e-6
EQ_TOL = 1e-8
COND_MAX = 1e4
NEAR_PI = 2e-5
GUARD_S = 30
G0 = np.array([0.0, 0.0, -9.81])


def warm():
    sps.warm()
    from basic_robotics.general import Wrench
    spec = {"route": "newSP", "rb": 0.9, "rt": 0.5, "sb": 9.0, "st": 25.0, "tb": 0.05, "tt": 0.02,
            "lmin": 0.9, "lmax": 1.6, "rot": 1, "alt_rot": 0.0, "base": np.array([0.5, -0.2, 0.3, 0.4, -0.2, 0.3]),
            "spin": None, "max_dev": 55.0,
            "masses": {"plate_bot": 3.0, "plate_top": 2.0, "shaft": 0.7, "motor": 1.1, "motor_cog": 0.2,
                       "shaft_cog": 0.15}}
    sp, model = sps.build_sp(spec)
    W = Wrench(np.array([1.0, -2, 3, 4, 5, -6]))
    f = sp.staticForces(W)
    sp.staticForcesInv(f)
    sp.sumActuatorWrenches(f)
    sp.staticForcesInvBody(sp.staticForcesBody(W))
    sp.carryMassCalc(W)
    sp.velocityAtJoints(np.arange(6.0))


# ------------------------------------------------------------------------------------------ small helpers

def _lib():
    from basic_robotics.general import Wrench, fsr, tm
    return Wrench, fsr, tm


def _unit_cols(M):
    return M / np.sqrt((M * M).sum(axis=0))


def _rows(q, t):
    """(6,6): row i = [q_i x n_i ; n_i] from joint positions (3,6)."""
    n = _unit_cols(t - q)
    return np.hstack([np.cross(q.T, n.T), n.T]), n


def _vec6(x, what):
    """Library result -> (6,) float array; Wrench/Screw objects through their data."""
    d = getattr(x, "data", x)
    a = np.asarray(d, dtype=float)
    if a.size != 6:
        raise Violation("%s: returned %d numbers (type %s), expected 6" % (what, a.size, type(x).__name__))
    a = a.reshape(6)
    if not np.all(np.isfinite(a)):
        raise Violation("%s: non-finite result %s" % (what, a))
    return a


def _close(got, want, tol, what):
    d = np.abs(np.asarray(got, dtype=float) - np.asarray(want, dtype=float))
    if not np.all(np.isfinite(d)) or d.max() > tol:
        raise Violation("%s: got %s, expected %s (max |diff| %.3g > tol %.3g)"
                        % (what, np.array2string(np.asarray(got), precision=10),
                           np.array2string(np.asarray(want), precision=10), float(np.nanmax(d)), tol))


def _decade(x):
    return "0" if x == 0 else "1e%d" % math.floor(math.log10(x))


def _point_wrench(p, F):
    """[p x F ; F]: wrench about the origin of a force F acting at point p."""
    return np.concatenate([np.cross(p, F), F])


# ------------------------------------------------------------------------------------------ common set-up

class _Env:
    pass


def _setup(case, ctx, mode=None):
    """Build the platform, bring it (or the explicit arguments) to the pose of the case; decide the domain.
    mode: "state" (pose put on the platform with IK) | "args" (pose handed over as explicit top/bottom arguments while
    the platform stands at its neutral pose) | None (as drawn in the case)."""
    spec = case["spec"]
    sp, model = sps.build_sp(spec)
    ctx.label("route " + spec["route"])
    ctx.label("hand %+d" % spec["rot"])
    ctx.label("spun" if spec.get("spin") is not None else "not spun")
    moved = case.get("move") is not None
    if moved:
        sut(sp.move, sps.make_tm(O.pose_from_taa(case["move"]), "taa"))
        model.T_bot, model.T_top = sps.read_poses(sp)
    ctx.label("moved" if moved else "not moved")

    mode = case["mode"] if mode is None else mode
    ctx.label("pose via " + mode)
    bot_tm = None
    T_bot = model.T_bot
    if mode == "args":
        if case.get("bot") is not None:
            bot_tm = sps.make_tm(O.pose_from_taa(case["bot"]), case["bot_form"])
            ctx.label("args: other base")
        else:
            bot_tm = sps.make_tm(T_bot, "mat")
        T_bot = sps.held(bot_tm)
    elif not case.get("bot_implicit", True):
        bot_tm = sps.make_tm(T_bot, "mat")

    base_id = np.array_equal(T_bot, np.eye(4))
    pn = float(np.linalg.norm(T_bot[:3, 3]))
    ctx.label("base " + ("identity" if base_id else ("|p|<1" if pn < 1 else ("|p|<3" if pn < 3 else "|p|>=3"))))

    u0 = np.asarray(case["u"], dtype=float)
    ws = top_tm = T_top = None
    for k, f in enumerate((1.0, 0.5, 0.25)):
        top_tm = sps.make_tm(T_bot @ sps.rel_T(model, u0 * f), case["top_form"])
        T_top = sps.held(top_tm)
        ws = sps.in_workspace(model, T_bot, T_top)
        if ws:
            ctx.label("pose scale 1/%d" % (2 ** k))
            break
    if not ws:
        ctx.skip("outside the workspace even at u/4: " + ws.reason)
    if math.pi - O.angle(T_top[:3, :3]) < NEAR_PI or math.pi - O.angle(T_bot[:3, :3]) < NEAR_PI:
        ctx.skip("plate rotation within 2e-5 of a half turn (open C01 finding in the matrix log)")
    ctx.label("pose " + ("neutral" if not np.any(u0) else ("%d rot comps" % int(np.count_nonzero(u0[3:])))))

    q, t = sps.oracle_joints_space(model, T_bot, T_top)
    Jo, n = _rows(q, t)
    cond = float(np.linalg.cond(Jo))
    ctx.label("cond " + _decade(cond))
    if not cond <= COND_MAX:
        ctx.skip("condition number of the inverse Jacobian > 1e4")

    if mode == "state":
        with time_guard(GUARD_S):
            L, valid = sut(sp.IK, top_tm, bot_tm, False)
        if not valid or not sps.accepted_unchanged(sp, T_bot, T_top):
            ctx.skip("library did not accept a pose the oracle places inside the workspace (valid=%s)" % bool(valid))
        pargs = ()
        if case.get("pre_query") is not None:
            # history: a Jacobian query at ANOTHER, explicitly given pose comes first; it is a pure query, so the
            # platform must still stand at (T_bot, T_top) afterwards and every later no-argument call refers to it
            u2 = np.asarray(case["pre_query"], dtype=float) * 0.5
            other_top = sps.make_tm(T_bot @ sps.rel_T(model, u2), "mat")
            kw2 = {"top_plate_pos": other_top}
            if case.get("pre_query_bottom"):
                kw2["bottom_plate_pos"] = sps.make_tm(T_bot, "mat")
            with time_guard(GUARD_S):
                sut(sp.inverseJacobian, **kw2)
            ctx.label("explicit-pose query first")
            if not sps.accepted_unchanged(sp, T_bot, T_top):
                raise Violation("inverseJacobian at an explicitly given pose moved the plates of the platform")
    else:
        pargs = (top_tm, bot_tm)

    e = _Env()
    e.sp, e.model, e.mode, e.pargs = sp, model, mode, pargs
    e.T_bot, e.T_top, e.top_tm, e.bot_tm = T_bot, T_top, top_tm, bot_tm
    e.q, e.t, e.n, e.Jo, e.cond = q, t, n, Jo, cond
    e.base_nonid = not base_id
    return e


def _make_wrench(case, key, p_top, ctx):
    """-> (library Wrench object, applied 6-vector [m;f] about the origin of the frame the interface expects).
    case[key] = {"m","f" (3,), "about": "origin"|"plate", "form": "w6"|"w61"|"make"}: with about="plate" the moment is
    given about the top-plate origin (axes unchanged) and is moved to the frame origin by the harness."""
    Wrench, fsr, tm = _lib()
    w = case[key]
    m = np.asarray(w["m"], dtype=float)
    f = np.asarray(w["f"], dtype=float)
    if w["about"] == "plate" and p_top is not None:
        m = m + np.cross(p_top, f)
        ctx.label("wrench about plate origin")
    else:
        ctx.label("wrench about frame origin")
    form = w["form"]
    if form == "make" and p_top is not None and np.any(f):
        # the callers' idiom: fsr.makeWrench(point, magnitude, direction) -- a pure force at a point near the plate
        off = np.asarray(w["m"], dtype=float)
        pt = p_top + off / (1.0 + float(np.linalg.norm(off)))
        obj = sut(fsr.makeWrench, sut(tm, [float(pt[0]), float(pt[1]), float(pt[2]), 0.0, 0.0, 0.0]), 1.0, f.copy())
        ctx.label("wrench form makeWrench")
    else:
        W6 = np.concatenate([m, f])
        if w.get("whole"):
            # a load typed in whole newtons / newton-metres: an integer-typed array is a wrench like any other
            W6 = np.round(W6).astype(np.int64)
            ctx.label("wrench data integer-typed")
        obj = sut(Wrench, W6.reshape((6, 1)).copy() if form == "w61" else W6.copy())
        ctx.label("wrench form " + ("(6,1)" if form == "w61" else "(6,)"))
    W = np.array(obj.data, dtype=float).reshape(6).copy()
    mm, ff = W[:3], W[3:]
    lateral = bool(np.any(ff[:2]))
    kind = ("zero" if not np.any(W) else "pure moment" if not np.any(ff) else "pure force" if not np.any(mm)
            else "vertical force + moment" if not lateral else "generic")
    ctx.label("wrench " + kind)
    ctx.label("|W| " + _decade(float(np.linalg.norm(W))))
    return obj, W, (lateral and bool(np.any(mm)))


def _forces(ret, what):
    f = np.asarray(ret, dtype=float)
    if f.size != 6:
        raise Violation("%s returned %d numbers, expected six leg forces" % (what, f.size))
    if not np.all(np.isfinite(f)):
        raise Violation("%s returned non-finite leg forces %s" % (what, f.reshape(-1)))
    return f.reshape(6)


def _f_arg(ret, form):
    """Leg forces handed back to the library: the array exactly as staticForces returned it, or a flat copy."""
    return ret if form == "as_returned" else np.array(ret, dtype=float).reshape(6).copy()


def _getter_rows(sp):
    q = np.array(sp.getBottomJoints(), dtype=float, copy=True)
    t = np.array(sp.getTopJoints(), dtype=float, copy=True)
    return _rows(q, t)[0]


# ------------------------------------------------------------------------------------------ clause 1: derivative

def _sigma(V, t, ell):
    """Normalisation of the differentiation direction: afterwards |w| <= 1 and no top joint moves faster than ell."""
    w, v = V[:3], V[3:]
    speeds = np.sqrt(((v[:, None] + np.cross(w, t.T).T) ** 2).sum(axis=0))
    return max(float(np.linalg.norm(w)), float(speeds.max()) / ell)


def _dir_derivative(lengths_at, V, t, ell):
    """d/dh lengths(exp([V]h) T_top) at h=0 by Richardson central differences (steps 1e-3, 5e-4, 2.5e-4 of the
    normalised direction V/sigma)."""
    s = _sigma(V, t, ell)
    if s == 0.0:
        return np.zeros(6)
    Vh = V / s
    d = O.richardson(lambda x: lengths_at(O.exp6(Vh * x[0])), [0.0], 0, 1e-3)
    return s * np.asarray(d, dtype=float)


def c_invjac(case, ctx):
    """leg rates = inverseJacobian . spatial twist, at every non-singular pose and base placement."""
    e = _setup(case, ctx)
    sp, model = e.sp, e.model
    V = np.asarray(case["V"], dtype=float)
    if case["V_frame"] == "top":
        V = O.Ad(e.T_top) @ V
        ctx.label("twist drawn in top frame")
    else:
        ctx.label("twist drawn in space frame")
    hasw, hasv = bool(np.any(V[:3])), bool(np.any(V[3:]))
    ctx.label("twist " + ("zero" if not (hasw or hasv) else "pure translation" if not hasw else
                          "w only" if not hasv else "generic"))
    ctx.label("|V| " + _decade(float(np.linalg.norm(V))))
    ctx.nontrivial(e.base_nonid and hasw and hasv)

    Jret = sut(sp.inverseJacobian, *e.pargs)
    J = np.array(Jret, dtype=float, copy=True)
    if J.shape != (6, 6) or not np.all(np.isfinite(J)):
        raise Violation("inverseJacobian returned shape %s / non-finite entries" % (J.shape,))
    if case.get("keep") is not None and isinstance(Jret, np.ndarray):
        # The caller KEEPS the matrix it was handed for this pose and goes on to ask about another pose (a planner
        # comparing the two): the first matrix is still the inverse Jacobian of the first pose.
        u2 = np.asarray(case["keep"], dtype=float) * 0.5
        other = sps.make_tm(e.T_bot @ sps.rel_T(model, u2), "mat")
        with time_guard(GUARD_S):
            sut(sp.inverseJacobian, top_plate_pos=other, bottom_plate_pos=sps.make_tm(e.T_bot, "mat"))
        ctx.label("matrix kept across a query at another pose")
        if not np.array_equal(np.asarray(Jret, dtype=float), J):
            raise Violation("the inverse Jacobian returned for one pose changed (by up to %.3g) when inverseJacobian was "
                            "asked about another pose" % float(np.abs(np.asarray(Jret, dtype=float) - J).max()))
        if not sps.accepted_unchanged(sp, e.T_bot, e.T_top) and e.mode != "args":
            raise Violation("inverseJacobian at an explicitly given pose moved the plates of the platform")
    rates = _forces(sut(sp.velocityAtJoints, V.copy(), *e.pargs), "velocityAtJoints")

    Jn = float(np.linalg.norm(e.Jo, 2))
    ell = model.h

    def oracle_L(X):
        return sps.oracle_leg_lengths(model, e.T_bot, X @ e.T_top)

    # the whole matrix, column by column (unit twists), then the drawn twist through both library routes
    D = np.column_stack([_dir_derivative(oracle_L, np.eye(6)[k], e.t, ell) for k in range(6)])
    err = np.abs(J - D)
    tolc = DERIV_TOL * Jn
    if err.max() > tolc:
        i, k = np.unravel_index(int(err.argmax()), err.shape)
        raise Violation("inverseJacobian[%d,%d] = %.12g but d(leg %d)/d(twist component %d of [w;v], spatial) = %.12g "
                        "(|diff| %.3g > 1e-6*|J| = %.3g); library row %s, derivative row %s"
                        % (i, k, J[i, k], i, k, D[i, k], err[i, k], tolc,
                           np.array2string(J[i], precision=8), np.array2string(D[i], precision=8)))
    dV = _dir_derivative(oracle_L, V, e.t, ell)
    tol = DERIV_TOL * Jn * float(np.linalg.norm(V))
    _close(J @ V, dV, tol, "inverseJacobian @ V vs d(leg lengths)/dh along exp([V]h) T_top")
    _close(rates, dV, tol, "velocityAtJoints(V) vs d(leg lengths)/dh along exp([V]h) T_top")

    if case["ik_cross"]:
        ctx.label("derivative also through library IK")

        def lib_L(X):
            with time_guard(GUARD_S):
                L, _valid = sut(sp.IK, sps.make_tm(X @ e.T_top), sps.make_tm(e.T_bot), True)
            return _forces(L, "IK")
        dL = _dir_derivative(lib_L, V, e.t, ell)
        _close(J @ V, dL, tol, "inverseJacobian @ V vs derivative of the library's own IK leg lengths")


# ------------------------------------------------------------------------------------------ clause 2: space statics

def _check_space_side(e, fret, f_form, Ws, scale, what):
    """The legs carry Ws (space frame): own sum from oracle joints, from the getters, and the library's own sum."""
    sp = e.sp
    f = _forces(fret, what)
    tol = EQ_TOL * scale
    _close(e.Jo.T @ f, Ws, tol, "%s: sum_i f_i [q_i x n_i ; n_i] (oracle joints) vs applied wrench" % what)
    if e.mode == "state":
        _close(_getter_rows(sp).T @ f, Ws, tol, "%s: sum_i f_i [q_i x n_i ; n_i] (getBottomJoints/getTopJoints) vs "
               "applied wrench" % what)
        last = _vec6(sut(sp.sumActuatorWrenches), "sumActuatorWrenches()")
        _close(last, -Ws, tol, "%s: sumActuatorWrenches() [last forces] vs minus the applied wrench" % what)
        given = _vec6(sut(sp.sumActuatorWrenches, _f_arg(fret, f_form)), "sumActuatorWrenches(f)")
        _close(given, -Ws, tol, "%s: sumActuatorWrenches(f) vs minus the applied wrench" % what)


def c_space_statics(case, ctx):
    """f = staticForces(W): legs balance W; summed wrench on the base = -W; staticForcesInv(f) = W."""
    e = _setup(case, ctx)
    sp = e.sp
    Wobj, W, lat = _make_wrench(case, "W", e.T_top[:3, 3], ctx)
    ctx.nontrivial(e.base_nonid and lat)
    scale = float(np.linalg.norm(W))
    fret = sut(sp.staticForces, Wobj, *e.pargs)
    _check_space_side(e, fret, case["f_form"], W, scale, "staticForces")
    back = _vec6(sut(sp.staticForcesInv, _f_arg(fret, case["f_form"]), *e.pargs), "staticForcesInv")
    _close(back, W, EQ_TOL * scale, "staticForcesInv(staticForces(W)) vs W")


# ------------------------------------------------------------------------------------------ clause 3: body statics

def _body_statics(case, ctx, mode):
    e = _setup(case, ctx, mode)
    sp = e.sp
    Wobj, Wb, lat = _make_wrench(case, "W", None, ctx)
    if case["tag_frame"]:
        Wobj.frame_applied = sut(_lib()[2], e.T_top.copy())       # a conscientious caller records the frame; the numbers are unchanged
        ctx.label("wrench frame-tagged top plate")
    ctx.nontrivial(e.base_nonid and lat)
    Ws = O.Ad(O.inv(e.T_top)).T @ Wb            # F_s = Ad(T_bs)^T F_b, T_bs = T_top^-1
    nb, ns = float(np.linalg.norm(Wb)), float(np.linalg.norm(Ws))
    ctx.label("|W_s|/|W_b| " + ("-" if nb == 0 else _decade(ns / nb)))
    if mode == "args":
        ctx.label("explicit pose " + ("= state pose" if np.array_equal(e.T_top, sps.read_poses(sp)[1]) else
                                      "differs from state pose"))
    fret = sut(sp.staticForcesBody, Wobj, *e.pargs)
    _check_space_side(e, fret, case["f_form"], Ws, max(nb, ns), "staticForcesBody")
    back = _vec6(sut(sp.staticForcesInvBody, _f_arg(fret, case["f_form"]), *e.pargs), "staticForcesInvBody")
    _close(back, Wb, EQ_TOL * nb, "staticForcesInvBody(staticForcesBody(W_b)) vs W_b")
    # the two interfaces describe the same load
    f2 = _forces(sut(sp.staticForces, sut(_lib()[0], Ws.copy()), *e.pargs), "staticForces")
    _close(e.Jo.T @ f2, Ws, EQ_TOL * max(nb, ns), "staticForces(Ad^T W_b): sum_i f_i [q_i x n_i ; n_i] vs W_s")


def c_body_statics(case, ctx):
    """The same through staticForcesBody / staticForcesInvBody with W expressed in the top-plate frame (platform
    brought to the pose with IK)."""
    _body_statics(case, ctx, "state")


def c_body_statics_args(case, ctx):
    """Body-frame interface with the pose handed over as explicit top/bottom arguments (forwarded by
    staticForcesBody to inverseJacobian, which documents them): the body frame is the frame of THAT top pose."""
    _body_statics(case, ctx, "args")


# ------------------------------------------------------------------------------------------ clause 4: carried masses

def _masses(case, e, ctx):
    """Apply the optional setMasses/setCOG call of the case; -> (top plate mass, shaft mass, shaft COG distance, g)."""
    sp = e.sp
    m = case["spec"]["masses"]
    top, shaft, dcog, g = m["plate_top"], m["shaft"], m["shaft_cog"], G0
    r = case["remass"]
    if r is None:
        ctx.label("masses from constructor")
        return top, shaft, dcog, g
    kw = {}
    if r["grav"] is not None:
        g = np.asarray(r["grav"], dtype=float)
        kw["grav"] = g.copy()
        ctx.label("gravity " + ("vertical" if not np.any(g[:2]) else "tilted"))
    else:
        g = G0                                   # setMasses' default argument
        ctx.label("gravity default")
    if r["top"] is not None:
        kw["top_plate_mass"] = float(r["top"])
    sut(sp.setMasses, float(r["general"]), float(r["shaft"]), float(r["motor"]), **kw)
    top = float(r["top"]) if r["top"] else float(r["general"])      # documented: 0 / omitted -> same as bottom plate
    ctx.label("top plate mass " + ("given" if r["top"] else "falls back to plate_mass_general"))
    shaft = float(r["shaft"])
    if r["cog"] is not None:
        sut(sp.setCOG, float(r["cog"][0]), float(r["cog"][1]))
        dcog = float(r["cog"][1])
        ctx.label("setCOG called")
    if r.get("grav_later") is not None:
        # gravity changed through the public setter AFTER the masses were assigned: the weights follow it
        g = np.asarray(r["grav_later"], dtype=float)
        sut(sp.setGrav, g.copy())
        ctx.label("setGrav after the masses")
    return top, shaft, dcog, g


def c_carry_mass(case, ctx):
    """carryMassCalc(W)[0] balances W + top-plate weight at the plate origin + six shaft weights at their COGs."""
    e = _setup(case, ctx, "state")
    sp = e.sp
    m_top, m_shaft, dcog, g = _masses(case, e, ctx)
    Wobj, W, lat = _make_wrench(case, "W", e.T_top[:3, 3], ctx)
    ctx.nontrivial(e.base_nonid and lat)
    parts = [W, _point_wrench(e.T_top[:3, 3], m_top * g)]
    for i in range(6):
        parts.append(_point_wrench(e.t[:, i] - dcog * e.n[:, i], m_shaft * g))
    load = np.sum(parts, axis=0)
    scale = float(sum(np.linalg.norm(p) for p in parts))
    ctx.label("shaft COG " + ("beyond bottom joint" if dcog > float(np.linalg.norm(e.t - e.q, axis=0).min()) else
                              "inside leg"))
    ctx.label("weights/|W| " + ("-" if not np.any(W) else _decade((scale - np.linalg.norm(W)) / np.linalg.norm(W))))
    kw = {} if case["protect"] is None else {"protect": bool(case["protect"])}
    ret = sut(sp.carryMassCalc, Wobj, **kw)
    if not (isinstance(ret, tuple) and len(ret) == 2):
        raise Violation("carryMassCalc returned %s, not (leg forces, total wrench)" % type(ret).__name__)
    f = _forces(ret[0], "carryMassCalc")
    tol = EQ_TOL * scale
    _close(e.Jo.T @ f, load, tol, "carryMassCalc: sum_i f_i [q_i x n_i ; n_i] vs applied wrench + top-plate weight at "
           "the plate origin + shaft weights at their centres of gravity (m_top=%.6g m_shaft=%.6g d_cog=%.6g g=%s)"
           % (m_top, m_shaft, dcog, g))
    _close(_getter_rows(sp).T @ f, load, tol, "carryMassCalc: the same sum from getBottomJoints/getTopJoints")
    base = _vec6(sut(sp.sumActuatorWrenches), "sumActuatorWrenches()")
    _close(base, -load, tol, "carryMassCalc: summed leg wrench on the base vs minus (wrench + carried weights)")


# ------------------------------------------------------------------------------------------ strategies

_FORMS = st.sampled_from(["mat", "taa"])


@st.composite
def _far_base(draw):
    """Base 3..10 m from the space origin, any orientation below pi-1e-3."""
    d = draw(G.generic_unit_vectors()) * draw(G.floats(3.0, 10.0))
    return np.concatenate([d, draw(G.rotvecs_below(math.pi - 1e-3))])


_S_FAR = _far_base()
_S_SPEC = sps.sp_specs(masses=True)
_S_MOVE = st.one_of(st.none(), st.none(), st.none(), sps.base_poses(), _S_FAR)


@st.composite
def _specs(draw):
    spec = draw(_S_SPEC)
    if draw(st.integers(0, 3)) == 0:
        spec = dict(spec, base=draw(_S_FAR))
    return spec


def _mags(kmin, kmax):
    """Magnitudes m * 10^k, k an integer decade: every decade gets mass (a log-uniform float would sit at 1.0)."""
    return st.tuples(st.integers(kmin, kmax), G.floats(1.0, 10.0)).map(lambda t: t[1] * 10.0 ** t[0])


def _mag3(kmin, kmax):
    """3-vectors: generic direction x decade-spread magnitude, axis-aligned / planar, zero."""
    return st.one_of(
        st.tuples(G.generic_unit_vectors(), _mags(kmin, kmax)).map(lambda t: t[0] * t[1]),
        st.tuples(G.generic_unit_vectors(), _mags(kmin, kmax)).map(lambda t: t[0] * t[1]),
        st.tuples(G.unit_vectors(("axis", "plane")), _mags(kmin, kmax)).map(lambda t: t[0] * t[1]),
        st.just(np.zeros(3)),
    )


@st.composite
def _wrenches(draw, make=True):
    kind = draw(st.sampled_from(["generic", "generic", "generic", "force", "moment", "vertical", "zero"]))
    m, f = draw(_mag3(-3, 3)), draw(_mag3(-3, 3))
    if kind == "force":
        m = np.zeros(3)
    elif kind == "moment":
        f = np.zeros(3)
    elif kind == "vertical":
        f = np.array([0.0, 0.0, -float(np.linalg.norm(f))])
    elif kind == "zero":
        m, f = np.zeros(3), np.zeros(3)
    forms = ["w6", "w61", "make"] if make else ["w6", "w61"]
    return {"m": m, "f": f, "about": draw(st.sampled_from(["origin", "plate", "plate"])),
            "form": draw(st.sampled_from(forms)), "whole": draw(st.sampled_from([False, False, False, True]))}


@st.composite
def _twists(draw):
    kind = draw(st.sampled_from(["generic", "generic", "generic", "w", "v", "axis", "zero"]))
    w, v = draw(_mag3(-3, 1)), draw(_mag3(-3, 1))
    if kind == "w":
        v = np.zeros(3)
    elif kind == "v":
        w = np.zeros(3)
    elif kind == "axis":
        V = np.zeros(6)
        V[draw(st.integers(0, 5))] = draw(_mags(-3, 1)) * draw(st.sampled_from([1.0, -1.0]))
        return V
    elif kind == "zero":
        return np.zeros(6)
    return np.concatenate([w, v])


def _gravities():
    return st.one_of(
        st.none(), st.none(),
        st.sampled_from([np.array([0.0, 0.0, -9.81]), np.array([0.0, 0.0, -1.62]), np.array([0.0, 0.0, 9.81]),
                         np.array([9.81, 0.0, 0.0]), np.array([0.0, -3.0, -4.0])]),
        st.tuples(G.generic_unit_vectors(), G.floats(0.5, 25.0)).map(lambda t: t[0] * t[1]),
    )


def _remass():
    return st.one_of(st.none(), st.fixed_dictionaries({
        "general": G.floats(0.5, 50.0), "shaft": G.floats(0.05, 5.0), "motor": G.floats(0.05, 5.0),
        "top": st.one_of(st.none(), st.just(0.0), G.floats(0.5, 50.0)),
        "grav": _gravities(), "grav_later": _gravities(),
        "cog": st.one_of(st.none(), st.tuples(G.floats(0.02, 0.4), G.floats(0.02, 0.4)),
                        st.tuples(G.floats(0.02, 0.4), st.just(0.0))),
    }))


def _pose_part():
    return {
        "spec": _specs(), "move": _S_MOVE, "u": sps.rel_poses(),
        "mode": st.sampled_from(["state", "state", "args"]),
        "bot": st.one_of(st.none(), sps.base_poses(), _S_FAR), "bot_form": _FORMS, "top_form": _FORMS,
        "bot_implicit": st.booleans(),
        "pre_query": st.one_of(st.none(), st.none(), sps.rel_poses()), "pre_query_bottom": st.booleans(),
    }


def _jac_cases():
    return st.fixed_dictionaries(dict(_pose_part(), V=_twists(), V_frame=st.sampled_from(["space", "top"]),
                                      ik_cross=st.booleans(), keep=st.one_of(st.none(), sps.rel_poses())))


def _space_cases():
    return st.fixed_dictionaries(dict(_pose_part(), W=_wrenches(), f_form=st.sampled_from(["as_returned", "flat"])))


def _body_cases():
    return st.fixed_dictionaries(dict(_pose_part(), W=_wrenches(make=False), tag_frame=st.booleans(),
                                      f_form=st.sampled_from(["as_returned", "flat"])))


def _carry_cases():
    return st.fixed_dictionaries(dict(_pose_part(), W=_wrenches(), remass=_remass(),
                                      protect=st.sampled_from([None, None, False, True])))


CLAUSES = [
    Clause("invjac_is_leg_rate_per_spatial_twist", c_invjac, _jac_cases(), 300, 20000),
    Clause("space_statics_equilibrium", c_space_statics, _space_cases(), 400, 24000),
    Clause("body_statics_equilibrium", c_body_statics, _body_cases(), 300, 20000),
    Clause("body_statics_explicit_pose", c_body_statics_args, _body_cases(), 200, 12000),
    Clause("carry_mass_equilibrium", c_carry_mass, _carry_cases(), 400, 24000),
]
