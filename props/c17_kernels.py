"""C17 -- compiled kernels never index out of bounds and match their interpreted source.

Every case is executed in two persistent worker processes of this very module
(`python -m props.c17_kernels --serve`): one with NUMBA_BOUNDSCHECK=1 (own JIT cache directory),
one without.  A worker runs the compiled kernel AND its interpreted source (`.py_func`) on deep
copies of the same arguments and sends everything back; `check` compares
  * bounds-checked run: no IndexError;
  * compiled == interpreted (values, and in-place effects on the arguments);
  * bounds-checked == unchecked results.
Entry-point cases drive public tm / Arm / SP operations (every link / joint index) the same way.
"""
import atexit
import json
import math
import os
import subprocess
import sys

import numpy as np
from hypothesis import strategies as st

from vf import gen as G
from vf import oracle as O
from vf import ser
from vf.core import Clause, HarnessError, Violation

PROPERTY_ID = "C17"
RULE = ("(a) per JIT kernel (the 47 dispatchers of modern_high_performance and faser_high_performance, listed at run "
        "time) arguments from the C01/C02/C09 input classes, each array argument independently laid out C-ordered, "
        "Fortran-ordered, as a strided/offset slice of a larger NaN-poisoned array, or integer-typed; (b) public tm / "
        "Arm (6R suite arm, bundled URDFs) / Stewart-platform operations with every link/joint/actuator index. "
        "Non-trivial: some argument is not plain C-ordered float64, or an index argument >= 1, or a prefix slice is "
        "involved; distinct by digest of (kernel/op, arguments, layouts).")
ASSUMPTIONS = [
    "Numba's NUMBA_BOUNDSCHECK=1 is the out-of-bounds monitor; it instruments every nopython array access",
    "a layout a kernel does not accept = numba TypingError / 'No matching definition' at dispatch (counted, not failed)",
    "compiled vs interpreted values compared at 1e-12 relative; for the iterative solvers IKinBody/IKinSpace/"
    "IKinSpaceConstrained/SPFKinSpaceR only the solution is compared, at 1e-4 (solver tolerance 1e-6 over sigma_min), and "
    "only when both executions report convergence (a non-converged Newton iteration is chaotic in the last bits)",
    "bounds-checked vs unchecked results compared at 1e-12 relative rather than bitwise: enabling the checks changes "
    "LLVM vectorisation and hence summation order",
]
SHARDS = {"quick": 2, "thorough": 8}

VERIF = os.path.dirname(os.path.dirname(os.path.abspath(__file__)))
ITERATIVE = {"IKinBody", "IKinSpace", "IKinSpaceConstrained", "SPFKinSpaceR"}
PI = math.pi

# =============================================================================================
# worker side
# =============================================================================================

_mods = None


def mods():
    global _mods
    if _mods is None:
        from basic_robotics.modern_robotics_numba import modern_high_performance as m
        from basic_robotics.general import faser_high_performance as f
        _mods = (m, f)
    return _mods


def kernel_table():
    """{name: dispatcher} of every @jit function DEFINED in the two JIT modules."""
    out = {}
    for mod in mods():
        for n, o in vars(mod).items():
            if hasattr(o, "py_func") and getattr(o.py_func, "__module__", None) == mod.__name__:
                out[n] = o
    return out


def layout_arg(a, lay):
    if not isinstance(a, np.ndarray):
        if lay == "I" and isinstance(a, float):
            return int(a)
        return a
    if lay == "C":
        return np.ascontiguousarray(a.copy())
    if lay == "F":
        return np.asfortranarray(a.copy())
    if lay == "I":
        return np.ascontiguousarray(a).astype(np.int64)
    if lay == "S":
        if a.ndim == 1:
            big = np.full(2 * a.shape[0] + 3, np.nan)
            v = big[1:1 + 2 * a.shape[0]:2]
            v[...] = a
            return v
        if a.ndim == 2:
            big = np.full((a.shape[0] + 2, a.shape[1] + 3), np.nan)
            v = big[1:1 + a.shape[0], 2:2 + a.shape[1]]
            v[...] = a
            return v
        if a.ndim == 3:
            big = np.full((a.shape[0] + 1, a.shape[1] + 2, a.shape[2] + 1), np.nan)
            v = big[1:, 1:1 + a.shape[1], :a.shape[2]]
            v[...] = a
            return v
    raise HarnessError("layout %r for ndim %s" % (lay, getattr(a, "ndim", None)))


def _plain(x):
    """Result -> serialisable structure of floats/arrays."""
    if isinstance(x, tuple):
        return [_plain(v) for v in x]
    if isinstance(x, list):
        return [_plain(v) for v in x]
    if isinstance(x, np.ndarray):
        if np.iscomplexobj(x):
            return {"re": np.array(x.real), "im": np.array(x.imag)}
        return np.array(x)
    if isinstance(x, (complex, np.complexfloating)):
        return {"re": float(x.real), "im": float(x.imag)}
    if isinstance(x, (np.floating, np.integer, np.bool_)):
        return x.item()
    if hasattr(x, "gTM") and hasattr(x, "gTAA"):
        return {"tm": np.array(x.gTM())}
    if hasattr(x, "getData"):
        return {"wrench": np.array(x.getData(), dtype=float)}
    if x is None or isinstance(x, (bool, int, float, str)):
        return x
    return repr(type(x))


def _call(fn, args):
    try:
        r = fn(*args)
        return {"status": "ok", "value": _plain(r), "args_after": [_plain(a) for a in args]}
    except IndexError as e:
        return {"status": "IndexError", "msg": str(e)[:200]}
    except BaseException as e:  # noqa
        import numba
        if isinstance(e, numba.core.errors.NumbaError) or (
                isinstance(e, TypeError) and "No matching definition" in str(e)):
            return {"status": "rejected", "msg": type(e).__name__}
        if isinstance(e, (KeyboardInterrupt, SystemExit, MemoryError)):
            raise
        return {"status": "raised:" + type(e).__name__, "msg": str(e)[:200]}


def exec_kernel(case):
    f = kernel_table()[case["kernel"]]
    a1 = [layout_arg(a, l) for a, l in zip(case["args"], case["layouts"])]
    a2 = [layout_arg(a, l) for a, l in zip(case["args"], case["layouts"])]
    return {"compiled": _call(f, a1), "pyfunc": _call(f.py_func, a2)}


# ----------------------------------------------------------------------------- robots

def build_sixr(base6):
    """The 6R arm of tests/test_kinematics_arm.py (setUp), optionally at a non-identity base."""
    from basic_robotics.general import tm, fsr
    from basic_robotics.kinematics import Arm
    L1, L2, L3, W = 4.5, 3.75, 3.75, 0.1
    Tspace = [tm(np.array([[0], [0], [L1 / 2], [0], [0], [0]])),
              tm(np.array([[L2 / 2], [0], [L1], [0], [0], [0]])),
              tm(np.array([[L2 + (L3 / 2)], [0], [L1], [0], [0], [0]])),
              tm(np.array([[L2 + L3 + (W / 2)], [0], [L1], [0], [0], [0]])),
              tm(np.array([[L2 + L3 + W + (W / 2)], [0], [L1], [0], [0], [0]])),
              tm(np.array([[L2 + L3 + W + W + (W / 2)], [0], [L1], [0], [0], [0]]))]
    ee_home = fsr.TAAtoTM(np.array([[L2 + L3 + W + W + W], [0], [L1], [0], [0], [0]]))
    axes = np.array([[0, 0, 1], [0, 1, 0], [0, 1, 0], [1, 0, 0], [0, 1, 0], [1, 0, 0]]).conj().T
    homes = np.array([[0, 0, 0], [0, 0, L1], [L2, 0, L1], [L2 + L3, 0, L1], [L2 + L3 + W, 0, L1],
                      [L2 + L3 + 2 * W, 0, L1]]).conj().T
    screws = np.zeros((6, 6))
    for i in range(6):
        screws[0:6, i] = np.hstack((axes[0:3, i], np.cross(homes[0:3, i], axes[0:3, i])))
    dims = np.array([[W, W, L1], [L2, W, W], [L3, W, W], [W, W, W], [W, W, W], [W, W, W]]).conj().T
    lmt = [None] * 7
    lmt[0] = Tspace[0]
    for i in range(1, 6):
        lmt[i] = Tspace[i - 1].inv() @ Tspace[i]
    lmt[6] = Tspace[5].inv() @ ee_home
    masses = np.array([20, 20, 20, 1, 1, 1])
    inertia = np.zeros((6, 6, 6))
    for i in range(6):
        inertia[i, :, :] = fsr.boxSpatialInertia(masses[i], dims[0, i], dims[1, i], dims[2, i])
    arm = Arm(tm(np.array(base6, dtype=float)), screws, ee_home, homes, axes)
    arm.setJointProperties(np.ones(6) * -2 * np.pi, np.ones(6) * 2 * np.pi)
    arm.setOrigins(link_homes_global=Tspace)
    arm.setMassProperties(masses, lmt, inertia)
    arm.setVisColProperties(link_dimensions=dims)
    return arm


URDFS = {
    "ur5": "tests/test_helpers/ur5.urdf",
    "irb_2400": "tests/test_helpers/irb_2400.urdf",
    "puma_560": "tests/test_helpers/puma_560.urdf",
    "ur10": "tests/test_helpers/ur_description/ur10.urdf",
    "ur5_desc": "tests/test_helpers/ur_description/ur5.urdf",
}


def repo_root():
    import basic_robotics
    return os.path.dirname(os.path.dirname(os.path.abspath(basic_robotics.__file__)))


def build_arm(target, base6, spec=None):
    if target == "arm:sixr":
        return build_sixr(base6)
    if target == "arm:rand":
        from vf import arms as A
        return A.build_arm(spec)[0]
    from basic_robotics.kinematics import loadArmFromURDF
    from basic_robotics.general import tm
    name = target.split(":")[2]
    arm = loadArmFromURDF(os.path.join(repo_root(), URDFS[name]))
    if np.any(np.asarray(base6) != 0):
        arm.move(tm(np.array(base6, dtype=float)))
    return arm


SP_JSON = {
    "Name": "Basic SP", "Type": "SP",
    "BottomPlate": {"Thickness": 0.1, "JointRadius": 0.9, "JointSpacing": 9, "Mass": 6},
    "TopPlate": {"Thickness": 0.16, "JointRadius": 0.3, "JointSpacing": 25, "Mass": 1},
    "Actuators": {"MinExtension": 0.75, "MaxExtension": 1.5, "MotorMass": 0.5, "ShaftMass": 0.9,
                  "ForceLimit": 800, "MotorCOGD": 0.2, "ShaftCOGD": 0.2},
    "Drawing": {"TopRadius": 1, "BottomRadius": 1, "ShaftRadius": 0.1, "MotorRadius": 0.2},
    "Settings": {"MaxAngleDev": 55, "GenerateActuators": 0, "IgnoreRestHeight": 1, "UseSpin": 0,
                 "AssignMasses": 1, "InferActuatorCOG": 1},
    "Params": {"RestHeight": 1.2, "SpinBottom": 0, "SpinTop": 0},
}


def build_sp(base6):
    import tempfile
    from basic_robotics.kinematics import loadSP
    from basic_robotics.general import tm
    d = tempfile.mkdtemp(prefix="c17sp")
    try:
        with open(os.path.join(d, "sp.json"), "w") as f:
            json.dump(SP_JSON, f)
        sp = loadSP("sp.json", d + "/", tm(np.array(base6, dtype=float)))
    finally:
        import shutil
        shutil.rmtree(d, ignore_errors=True)
    return sp


def exec_entry(case):
    import random
    from basic_robotics.general import tm, fsr, Wrench
    random.seed(case.get("seed", 0))
    np.random.seed(case.get("seed", 0) % (2 ** 32))
    op = case["op"]
    tgt = case["target"]
    th = None if case.get("theta") is None else np.array(case["theta"], dtype=float)
    i = case.get("i", 0)

    def run():
        if tgt.startswith("arm"):
            arm = build_arm(tgt, case["base"], case.get("spec"))
            n = arm.num_dof
            t = th[:n].copy()
            if op == "FK":
                return arm.FK(t)
            if op == "FKLink":
                return arm.FKLink(t, i % n)
            if op == "FKJoint":
                return arm.FKJoint(t, i % n)
            if op == "jacobian":
                return arm.jacobian(t)
            if op == "jacobianBody":
                return arm.jacobianBody(t)
            if op == "jacobianLink":
                return arm.jacobianLink(i % n, t)
            if op == "jacobianEETrans":
                return arm.jacobianEETrans(t)
            if op == "numericalJacobian":
                return arm.numericalJacobian(t)
            if op == "getJointTransforms":
                arm.FK(t)
                return arm.getJointTransforms()
            if op == "IK":
                goal = arm.FK(t.copy())
                return arm.IK(goal, t + 0.01)
            if op == "IKprotect":
                goal = arm.FK(t.copy())
                return arm.IK(goal, t + 0.01, protect=True)
            w = Wrench(np.array(case["wrench"], dtype=float).reshape((6, 1)))
            if op == "staticForces":
                return arm.staticForces(w, t)
            if op == "staticForcesInv":
                return arm.staticForcesInv(np.resize(np.array(case["wrench"], dtype=float), n), t)
            if op == "staticForcesWithLinkMasses":
                return arm.staticForcesWithLinkMasses(w, t)
            if op == "velocityAtEndEffector":
                return arm.velocityAtEndEffector(np.array(case["rates"], dtype=float)[:n], t)
            if op == "massMatrix":
                return arm.massMatrix(t)
            if op == "inverseDynamics":
                return arm.inverseDynamics(t, np.array(case["rates"], dtype=float)[:n],
                                           np.array(case["acc"], dtype=float)[:n])
            if op == "coriolisGravity":
                return arm.coriolisGravity(t, np.array(case["rates"], dtype=float)[:n], np.array([0, 0, -9.81]))
            if op == "forwardDynamics":
                return arm.forwardDynamics(t, np.array(case["rates"], dtype=float)[:n],
                                           np.array(case["acc"], dtype=float)[:n])
            if op == "getManipulability":
                arm.FK(t)
                return arm.getManipulability()
            if op == "move_then_FK":
                arm.move(tm(np.array(case["pose"], dtype=float)))
                return arm.FK(t)
        if tgt == "sp":
            sp = build_sp(case["base"])
            top = sp.getBottomT() @ tm(np.array(case["pose"], dtype=float))
            if op == "IK":
                return sp.IK(top_plate_pos=top)
            if op == "FK":
                L, _ = sp.IK(top_plate_pos=top)
                sp.IK(top_plate_pos=sp.getBottomT() @ tm([0, 0, 1.2, 0, 0, 0]))
                return sp.FK(np.array(L, dtype=float), fk_mode=case.get("fk_mode", 1))
            sp.IK(top_plate_pos=top)
            if op == "getActuatorLoc":
                return sp.getActuatorLoc(i % 6, case.get("atype", "m"))
            if op == "getJointAnglesFromNorm":
                return sp.getJointAnglesFromNorm()
            if op == "getJointAnglesFromVertical":
                return sp.getJointAnglesFromVertical()
            if op == "inverseJacobian":
                return sp.inverseJacobian()
            w = Wrench(np.array(case["wrench"], dtype=float).reshape((6, 1)))
            if op == "staticForces":
                return sp.staticForces(w)
            if op == "carryMassCalc":
                return sp.carryMassCalc(w)
            if op == "componentForces":
                return sp.componentForces(sp.staticForces(w))
            if op == "sumActuatorWrenches":
                return sp.sumActuatorWrenches(sp.staticForces(w))
            if op == "validate":
                return sp.validate()
            if op == "spin_then_IK":
                sp.spinCustom(case.get("spin", 10.0), True)
                return sp.IK(top_plate_pos=top)
            if op == "move_then_IK":
                sp.move(tm(np.array(case["pose2"], dtype=float)))
                return sp.getLens()
        if tgt == "tm":
            a = tm(np.array(case["pose"], dtype=float))
            b = tm(np.array(case["pose2"], dtype=float))
            if op == "matmul":
                return a @ b
            if op == "inv":
                return a.inv()
            if op == "adjoint":
                return a.adjoint()
            if op == "exp6":
                return a.exp6()
            if op == "localToGlobal":
                return fsr.localToGlobal(a, b)
            if op == "globalToLocal":
                return fsr.globalToLocal(a, b)
            if op == "from_matrix":
                return tm(a.gTM())
            if op == "setQuat":
                a.setQuat(b.getQuat())
                return a
            if op == "tripleUnit":
                return a.tripleUnit()
            if op == "set_index":
                a[i % 6] = 0.3
                return a
            if op == "arcDistance":
                return fsr.arcDistance(a, b)
            if op == "twistFromTransform":
                return fsr.twistFromTransform(a)
        raise HarnessError("unknown entry %s/%s" % (tgt, op))

    return {"compiled": _call(lambda: run(), [])}


def serve():
    mods()
    for line in sys.stdin:
        line = line.strip()
        if not line:
            continue
        case = ser.loads(line)
        try:
            res = exec_kernel(case) if case["kind"] == "kernel" else exec_entry(case)
        except HarnessError as e:
            res = {"harness_error": str(e)}
        except BaseException as e:  # noqa
            import traceback
            res = {"harness_error": "%s: %s\n%s" % (type(e).__name__, e, traceback.format_exc()[-1500:])}
        try:
            out = ser.dumps(res)
        except BaseException as e:  # noqa
            out = ser.dumps({"harness_error": "result not serialisable: %s: %s" % (type(e).__name__, e)})
        sys.stdout.write(out + "\n")
        sys.stdout.flush()


# =============================================================================================
# check side
# =============================================================================================

_workers = {}


def _worker(bc):
    w = _workers.get(bc)
    if w is not None and w.poll() is None:
        return w
    env = dict(os.environ)
    if bc:
        env["NUMBA_BOUNDSCHECK"] = "1"
        env["NUMBA_CACHE_DIR"] = env.get("NUMBA_CACHE_DIR", os.path.join(VERIF, ".cache", "numba", "x")) + "-bc"
        os.makedirs(env["NUMBA_CACHE_DIR"], exist_ok=True)
    else:
        env.pop("NUMBA_BOUNDSCHECK", None)
    w = subprocess.Popen([sys.executable, "-m", "props.c17_kernels", "--serve"], cwd=VERIF, env=env,
                         stdin=subprocess.PIPE, stdout=subprocess.PIPE, stderr=subprocess.DEVNULL, text=True)
    _workers[bc] = w
    return w


@atexit.register
def _stop_workers():
    for w in _workers.values():
        try:
            w.stdin.close()
            w.wait(timeout=5)
        except Exception:
            w.kill()


def ask(bc, case):
    w = _worker(bc)
    w.stdin.write(ser.dumps(case) + "\n")
    w.stdin.flush()
    line = w.stdout.readline()
    if not line:
        _workers.pop(bc, None)
        raise HarnessError("C17 worker (boundscheck=%s) died on case %s" % (bc, ser.dumps(case)[:300]))
    res = ser.loads(line)
    if "harness_error" in res:
        raise HarnessError("C17 worker: " + res["harness_error"])
    return res


def _cmp(a, b, rtol, what):
    """Structural comparison of two _plain() results."""
    if isinstance(a, dict) and isinstance(b, dict):
        if set(a) != set(b):
            raise Violation("%s: structure differs %s vs %s" % (what, sorted(a), sorted(b)))
        for k in a:
            _cmp(a[k], b[k], rtol, what + "." + k)
        return
    if isinstance(a, list) and isinstance(b, list):
        if len(a) != len(b):
            raise Violation("%s: length %d vs %d" % (what, len(a), len(b)))
        for k, (x, y) in enumerate(zip(a, b)):
            _cmp(x, y, rtol, "%s[%d]" % (what, k))
        return
    if isinstance(a, (np.ndarray, float, int, bool)) and isinstance(b, (np.ndarray, float, int, bool)):
        x = np.asarray(a, dtype=float)
        y = np.asarray(b, dtype=float)
        if x.shape != y.shape:
            raise Violation("%s: shape %s vs %s" % (what, x.shape, y.shape))
        if x.size == 0:
            return
        fin = np.isfinite(x) & np.isfinite(y)
        if not np.array_equal(np.isnan(x), np.isnan(y)) or not np.array_equal(x[~fin & ~np.isnan(x)], y[~fin & ~np.isnan(y)]):
            raise Violation("%s: non-finite pattern differs" % what)
        if fin.any():
            scale = max(1.0, float(np.abs(y[fin]).max()))
            d = float(np.abs(x[fin] - y[fin]).max())
            if d > rtol * scale:
                raise Violation("%s: |diff| %.3g > %.3g" % (what, d, rtol * scale))
        return
    if a != b:
        raise Violation("%s: %r vs %r" % (what, a, b))


_inv_ok = []


def _inventory():
    """The kernel list is computed at run time; a kernel added to (or removed from) the JIT modules
    without an argument strategy here would silently go unchecked -> harness error."""
    if not _inv_ok:
        have = sorted(kernel_table())
        if have != sorted(KERNEL_NAMES):
            raise HarnessError("JIT kernel inventory changed: no strategy for %s / stale %s" %
                               (sorted(set(have) - set(KERNEL_NAMES)), sorted(set(KERNEL_NAMES) - set(have))))
        _inv_ok.append(True)


def _converged(name, case, value):
    """Did the iterative kernel report convergence?  IK solvers return (theta, success);
    SPFKinSpaceR returns (pose, iterations) and stops at max_iterations (argument 4) otherwise."""
    if name == "SPFKinSpaceR":
        return int(value[1]) < int(case["args"][4])
    return bool(value[1])


def _shape_only(v):
    if isinstance(v, list):
        return [_shape_only(x) for x in v]
    if isinstance(v, np.ndarray):
        return list(v.shape)
    return type(v).__name__


# kernels whose vector / chain arguments share one length n: every case is also run on the prefixes of length 1 .. n-1
# (deterministic coverage of every length; generated lengths alone clump - see DESIGN section 7)
PREFIXABLE = ("EulerStep", "JointTrajectory", "FKinSpace", "FKinBody", "JacobianSpace", "JacobianBody")


def _prefix_cases(case):
    args = case["args"]
    n = None
    for a in args:
        if isinstance(a, np.ndarray) and a.ndim == 1:
            n = a.shape[0]
            break
    if n is None or n < 2:
        return
    for k in range(1, n):
        sub = []
        for a in args:
            if isinstance(a, np.ndarray) and a.ndim == 1 and a.shape[0] == n:
                sub.append(np.ascontiguousarray(a[:k]))
            elif isinstance(a, np.ndarray) and a.ndim == 2 and a.shape == (6, n):
                sub.append(np.ascontiguousarray(a[:, :k]))
            else:
                sub.append(a)
        c = dict(case)
        c["args"] = sub
        yield k, c


def check_kernel(case, ctx):
    _check_kernel_one(case, ctx)
    if case["kernel"] in PREFIXABLE:
        for k, sub in _prefix_cases(case):
            try:
                _check_kernel_one(sub, None)
            except Violation as v:
                raise Violation("(arguments cut to length %d) %s" % (k, v)) from None


class _NoCtx:
    def label(self, *a, **k):
        pass

    def nontrivial(self, *a, **k):
        pass


def _check_kernel_one(case, ctx):
    ctx = ctx if ctx is not None else _NoCtx()
    _inventory()
    name = case["kernel"]
    lays = case["layouts"]
    ctx.label("k:" + name)
    for l in set(lays):
        ctx.label("layout:" + l)
    ctx.nontrivial(any(l != "C" for l in lays))
    rb = ask(True, case)
    r0 = ask(False, case)
    # converged Newton iterations may stop one step apart when the residual crosses the tolerance within
    # rounding: the two answers then differ by up to the solver tolerance (1e-6 here) over sigma_min
    rtol = 1e-4 if name in ITERATIVE else 1e-12
    for tag, r in (("boundscheck", rb), ("plain", r0)):
        c, p = r["compiled"], r["pyfunc"]
        if c["status"] == "IndexError":
            raise Violation("%s: compiled kernel raised IndexError (%s run): %s" % (name, tag, c.get("msg")))
        if c["status"] == "rejected":
            ctx.label("rejected:" + name)
            continue
        if c["status"] == "ok":
            if p["status"] == "IndexError":
                raise Violation("%s: interpreted source raises IndexError (%s) where the compiled kernel returns: "
                                "out-of-bounds access" % (name, p.get("msg")))
            if p["status"] != "ok":
                raise Violation("%s: compiled returns but interpreted source fails with %s %s" % (name, p["status"], p.get("msg")))
            if name in ITERATIVE and not (_converged(name, case, c["value"]) and _converged(name, case, p["value"])):
                # a Newton iteration that has not converged is chaotic in the last bits: the two executions
                # legitimately drift apart.  Structure is still compared, values are not (counted).
                ctx.label("iterative kernel not converged: values not compared")
                _cmp(_shape_only(c["value"]), _shape_only(p["value"]), 0.0, "%s structure (%s run)" % (name, tag))
                continue
            if name in ITERATIVE:
                _cmp(c["value"][0], p["value"][0], rtol, "%s compiled vs interpreted (%s run)" % (name, tag))
                continue
            _cmp(c["value"], p["value"], rtol, "%s compiled vs interpreted (%s run)" % (name, tag))
            _cmp(c["args_after"], p["args_after"], rtol, "%s in-place effect compiled vs interpreted" % name)
        else:
            if p["status"] == "ok":
                raise Violation("%s: compiled raises %s %s where the interpreted source returns" % (name, c["status"], c.get("msg")))
            if p["status"] != c["status"]:
                raise Violation("%s: compiled raises %s, interpreted %s" % (name, c["status"], p["status"]))
    cb, c0 = rb["compiled"], r0["compiled"]
    if cb["status"] != c0["status"]:
        raise Violation("%s: status with bounds checking %s, without %s" % (name, cb["status"], c0["status"]))
    if cb["status"] == "ok":
        if name in ITERATIVE and not (_converged(name, case, cb["value"]) and _converged(name, case, c0["value"])):
            return
        _cmp(cb["value"][0] if name in ITERATIVE else cb["value"], c0["value"][0] if name in ITERATIVE else c0["value"],
             rtol, "%s bounds-checked vs unchecked" % name)


def check_entry(case, ctx):
    ctx.label("%s.%s" % (case["target"], case["op"]))
    ctx.nontrivial(case.get("i", 0) != 0 or any(v != 0 for v in case.get("base", [0])))
    rb = ask(True, case)["compiled"]
    r0 = ask(False, case)["compiled"]
    what = "%s.%s" % (case["target"], case["op"])
    if rb["status"] == "IndexError" and r0["status"] != "IndexError":
        raise Violation("%s raises IndexError under bounds checking only (unchecked run: %s): %s" %
                        (what, r0["status"], rb.get("msg")))
    if rb["status"] != r0["status"]:
        raise Violation("%s: status with bounds checking %s (%s), without %s (%s)" %
                        (what, rb["status"], rb.get("msg"), r0["status"], r0.get("msg")))
    if rb["status"] != "ok":
        # an operation broken for reasons that have nothing to do with indexing belongs to the
        # property that covers it (C05-C11); here it is only counted
        ctx.label("raised(other property):%s:%s" % (what, rb["status"]))
        return
    _cmp(rb["value"], r0["value"], 1e-9, what + " bounds-checked vs unchecked")


# ----------------------------------------------------------------------------- strategies

def f(lo, hi):
    return G.floats(lo, hi)


def ivec(n, lo=-3, hi=3):
    return st.lists(st.integers(lo, hi), min_size=n, max_size=n).map(lambda l: np.array(l, dtype=float))


def rot():
    return G.rotvecs_below(PI - 1e-3).map(O.exp3).map(np.ascontiguousarray)


def se3():
    return G.se3s(maxnorm=10.0, ang=G.angles_below(PI - 1e-3))


@st.composite
def chain_theta(draw, nmin=1, nmax=7):
    S = draw(G.chains(nmin, nmax))
    th = draw(G.vec(S.shape[1], -PI, PI))
    return S, th


@st.composite
def ik_problem(draw, body):
    """Converging IK problem: chain of 2..7 revolute joints (NOT only 6: kernels index their limit and
    joint tables by the chain length), goal = oracle FK of theta*, start within 0.01 of theta*."""
    n = draw(st.sampled_from([2, 3, 4, 5, 6, 6, 7]))
    S = np.stack([draw(G.screw_axis(False)) for _ in range(n)], axis=1)
    M = draw(se3())
    ths = draw(G.vec(n, -1.5, 1.5))
    J = O.jac_space(S, ths)
    if np.linalg.svd(J, compute_uv=False)[min(n, 6) - 1] < 0.05:
        S6 = np.array([[0, 0, 1, 0, 0, 0], [0, 1, 0, -0.4, 0, 0], [0, 1, 0, -0.4, 0, 0.5],
                       [1, 0, 0, 0, 0.4, 0], [0, 1, 0, -0.4, 0, 1.0], [1, 0, 0, 0, 0.45, 0],
                       [0, 0, 1, 0.3, -0.2, 0]], dtype=float).T
        S = np.ascontiguousarray(S6[:, :n])
        ths = np.array([0.3, -0.5, 0.8, 0.4, -0.6, 0.2, 0.5])[:n]
    T = O.poe_space(M, S, ths)
    th0 = ths + draw(G.vec(n, -0.01, 0.01))
    if body:
        B = O.Ad(O.inv(M)) @ S
        return [np.ascontiguousarray(B), M, np.ascontiguousarray(T), th0, 1e-6, 1e-6]
    return [np.ascontiguousarray(S), M, np.ascontiguousarray(T), th0, 1e-6, 1e-6]


@st.composite
def sp_geometry(draw):
    rb, rt = draw(f(0.5, 1.5)), draw(f(0.2, 0.5))
    sb, stp = math.radians(draw(f(5, 20))), math.radians(draw(f(10, 40)))
    bj = np.zeros((3, 6))
    tj = np.zeros((3, 6))
    for k in range(3):
        c = 2 * PI * k / 3
        bj[:, 2 * k] = [rb * math.cos(c - sb), rb * math.sin(c - sb), 0]
        bj[:, 2 * k + 1] = [rb * math.cos(c + sb), rb * math.sin(c + sb), 0]
        c2 = c + PI / 3
        tj[:, 2 * k + 1] = [rt * math.cos(c2 - stp), rt * math.sin(c2 - stp), 0]
        tj[:, (2 * k + 2) % 6] = [rt * math.cos(c2 + stp), rt * math.sin(c2 + stp), 0]
    return bj, tj


@st.composite
def kernel_args(draw, name):
    if name == "NearZero":
        return [draw(st.one_of(f(-1, 1), G.signed_log_uniform(1e-9, 1e-3)))]
    if name in ("Normalize", "AxisAng3"):
        v = draw(G.vec(3, -5, 5))
        return [v if np.linalg.norm(v) > 1e-3 else np.array([1.0, 2.0, 2.0])]
    if name == "AngleMod":
        return [draw(_N7.flatmap(lambda n: G.vec(n, -50, 50)))]
    if name in ("Norm", "VecToso3"):
        return [draw(G.vec(3, -5, 5))]
    if name in ("Norm6", "VecTose3", "ad"):
        return [draw(G.vec6(5))]
    if name == "AxisAng6":
        v = draw(G.twists(vmax=10.0))
        return [v if np.linalg.norm(v) > 1e-3 else np.array([0, 0, 0, 1.0, 0, 0])]
    if name == "RotInv":
        return [draw(rot())]
    if name in ("so3ToVec", "MatrixExp3"):
        return [np.ascontiguousarray(O.hat3(draw(G.rotvecs())))]
    if name == "SafeTrace":
        n = draw(_N5)
        return [draw(G.vec(n * n, -3, 3)).reshape(n, n)]
    if name == "SafeClip":
        a, b = sorted([draw(f(-2, 2)), draw(f(-2, 2))])
        return [draw(f(-3, 3)), a, b]
    if name == "MatrixLog3":
        return [draw(rot())]
    if name == "RpToTrans":
        return [draw(rot()), draw(G.vec(3, -5, 5))]
    if name in ("TransToRp", "TransInv", "Adjoint", "MatrixLog6"):
        return [draw(se3())]
    if name in ("se3ToVec", "MatrixExp6"):
        return [np.ascontiguousarray(O.hat6(draw(G.twists(vmax=10.0))))]
    if name == "ScrewToAxis":
        return [draw(G.vec(3, -3, 3)), draw(G.unit_vectors()), draw(f(-2, 2))]
    if name in ("MatMul", "SafeDot"):
        n, k, m_ = draw(_N5), draw(_N5), draw(_N5)
        return [draw(G.vec(n * k, -3, 3)).reshape(n, k), draw(G.vec(k * m_, -3, 3)).reshape(k, m_)]
    if name in ("LocalToGlobal", "GlobalToLocal"):
        shp = draw(st.sampled_from([(6,), (6, 1)]))
        return [draw(G.taas()).reshape(shp), draw(G.taas()).reshape(shp)]
    if name in ("DistanceToSO3", "TestIfSO3"):
        return [draw(rot()) + draw(G.vec(9, -0.05, 0.05)).reshape(3, 3) * draw(st.sampled_from([0.0, 1e-4, 1.0]))]
    if name in ("DistanceToSE3", "TestIfSE3"):
        return [draw(se3()) + draw(G.vec(16, -0.05, 0.05)).reshape(4, 4) * draw(st.sampled_from([0.0, 1e-4, 1.0]))]
    if name in ("FKinBody", "FKinSpace"):
        S, th = draw(chain_theta())
        return [draw(se3()), S, th]
    if name == "SafeCopy":
        n, k = draw(_N5), draw(_N5)
        return [draw(G.vec(n * k, -3, 3)).reshape(n, k)]
    if name in ("JacobianBody", "JacobianSpace"):
        S, th = draw(chain_theta())
        return [S, th]
    if name == "IKinBody":
        return draw(ik_problem(True))
    if name == "IKinSpace":
        return draw(ik_problem(False)) + [20]
    if name == "IKinSpaceConstrained":
        a = draw(ik_problem(False))
        n = a[0].shape[1]
        return [a[0], a[1], a[2], a[3], 1e-6, 1e-6, -np.ones(n) * PI, np.ones(n) * PI, 30]
    if name == "EulerStep":
        n = draw(_N7)
        return [draw(G.vec(n, -3, 3)), draw(G.vec(n, -3, 3)), draw(G.vec(n, -3, 3)), draw(f(1e-3, 0.5))]
    if name in ("CubicTimeScaling", "QuinticTimeScaling"):
        Tf = draw(f(0.1, 10))
        return [Tf, draw(f(0, 1)) * Tf]
    if name == "JointTrajectory":
        n = draw(_N7)
        return [draw(G.vec(n, -3, 3)), draw(G.vec(n, -3, 3)),
                draw(st.one_of(f(0.1, 10), st.sampled_from([1.0, 2.0, 3.0, 4.0, 0.5, 10.0]))),
                draw(st.integers(0, 11 * 10 ** 6 - 1).map(lambda k: k % 11 + 2)),       # 2..12 samples, see _N7
                draw(st.sampled_from([3, 5]))]
    if name == "SPIKinSpace":
        bj, tj = draw(sp_geometry())
        Tb = draw(se3())
        Tt = Tb @ O.pose_from_taa(np.concatenate([draw(G.vec(3, -0.2, 0.2)) + [0, 0, 1.0], draw(G.vec(3, -0.3, 0.3))]))
        return [Tb, np.ascontiguousarray(Tt), bj, tj, np.zeros((3, 6)), np.zeros((3, 6))]
    if name == "SPFKinSpaceR":
        bj, tj = draw(sp_geometry())
        goal = np.concatenate([draw(G.vec(3, -0.1, 0.1)) + [0, 0, 1.0], draw(G.vec(3, -0.1, 0.1))])
        T = O.pose_from_taa(goal)
        L = np.array([np.linalg.norm(T[:3, :3] @ tj[:, k] + T[:3, 3] - bj[:, k]) for k in range(6)])
        init = np.array([0, 0, 1.0, 0, 0, 0])
        return [L, init, np.ascontiguousarray(bj.T), np.ascontiguousarray(tj.T), 50, 1e-10, 1e-10, 0.3]
    if name == "TrVec":
        return [draw(se3()), draw(G.vec(3, -5, 5))]
    raise HarnessError("no argument strategy for kernel %s" % name)


INT_OK = ["Norm", "Norm6", "Normalize", "VecToso3", "so3ToVec", "VecTose3", "se3ToVec", "RotInv", "SafeTrace",
          "SafeCopy", "MatMul", "SafeDot", "TrVec", "AngleMod", "SafeClip", "ad", "ScrewToAxis", "AxisAng3",
          "AxisAng6", "RpToTrans", "EulerStep", "JointTrajectory", "FKinSpace", "FKinBody", "JacobianSpace",
          "JacobianBody", "Adjoint", "TransInv", "TransToRp", "MatrixExp3", "MatrixExp6",
          "CubicTimeScaling", "QuinticTimeScaling"]

KERNEL_NAMES = ["NearZero", "Normalize", "AngleMod", "Norm", "Norm6", "RotInv", "VecToso3", "so3ToVec", "AxisAng3",
                "MatrixExp3", "SafeTrace", "SafeClip", "MatrixLog3", "RpToTrans", "TransToRp", "TransInv",
                "VecTose3", "se3ToVec", "Adjoint", "ScrewToAxis", "AxisAng6", "MatrixExp6", "MatMul",
                "LocalToGlobal", "GlobalToLocal", "MatrixLog6", "SafeDot", "DistanceToSO3", "DistanceToSE3",
                "TestIfSO3", "TestIfSE3", "FKinBody", "FKinSpace", "SafeCopy", "JacobianBody", "JacobianSpace",
                "IKinBody", "IKinSpace", "ad", "EulerStep", "CubicTimeScaling", "QuinticTimeScaling",
                "JointTrajectory", "IKinSpaceConstrained", "SPIKinSpace", "SPFKinSpaceR", "TrVec"]


def _intify(a):
    if isinstance(a, np.ndarray):
        return np.round(a * 2.0)
    if isinstance(a, float):
        return float(round(a * 2.0))
    return a


# lengths drawn through a wide integer: Hypothesis tends to re-use a small integer it has drawn before for many
# examples in a row, which left whole lengths (an off-by-one that only bites 3-vectors) unvisited in a 1400-case run
_N7 = st.integers(0, 7 * 10 ** 6 - 1).map(lambda k: k % 7 + 1)
_N5 = st.integers(0, 5 * 10 ** 6 - 1).map(lambda k: k % 5 + 1)
_INT_TF = st.sampled_from([1, 2, 5, 12, 1000, 8000, 60000, 250000, 3000000])


@st.composite
def kernel_cases(draw):
    name = draw(st.sampled_from(KERNEL_NAMES))
    args = draw(kernel_args(name))
    # uniform layouts plus ONE fixed mixed pattern: every distinct (kernel, layout tuple) is a separate
    # JIT specialisation, so the number of patterns is what the compile budget pays for
    mode = draw(st.sampled_from(["C", "M", "F", "S", "I"]))
    if mode == "I" and name not in INT_OK:
        mode = "M"
    lays = []
    if mode == "I":
        args = [_intify(a) for a in args]
        lays = ["I" if isinstance(a, (np.ndarray, float)) else "C" for a in args]
        if name in ("Normalize", "AxisAng3", "AxisAng6") and not np.any(args[0]):
            args[0][0] = 1.0
        if name in ("JointTrajectory",):
            # the duration as a whole number of time units (seconds ... microseconds): a Python int
            args[2] = int(draw(_INT_TF))
            lays[2] = "C"
        if name in ("CubicTimeScaling", "QuinticTimeScaling"):
            Tf = int(draw(_INT_TF))
            args = [Tf, int(draw(st.integers(0, Tf)))]
            lays = ["C", "C"]
        if name in ("EulerStep",):
            lays[3] = "C"
            args[3] = 0.5
        if name == "ScrewToAxis":
            lays[2] = "C"
    else:
        k = 0
        for a in args:
            if not isinstance(a, np.ndarray):
                lays.append("C")
            elif mode == "M":
                lays.append(("S", "F", "C")[k % 3])
                k += 1
            else:
                lays.append(mode)
    return {"kind": "kernel", "kernel": name, "args": args, "layouts": lays}


ARM_OPS = ["FK", "FKLink", "FKJoint", "jacobian", "jacobianBody", "jacobianLink", "jacobianEETrans",
           "numericalJacobian", "getJointTransforms", "IK", "IKprotect", "staticForces", "staticForcesInv",
           "staticForcesWithLinkMasses", "velocityAtEndEffector", "getManipulability", "move_then_FK"]
ARM_DYN_OPS = ["massMatrix", "inverseDynamics", "coriolisGravity", "forwardDynamics"]
SP_OPS = ["IK", "FK", "getActuatorLoc", "getJointAnglesFromNorm", "getJointAnglesFromVertical", "inverseJacobian",
          "staticForces", "carryMassCalc", "componentForces", "sumActuatorWrenches", "validate", "spin_then_IK",
          "move_then_IK"]
TM_OPS = ["matmul", "inv", "adjoint", "exp6", "localToGlobal", "globalToLocal", "from_matrix", "setQuat",
          "tripleUnit", "set_index", "arcDistance", "twistFromTransform"]


@st.composite
def entry_cases(draw):
    tgt = draw(st.sampled_from(["arm:sixr", "arm:sixr", "arm:urdf:ur5", "arm:urdf:irb_2400", "arm:urdf:puma_560",
                                "arm:urdf:ur10", "arm:rand", "arm:rand", "sp", "sp", "tm"]))
    base = draw(st.one_of(st.just(np.zeros(6)), G.taas(maxnorm=3.0, maxang=2.0)))
    # index arguments: every value 0..7 (taken modulo the arm's size) with extra mass on the LAST index (-1)
    case = {"kind": "entry", "target": tgt, "base": base, "seed": draw(st.integers(0, 2 ** 31 - 1)),
            "i": draw(st.sampled_from([0, 1, 2, 3, 4, 5, 6, 7, -1, -1, -1]))}
    if tgt == "arm:rand":
        from vf import arms as A
        case["spec"] = draw(A.random_chain_specs(1, 7))
        case["spec"]["base"] = base
    if tgt.startswith("arm"):
        ops = ARM_OPS + (ARM_DYN_OPS if tgt == "arm:sixr" else [])
        if tgt == "arm:rand":
            ops = [o for o in ARM_OPS if o not in ("FKLink", "jacobianLink", "staticForcesWithLinkMasses")]
        case["op"] = draw(st.sampled_from(ops))
        case["theta"] = draw(G.vec(8, -1.2, 1.2))
        case["wrench"] = draw(G.vec6(10))
        case["rates"] = draw(G.vec(8, -1, 1))
        case["acc"] = draw(G.vec(8, -1, 1))
        case["pose"] = draw(G.taas(maxnorm=3.0, maxang=2.0))
    elif tgt == "sp":
        case["op"] = draw(st.sampled_from(SP_OPS))
        case["pose"] = np.concatenate([draw(G.vec(3, -0.15, 0.15)) + [0, 0, 1.15], draw(G.vec(3, -0.2, 0.2))])
        case["pose2"] = draw(G.taas(maxnorm=3.0, maxang=2.0))
        case["wrench"] = draw(G.vec6(10))
        case["fk_mode"] = draw(st.sampled_from([0, 1]))
        case["atype"] = draw(st.sampled_from(["m", "s", "b"]))
        case["spin"] = draw(f(-30, 30))
    else:
        case["op"] = draw(st.sampled_from(TM_OPS))
        case["pose"] = draw(G.taas())
        case["pose2"] = draw(G.taas())
    return case


CLAUSES = [
    Clause("kernels_bounds_and_interpreted", check_kernel, kernel_cases(), 2000, 28000),
    Clause("entry_points_bounds", check_entry, entry_cases(), 1000, 16000),
]


if __name__ == "__main__":
    if "--serve" in sys.argv:
        serve()
