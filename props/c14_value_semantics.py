"""C14 -- value semantics: operators and queries neither mutate nor alias their operands.

A REGISTRY of (name, operand strategies, builder) entries, compiled by reading the classes, grouped in families;
one Hypothesis clause per family, the entry being drawn with ``st.sampled_from`` inside the case (labels give
per-entry counts).  Every case goes through the same procedure (``run_entry``):

  1. build fresh operands from the case (tm / Screw / Wrench / Twist objects, ndarrays, lists, scalars);
  2. fingerprint every operand that is not the DOCUMENTED in-place target of the entry (vf.fingerprint: bytes,
     dtype/shape, object identity, data pointer and memory extent of every reachable ndarray, identity and size of
     every container / library object, value of every scalar leaf);
  3. call the entry through ``sut``;
  4. re-fingerprint: any difference is "operand modified by the call";
  5. mode "value" (operators, inverse, copy constructors, get-accessors): the numeric payload of the result (every
     ndarray reachable from it EXCEPT through the frame_applied / position_applied metadata objects) must not share
     memory with any operand array; then every payload array is changed in place (each element += 1) and, where the
     result supports ``obj[i] = v``, every index is assigned; operands are fingerprinted a third time: any
     difference is "changing the result changed its source";
     mode "nomut" (helpers, robot constructors, ported MR functions): only 1-4 are demanded by the property; storage
     shared between result and operands is recorded as a label, never failed.
"""
import contextlib
import io
import json
import math
import os
import warnings

import numpy as np
from hypothesis import strategies as st

from vf import fingerprint as FP
from vf import gen as G
from vf import oracle as O
from vf.core import Clause, HarnessError, LibError, Violation, sut

PROPERTY_ID = "C14"
RULE = (
    "Registry of operators / accessors / helpers / constructors / MR functions compiled from the class bodies; the "
    "entry is drawn inside the case (uniformly, the two fmin-based helpers a third as often), operands are "
    "Hypothesis-generated poses (six-vectors with rotation angle <= 3.12 < pi, |p_i|<=10, 1/6 special poses incl. "
    "the identity, built through ten different construction routes: list, array, column, 4x4 matrix, "
    "copy(), copy constructor, sTM, sTAA, item assignment, product), screws/wrenches/twists with no / own / equal / "
    "SHARED frame objects, ndarrays of every shape the method documents, ints, floats, dual scalars, and the same "
    "object in both operand positions. Non-trivial: (value mode) at least one ndarray of the result was really "
    "written and the operands were re-fingerprinted afterwards; (nomut mode) the call returned and at least one "
    "operand ndarray was re-fingerprinted; (default_construction) at least one earlier default-constructed instance "
    "was mutated before the fresh one was inspected. Distinct by digest of the case."
)
ASSUMPTIONS = [
    "fingerprints compare exact bytes (NaN / -0.0 exact), dtype, shape, object identity and data pointer of every "
    "ndarray reachable from an operand, so a rebinding of an operand's attribute counts as a modification",
    "exclusions exactly as in the property: __getitem__ (index/slice views) and Screw.__array__ (documented as "
    "returning the internal array) are not in the registry; arrays reachable from a RESULT only through its "
    "frame_applied / position_applied are neither tested for sharing nor written; Wrench(screw) is not in the "
    "registry; documented in-place targets are not fingerprinted: the receiver of changeFrame (and the wrench of "
    "fsr.transformWrenchFrame, a one-line wrapper around it), the first argument of rotationFromVector; AngleMod / "
    "angleMod and joint clamping are not in the registry",
    "an entry whose call raises for reasons unrelated to value semantics is labelled 'raised:<entry>' and not "
    "failed (C03/C12/C02 own those)",
    "helpers, robot constructors and MR functions are only required not to modify what they are given (statement); "
    "results that alias an argument (closeLinearGap/closeArcGap on a zero gap, IKPath's last pose, "
    "planePointsFromTransform) are labelled, not failed",
    "the default frame of fsr.makeWrench is treated as a default-constructed transform (anchor "
    "faser_general.py:388 'default arguments evaluated once')",
]
SHARDS = {"quick": 4, "thorough": 16}

PI = math.pi
META = ("frame_applied", "position_applied")      # metadata objects carried by screws / wrenches
VERIF = os.path.dirname(os.path.dirname(os.path.abspath(__file__)))


# --------------------------------------------------------------------------------------------- library

class _Lib:
    pass


_L = None


def lib():
    global _L
    if _L is None:
        L = _Lib()
        from basic_robotics.general import Screw, Twist, Wrench, fsr, tm
        from basic_robotics.general import basic_helpers as bh
        from basic_robotics.modern_robotics_numba import modern_high_performance as mr
        L.tm, L.Screw, L.Wrench, L.Twist, L.fsr, L.bh, L.mr = tm, Screw, Wrench, Twist, fsr, bh, mr
        L.cls = {"Screw": Screw, "Wrench": Wrench, "Twist": Twist}
        L.defaults = _snapshot_defaults(L)
        _L = L
    return _L


def _snapshot_defaults(L):
    """(function, pristine deep copy of its __defaults__) for every function / method of the value classes and
    helper modules that has a non-scalar default argument.  Taken once, right after import."""
    import copy
    import inspect
    fns = []
    for C in (L.tm, L.Screw, L.Wrench, L.Twist):
        fns += [f for f in vars(C).values() if inspect.isfunction(f)]
    for M in (L.fsr, L.bh):
        fns += [f for f in vars(M).values() if inspect.isfunction(f) and (f.__module__ or "").startswith("basic_robotics.general")]
    out, seen = [], set()
    for f in fns:
        if id(f) in seen or not f.__defaults__:
            continue
        seen.add(id(f))
        if any(not isinstance(d, (bool, int, float, str, type(None))) for d in f.__defaults__):
            out.append((f, copy.deepcopy(f.__defaults__)))
    return out


def reset_library_defaults():
    """A check may not keep state between cases: mutable default arguments of the library ARE process-global
    state (that is what the default_construction clause is about), so every case starts by rebinding them to
    pristine deep copies.  Nothing in the library's code is changed by this."""
    import copy
    for f, pristine in lib().defaults:
        f.__defaults__ = copy.deepcopy(pristine)


@contextlib.contextmanager
def quiet():
    with np.errstate(all="ignore"), warnings.catch_warnings(), contextlib.redirect_stdout(io.StringIO()):
        warnings.simplefilter("ignore")
        yield


def _close_figures():
    import sys
    if "matplotlib.pyplot" in sys.modules:
        sys.modules["matplotlib.pyplot"].close("all")


# --------------------------------------------------------------------------------------------- operand specs

TM_ROUTES = ("list", "array", "col", "matrix", "copy", "ctor", "stm", "staa", "setitem", "product", "matrix4dp")


_TAA_SCALE = np.array([10.0, 10.0, 10.0, 1.8, 1.8, 1.8])      # |p| <= 17.4, rotation angle <= 3.118 < pi
_TAA_SPECIAL = [np.zeros(6), np.array([1.0, 2.0, 3.0, 0.0, 0.0, 0.0]), np.array([0.0, 0.0, 0.0, 0.0, 0.0, PI / 2]),
                np.array([1.0, -2.0, 0.5, 0.3, -0.2, 0.1]), np.array([0.0, 0.0, 0.0, 1e-7, 0.0, 0.0])]


def taas():
    """Cheap pose six-vectors [x y z rx ry rz] (value semantics do not depend on numerically delicate poses; the
    expensive boundary-heavy G.taas would dominate the run time): 1/6 special poses incl. the identity."""
    return st.one_of(
        st.sampled_from(_TAA_SPECIAL),
        st.lists(G.floats(-1.0, 1.0), min_size=6, max_size=6).map(lambda l: np.array(l, dtype=float) * _TAA_SCALE),
        st.lists(G.floats(-1.0, 1.0), min_size=6, max_size=6).map(lambda l: np.array(l, dtype=float) * _TAA_SCALE),
        st.lists(G.floats(-1.0, 1.0), min_size=6, max_size=6).map(lambda l: np.array(l, dtype=float) * _TAA_SCALE),
        st.lists(G.floats(-1.0, 1.0), min_size=6, max_size=6).map(lambda l: np.array(l, dtype=float) * _TAA_SCALE),
        st.lists(G.floats(-1.0, 1.0), min_size=3, max_size=3).map(
            lambda l: np.concatenate([np.array(l, dtype=float) * 10.0, np.zeros(3)])),
        # rotation coordinates wound past a full turn (some component beyond 2 pi)
        st.lists(G.floats(-1.0, 1.0), min_size=6, max_size=6).map(
            lambda l: np.array(l, dtype=float) * np.array([10.0, 10.0, 10.0, 9.0, 9.0, 9.0])),
    )


def mats4():
    """4x4 rigid transforms (built without the library)."""
    return taas().map(lambda t: np.ascontiguousarray(O.pose_from_taa(t)))


def tm_specs():
    return st.fixed_dictionaries({"taa": taas(), "route": st.sampled_from(TM_ROUTES)})


def build_tm(spec):
    """A tm holding the pose of spec['taa'], produced through one of ten routes (operands with a history)."""
    L = lib()
    taa = np.array(spec["taa"], dtype=float).reshape(6)
    r = spec["route"]
    if r == "list":
        return L.tm([float(x) for x in taa])
    if r == "array":
        return L.tm(taa.copy())
    if r == "col":
        return L.tm(taa.reshape((6, 1)).copy())
    if r == "matrix":
        return L.tm(O.pose_from_taa(taa))
    if r == "matrix4dp":
        # a pose copied from a data sheet / log file: the 4x4 to four decimals (orthonormal to ~1e-4 only)
        return L.tm(np.round(O.pose_from_taa(taa), 4))
    if r == "copy":
        return L.tm(taa.copy()).copy()
    if r == "ctor":
        return L.tm(L.tm(taa.copy()))
    if r == "stm":
        t = L.tm()
        t.sTM(O.pose_from_taa(taa))
        return t
    if r == "staa":
        t = L.tm()
        t.sTAA(taa.reshape((6, 1)).copy())
        return t
    if r == "setitem":
        t = L.tm()
        for i in range(6):
            t[i] = float(taa[i])
        return t
    if r == "product":
        return L.tm(taa.copy()) @ L.tm()
    raise HarnessError("unknown tm route %r" % (r,))


def opt(s):
    return st.one_of(st.none(), s)


def screw_specs(classes=("Screw", "Wrench", "Twist")):
    return st.fixed_dictionaries({
        "cls": st.sampled_from(list(classes)), "data": G.vec6(10.0), "shape": st.sampled_from(["col", "flat"]),
        "frame": opt(tm_specs()), "pos": opt(tm_specs()),
    })


def build_screw(spec, frame_obj=None):
    """Screw / Wrench / Twist from a spec; frame_obj (a tm) overrides the spec's frame (shared-frame operands)."""
    L = lib()
    d = np.array(spec["data"], dtype=float).reshape(6)
    data = d.reshape((6, 1)).copy() if spec["shape"] == "col" else d.copy()
    frame = frame_obj if frame_obj is not None else (build_tm(spec["frame"]) if spec["frame"] is not None else None)
    if spec["cls"] == "Wrench":
        pos = build_tm(spec["pos"]) if spec["pos"] is not None else None
        return L.Wrench(data, pos, frame)
    if spec["cls"] == "Twist":
        return L.Twist(data, frame)
    return L.Screw(data, frame)


def second_screw():
    """Second screw-like operand and how its frame relates to the first operand's frame."""
    return st.fixed_dictionaries({"spec": screw_specs(), "rel": st.sampled_from(["own", "own", "equal", "shared", "same"])})


def build_pair(a_spec, b):
    """(a, b) screw-like operands.  rel: own = b's own frame; equal = equal-valued distinct frame object;
    shared = the very same tm object is the frame of both; same = b IS a."""
    a = build_screw(a_spec)
    rel = b["rel"]
    if rel == "same":
        return a, a
    if rel == "shared":
        return a, build_screw(b["spec"], frame_obj=a.frame_applied)
    if rel == "equal":
        return a, build_screw(b["spec"], frame_obj=a.frame_applied.copy())
    return a, build_screw(b["spec"])


nz_floats = st.one_of(G.floats(0.1, 10.0), G.floats(-10.0, -0.1), st.sampled_from([1.0, -1.0, 2.0, 0.5]))
any_floats = st.one_of(G.floats(-10.0, 10.0), st.sampled_from([0.0, 1.0, -1.0, 2.0]))
small_ints = st.integers(-5, 5)
nz_ints = st.sampled_from([-3, -2, -1, 1, 2, 3])


def arr(shape, mag=10.0):
    n = int(np.prod(shape))
    return st.lists(G.floats(-mag, mag), min_size=n, max_size=n).map(
        lambda l: np.array(l, dtype=float).reshape(shape))


def second_tm():
    return st.fixed_dictionaries({"spec": tm_specs(), "rel": st.sampled_from(["own", "own", "own", "equal", "same"])})


def build_tm_pair(a_spec, b):
    a = build_tm(a_spec)
    if b["rel"] == "same":
        return a, a
    if b["rel"] == "equal":
        return a, build_tm({"taa": a_spec["taa"], "route": b["spec"]["route"]})
    return a, build_tm(b["spec"])


# --------------------------------------------------------------------------------------------- registry

class Entry:
    """name; strategies {key: strategy}; make(ops, L) -> (operands {name: object}, call() -> result);
    mode 'value' | 'nomut'; exempt = operand names that are documented in-place targets."""

    def __init__(self, name, strategies, make, mode="value", exempt=()):
        self.name = name
        self.strategies = strategies
        self.make = make
        self.mode = mode
        self.exempt = tuple(exempt)


FAMILIES = {}      # family -> {entry name: Entry}


def reg(family, name, strategies, make, mode="value", exempt=()):
    d = FAMILIES.setdefault(family, {})
    if name in d:
        raise HarnessError("duplicate registry entry %s" % name)
    d[name] = Entry(name, strategies, make, mode, exempt)


def _dunder(obj, name, *args):
    """Call the method the class defines (operators are called as the interpreter would call them)."""
    return getattr(obj, name)(*args)


# ---- tm: operators ------------------------------------------------------------------------------

_TM_OTHER = {
    "tm": (lambda: second_tm(), None),
    "vec6": (lambda: arr((6,)), None),
    "col6": (lambda: arr((6, 1)), None),
    "vec3": (lambda: arr((3,)), None),
    "mat4": (lambda: mats4(), None),
    "float": (lambda: any_floats, None),
    "nzfloat": (lambda: nz_floats, None),
    "int": (lambda: small_ints, None),
    "nzcol6": (lambda: arr((6, 1)).map(lambda a: np.where(np.abs(a) < 0.1, 1.0, a)), None),
}


def _reg_tm_binary(method, kinds):
    for kind in kinds:
        def make(ops, L, method=method, kind=kind):
            if kind == "tm":
                a, b = build_tm_pair(ops["a"], ops["b"])
            else:
                a = build_tm(ops["a"])
                b = ops["b"]
                if isinstance(b, np.ndarray):
                    b = np.array(b, copy=True)
            return {"a": a, "b": b}, (lambda: _dunder(a, method, b))
        reg("tm_operators", "tm.%s(%s)" % (method, kind), {"a": tm_specs(), "b": _TM_OTHER[kind][0]()}, make)


def _reg_tm_unary(family, name, fn, extra=None):
    def make(ops, L, fn=fn):
        a = build_tm(ops["a"])
        return {"a": a}, (lambda: fn(a, L, ops))
    s = {"a": tm_specs()}
    if extra:
        s.update(extra)
    reg(family, name, s, make)


_reg_tm_binary("__add__", ["tm", "vec6", "col6", "vec3", "float", "int"])
_reg_tm_binary("__sub__", ["tm", "vec6", "col6", "vec3", "float", "int"])
_reg_tm_binary("__matmul__", ["tm", "mat4", "float"])
_reg_tm_binary("__rmatmul__", ["tm", "mat4", "float"])
_reg_tm_binary("__mul__", ["tm", "mat4", "float", "int"])
_reg_tm_binary("__rmul__", ["tm", "mat4", "float"])
_reg_tm_binary("__truediv__", ["nzfloat", "nzcol6"])
_reg_tm_binary("__floordiv__", ["tm", "mat4", "nzfloat"])
for _m in ("__eq__", "__ne__", "__gt__", "__lt__", "__le__", "__ge__"):
    _reg_tm_binary(_m, ["tm", "float", "col6"])
_reg_tm_unary("tm_operators", "tm.__abs__()", lambda a, L, ops: abs(a))
_reg_tm_unary("tm_operators", "tm.__sum__()", lambda a, L, ops: a.__sum__())
_reg_tm_unary("tm_operators", "tm.inv()", lambda a, L, ops: a.inv())
_reg_tm_unary("tm_operators", "tm.pinv()", lambda a, L, ops: a.pinv())
_reg_tm_unary("tm_operators", "tm.T()", lambda a, L, ops: a.T())
_reg_tm_unary("tm_operators", "tm.cT()", lambda a, L, ops: a.cT())

# ---- tm: copies and get-accessors ---------------------------------------------------------------

_reg_tm_unary("tm_accessors", "tm.copy()", lambda a, L, ops: a.copy())
_reg_tm_unary("tm_accessors", "tm(tm)", lambda a, L, ops: L.tm(a))
_reg_tm_unary("tm_accessors", "tm.spawnNew(tm)", lambda a, L, ops: L.tm().spawnNew(a))
_reg_tm_unary("tm_accessors", "tm.gTM()", lambda a, L, ops: a.gTM())
_reg_tm_unary("tm_accessors", "tm.gTAA()", lambda a, L, ops: a.gTAA())
_reg_tm_unary("tm_accessors", "tm.gPos()", lambda a, L, ops: a.gPos())
_reg_tm_unary("tm_accessors", "tm.gRot()", lambda a, L, ops: a.gRot())
_reg_tm_unary("tm_accessors", "tm.getQuat()", lambda a, L, ops: a.getQuat())
_reg_tm_unary("tm_accessors", "tm.adjoint()", lambda a, L, ops: a.adjoint())
_reg_tm_unary("tm_accessors", "tm.exp6()", lambda a, L, ops: a.exp6())
_reg_tm_unary("tm_accessors", "tm.approx()", lambda a, L, ops: a.approx(ops["n"]), {"n": st.integers(0, 12)})
_reg_tm_unary("tm_accessors", "tm.tripleUnit()", lambda a, L, ops: a.tripleUnit(ops["lv"]), {"lv": nz_floats})
_reg_tm_unary("tm_accessors", "tm.__str__()", lambda a, L, ops: str(a))


def _make_tm_from_objarray(ops, L):
    a = build_tm(ops["a"])
    box = np.empty(1, dtype=object)
    box[0] = a
    return {"box": box}, (lambda: L.tm(box))


reg("tm_accessors", "tm(ndarray[tm])", {"a": tm_specs()}, _make_tm_from_objarray)

# ---- Screw / Wrench / Twist: operators ----------------------------------------------------------

_SW_OTHER = {
    "obj": lambda: second_screw(),
    "vec6": lambda: arr((6,)),
    "col6": lambda: arr((6, 1)),
    "nzcol6": lambda: arr((6, 1)).map(lambda a: np.where(np.abs(a) < 0.1, 1.0, a)),
    "float": lambda: any_floats,
    "nzfloat": lambda: nz_floats,
    "int": lambda: small_ints,
    "nzint": lambda: nz_ints,
    "row": lambda: st.integers(1, 4).flatmap(lambda k: arr((1, k))),
    "mat": lambda: st.sampled_from([1, 3, 6]).flatmap(lambda k: arr((k, 6))),
    "dual_list": lambda: st.lists(any_floats, min_size=2, max_size=2),
    "dual_arr": lambda: arr((2,)),
}


def _reg_sw_binary(method, kinds, family="screw_wrench_operators"):
    for kind in kinds:
        def make(ops, L, method=method, kind=kind):
            if kind == "obj":
                a, b = build_pair(ops["a"], ops["b"])
            else:
                a = build_screw(ops["a"])
                b = ops["b"]
                if isinstance(b, np.ndarray):
                    b = np.array(b, copy=True)
                elif isinstance(b, list):
                    b = [float(x) for x in b]
            return {"a": a, "b": b}, (lambda: _dunder(a, method, b))
        reg(family, "S.%s(%s)" % (method, kind), {"a": screw_specs(), "b": _SW_OTHER[kind]()}, make)


def _reg_sw_unary(family, name, fn, classes=("Screw", "Wrench", "Twist"), extra=None, mode="value"):
    def make(ops, L, fn=fn):
        a = build_screw(ops["a"])
        return {"a": a}, (lambda: fn(a, L, ops))
    s = {"a": screw_specs(classes)}
    if extra:
        s.update(extra)
    reg(family, name, s, make, mode)


_reg_sw_binary("__add__", ["obj", "vec6", "col6", "float", "int"])
_reg_sw_binary("__radd__", ["vec6", "col6", "float"])
_reg_sw_binary("__sub__", ["obj", "vec6", "col6", "float"])
_reg_sw_binary("__rsub__", ["obj", "vec6", "col6", "float"])
_reg_sw_binary("__matmul__", ["obj", "row"])
_reg_sw_binary("__rmatmul__", ["mat"])
_reg_sw_binary("__mul__", ["float", "int", "obj", "dual_list", "dual_arr", "col6"])
_reg_sw_binary("__rmul__", ["float", "int", "col6"])
_reg_sw_binary("__truediv__", ["nzfloat", "nzint", "nzcol6"])
_reg_sw_binary("__rtruediv__", ["float", "int", "col6"])
_reg_sw_binary("__floordiv__", ["nzfloat", "nzint", "nzcol6"])
_reg_sw_binary("__rfloordiv__", ["float", "col6"])
for _m in ("__eq__", "__ne__", "__gt__", "__lt__", "__le__", "__ge__"):
    _reg_sw_binary(_m, ["obj", "float"])
_reg_sw_binary("cross", ["obj"])
_reg_sw_binary("dot", ["obj"])
_reg_sw_binary("dualScalarMultiply", ["dual_list", "dual_arr"])
_reg_sw_unary("screw_wrench_operators", "S.__abs__()", lambda a, L, ops: abs(a))
_reg_sw_unary("screw_wrench_operators", "S.__sum__()", lambda a, L, ops: a.__sum__())

# ---- Screw / Wrench / Twist: copies and get-accessors -------------------------------------------

_reg_sw_unary("screw_wrench_accessors", "S.copy()", lambda a, L, ops: a.copy())
_reg_sw_unary("screw_wrench_accessors", "S.flatten()", lambda a, L, ops: a.flatten())
_reg_sw_unary("screw_wrench_accessors", "S.getData()", lambda a, L, ops: a.getData())
_reg_sw_unary("screw_wrench_accessors", "S.getPitch()", lambda a, L, ops: a.getPitch())
_reg_sw_unary("screw_wrench_accessors", "S.reshape(shape)", lambda a, L, ops: a.reshape(tuple(ops["shape"])),
              extra={"shape": st.sampled_from([[6], [6, 1], [1, 6], [2, 3], [3, 2], [-1]])})
_reg_sw_unary("screw_wrench_accessors", "S.__str__()", lambda a, L, ops: str(a))
_reg_sw_unary("screw_wrench_accessors", "Wrench.getMoment()", lambda a, L, ops: a.getMoment(), classes=("Wrench",))
_reg_sw_unary("screw_wrench_accessors", "Wrench.getForce()", lambda a, L, ops: a.getForce(), classes=("Wrench",))
_reg_sw_unary("screw_wrench_accessors", "Twist.toTM()", lambda a, L, ops: a.toTM(), classes=("Twist",))
_reg_sw_unary("screw_wrench_accessors", "Twist.toScrew()", lambda a, L, ops: a.toScrew(), classes=("Twist",))
_reg_sw_unary("screw_wrench_accessors", "Twist.twistMatrix()", lambda a, L, ops: a.twistMatrix(), classes=("Twist",))


def _make_change_frame(with_old):
    def make(ops, L):
        a = build_screw(ops["a"])
        new = build_tm(ops["new"])
        operands = {"self": a, "new_frame": new}
        if with_old:
            old = build_tm(ops["old"])
            operands["old_frame"] = old
            return operands, (lambda: a.changeFrame(new, old))
        return operands, (lambda: a.changeFrame(new))
    return make


reg("screw_wrench_accessors", "S.changeFrame(new)", {"a": screw_specs(), "new": tm_specs()},
    _make_change_frame(False), mode="nomut", exempt=("self",))
reg("screw_wrench_accessors", "S.changeFrame(new, old)", {"a": screw_specs(), "new": tm_specs(), "old": tm_specs()},
    _make_change_frame(True), mode="nomut", exempt=("self",))

# ---- fsr / basic_helpers ------------------------------------------------------------------------


def _reg_h_tm2(name, fn, extra=None, exempt=(), family="fsr_helpers"):
    """helper(tm, tm, ...)"""
    def make(ops, L, fn=fn):
        if exempt:
            a, b = build_tm(ops["a"]), build_tm(ops["b"]["spec"])
        else:
            a, b = build_tm_pair(ops["a"], ops["b"])
        return {"a": a, "b": b}, (lambda: fn(L, a, b, ops))
    s = {"a": tm_specs(), "b": second_tm()}
    if extra:
        s.update(extra)
    reg(family, name, s, make, mode="nomut", exempt=exempt)


def _reg_h_tm3(name, fn, extra=None):
    def make(ops, L, fn=fn):
        a, b = build_tm_pair(ops["a"], ops["b"])
        c = a if ops["c"]["rel"] == "same" else build_tm(ops["c"]["spec"])
        return {"a": a, "b": b, "c": c}, (lambda: fn(L, a, b, c, ops))
    s = {"a": tm_specs(), "b": second_tm(), "c": second_tm()}
    if extra:
        s.update(extra)
    reg("fsr_helpers", name, s, make, mode="nomut")


def _reg_h_arrays(name, strategies, fn, family="fsr_helpers"):
    """helper(ndarray / list / scalar arguments taken from the case as fresh copies)."""
    def make(ops, L, fn=fn):
        args = {k: _fresh(v) for k, v in ops.items()}
        return dict(args), (lambda: fn(L, args))
    reg(family, name, strategies, make, mode="nomut")


def _fresh(v):
    if isinstance(v, np.ndarray):
        return np.array(v, copy=True)
    if isinstance(v, list):
        return [_fresh(x) for x in v]
    if isinstance(v, tuple):
        return tuple(_fresh(x) for x in v)
    if isinstance(v, dict):
        return {k: _fresh(x) for k, x in v.items()}
    return v


_delta = st.one_of(G.floats(0.0, 2.0), st.sampled_from([0.0, 0.1, 1.0]))

_reg_h_tm2("fsr.localToGlobal(tm,tm)", lambda L, a, b, o: L.fsr.localToGlobal(a, b))
_reg_h_tm2("fsr.globalToLocal(tm,tm)", lambda L, a, b, o: L.fsr.globalToLocal(a, b))
_reg_h_tm2("fsr.distance(tm,tm)", lambda L, a, b, o: L.fsr.distance(a, b))
_reg_h_tm2("fsr.arcDistance(tm,tm)", lambda L, a, b, o: L.fsr.arcDistance(a, b))
_reg_h_tm2("fsr.poseError(tm,tm)", lambda L, a, b, o: L.fsr.poseError(a, b))
_reg_h_tm2("fsr.geometricError(tm,tm)", lambda L, a, b, o: L.fsr.geometricError(a, b))
_reg_h_tm2("fsr.tmAvgMidpoint(tm,tm)", lambda L, a, b, o: L.fsr.tmAvgMidpoint(a, b))
_reg_h_tm2("fsr.tmInterpMidpoint(tm,tm)", lambda L, a, b, o: L.fsr.tmInterpMidpoint(a, b))
_reg_h_tm2("fsr.closeLinearGap(tm,tm,d)", lambda L, a, b, o: L.fsr.closeLinearGap(a, b, o["d"]), {"d": _delta})
_reg_h_tm2("fsr.closeArcGap(tm,tm,d)", lambda L, a, b, o: L.fsr.closeArcGap(a, b, o["d"]), {"d": _delta})
_reg_h_tm2("fsr.IKPath(tm,tm,n)", lambda L, a, b, o: L.fsr.IKPath(a, b, o["n"]), {"n": st.integers(2, 6)})
_reg_h_tm2("fsr.lookAt(tm,tm)", lambda L, a, b, o: L.fsr.lookAt(a, b))
_reg_h_tm2("fsr.twistToGoal(tm,tm)", lambda L, a, b, o: L.fsr.twistToGoal(a, b))
_reg_h_tm2("fsr.getUnitVec(tm,tm,d)", lambda L, a, b, o: L.fsr.getUnitVec(a, b, o["d"], o["rd"]),
           {"d": nz_floats, "rd": st.booleans()})
_reg_h_tm2("fsr.mirror(tm,tm)", lambda L, a, b, o: L.fsr.mirror(a, b))
_reg_h_tm2("fsr.rotationFromVector(tm*,tm)", lambda L, a, b, o: L.fsr.rotationFromVector(a, b), exempt=("a",))
_reg_h_tm3("fsr.adjustRotationToMidpoint(tm,tm,tm,mode=0)",
           lambda L, a, b, c, o: L.fsr.adjustRotationToMidpoint(a, b, c, mode=0))
_reg_h_tm3("fsr.adjustRotationToMidpoint(tm,tm,tm,mode=1)",
           lambda L, a, b, c, o: L.fsr.adjustRotationToMidpoint(a, b, c, mode=1))
_reg_h_tm3("fsr.planeFromThreePoints(tm,tm,tm)", lambda L, a, b, c, o: L.fsr.planeFromThreePoints(a, b, c))
_reg_h_tm3("fsr.angleBetween(tm,tm,tm)", lambda L, a, b, c, o: L.fsr.angleBetween(a, b, c))


def _make_tm1(fn):
    def make(ops, L):
        a = build_tm(ops["a"])
        return {"a": a}, (lambda: fn(L, a, ops))
    return make


reg("fsr_helpers", "fsr.planePointsFromTransform(tm)", {"a": tm_specs()},
    _make_tm1(lambda L, a, o: L.fsr.planePointsFromTransform(a)), mode="nomut")
reg("fsr_helpers", "fsr.twistFromTransform(tm)", {"a": tm_specs()},
    _make_tm1(lambda L, a, o: L.fsr.twistFromTransform(a)), mode="nomut")


def _make_transform_by_vector(ops, L):
    a = build_tm(ops["a"])
    v = np.array(ops["v"], copy=True)
    return {"a": a, "v": v}, (lambda: L.fsr.transformByVector(a, v))


reg("fsr_helpers", "fsr.transformByVector(tm,vec3)", {"a": tm_specs(), "v": arr((3,))}, _make_transform_by_vector,
    mode="nomut")

_reg_h_arrays("fsr.distance(vec3,vec3)", {"a": arr((3,)), "b": arr((3,))},
              lambda L, g: L.fsr.distance(g["a"], g["b"]))
_reg_h_arrays("fsr.distance(vec2,vec2)", {"a": arr((2,)), "b": arr((2,))},
              lambda L, g: L.fsr.distance(g["a"], g["b"]))
_reg_h_arrays("fsr.planeFromThreePoints(vec3 x3)", {"a": arr((3,)), "b": arr((3,)), "c": arr((3,))},
              lambda L, g: L.fsr.planeFromThreePoints(g["a"], g["b"], g["c"]))
_reg_h_arrays("bh.TAAtoTM(col6)", {"a": taas().map(lambda t: t.reshape((6, 1)))},
              lambda L, g: L.bh.TAAtoTM(g["a"]))
_reg_h_arrays("bh.TAAtoTM(vec6)", {"a": taas()}, lambda L, g: L.bh.TAAtoTM(g["a"]))
_reg_h_arrays("bh.TMtoTAA(mat4)", {"a": mats4()}, lambda L, g: L.bh.TMtoTAA(g["a"]))
_reg_h_arrays("fsr.twistToScrew(col6)", {"a": G.twists(vmax=10.0).map(lambda t: t.reshape((6, 1)))},
              lambda L, g: L.fsr.twistToScrew(g["a"]))
_reg_h_arrays("fsr.normalizeTwist(col6)", {"a": G.twists(vmax=10.0).map(lambda t: t.reshape((6, 1)))},
              lambda L, g: L.fsr.normalizeTwist(g["a"]))
_reg_h_arrays("fsr.transformFromTwist(vec6)", {"a": G.twists(vmax=10.0, ang=G.angles_below(PI - 1e-3))},
              lambda L, g: L.fsr.transformFromTwist(g["a"]))
_reg_h_arrays("fsr.transformFromTwist(col6)",
              {"a": G.twists(vmax=10.0, ang=G.angles_below(PI - 1e-3)).map(lambda t: t.reshape((6, 1)))},
              lambda L, g: L.fsr.transformFromTwist(g["a"]))
_reg_h_arrays("fsr.setElements(data,inds,vals)",
              {"data": arr((6,)), "inds": st.lists(st.integers(0, 5), min_size=1, max_size=4).map(
                  lambda l: np.array(l, dtype=int)), "vals": arr((4,))},
              lambda L, g: L.fsr.setElements(g["data"], g["inds"], g["vals"]))
_reg_h_arrays("fsr.numericalJacobian(f,x,h)", {"x": arr((3,), 2.0), "A": arr((3, 3), 2.0)},
              lambda L, g: L.fsr.numericalJacobian(lambda x: g["A"] @ np.sin(x), g["x"], 1e-4))


@st.composite
def _chain_q(draw, nmax=5):
    S = draw(G.chains(1, nmax))
    n = S.shape[1]
    q = np.array([draw(_joint()) for _ in range(n)], dtype=float)
    return {"S": S, "q": q}


def _joint():
    return st.one_of(G.floats(-2 * PI, 2 * PI), st.sampled_from([0.0, 1e-7, PI / 2, PI, 1.0, -1.0]))


def _make_chain_jac(ops, L):
    S = np.array(ops["m"]["S"], copy=True)
    q = np.array(ops["m"]["q"], copy=True)
    return {"screws": S, "theta": q}, (lambda: L.fsr.chainJacobian(S, q))


reg("fsr_helpers", "fsr.chainJacobian(S,q)", {"m": _chain_q()}, _make_chain_jac, mode="nomut")


def _tri():
    return st.lists(arr((3,)), min_size=3, max_size=3)


def _make_surface_normal(ops, L):
    tri = [np.array(t, copy=True) for t in ops["tri"]]
    c = build_tm(ops["c"]) if ops["c"] is not None else None
    if ops["as_array"]:
        tri = np.array(tri)
    return {"tri": tri, "center": c}, (lambda: L.fsr.getSurfaceNormal(tri, c))


reg("fsr_helpers", "fsr.getSurfaceNormal(tri,center)", {"tri": _tri(), "c": opt(tm_specs()), "as_array": st.booleans()},
    _make_surface_normal, mode="nomut")


def _make_make_wrench(ops, L):
    pos = build_tm(ops["pos"])
    d = np.array(ops["dir"], copy=True)
    dirv = [float(x) for x in d] if ops["as_list"] else d
    operands = {"position": pos, "direction": dirv}
    if ops["frame"] is not None:
        fr = build_tm(ops["frame"])
        operands["frame"] = fr
        return operands, (lambda: L.fsr.makeWrench(pos, ops["f"], dirv, fr))
    return operands, (lambda: L.fsr.makeWrench(pos, ops["f"], dirv))


reg("fsr_helpers", "fsr.makeWrench(pos,f,dir[,frame])",
    {"pos": tm_specs(), "f": any_floats, "dir": arr((3,)), "as_list": st.booleans(), "frame": opt(tm_specs())},
    _make_make_wrench, mode="nomut")


def _make_transform_wrench_frame(ops, L):
    w = build_screw(ops["w"])
    old, new = build_tm_pair(ops["old"], ops["new"])
    return {"wrench": w, "old_frame": old, "new_frame": new}, (lambda: L.fsr.transformWrenchFrame(w, old, new))


reg("fsr_helpers", "fsr.transformWrenchFrame(wrench*,old,new)",
    {"w": screw_specs(("Wrench",)), "old": tm_specs(), "new": second_tm()}, _make_transform_wrench_frame,
    mode="nomut", exempt=("wrench",))


# ---- robot constructors -------------------------------------------------------------------------

def _lengths():
    return st.one_of(st.just([4.5, 3.75, 3.75, 0.1]),
                     st.lists(G.floats(0.05, 6.0), min_size=4, max_size=4))


def _bases():
    """identity AND non-identity bases (rotation <= pi-1e-3)."""
    return st.one_of(st.just(np.zeros(6)), taas(), taas())


_RESIDUE = np.array([6.123233995736766e-17, -0.0, 3.061616997868383e-17, -1.8369701987210297e-16, 0.0, -6.1e-13])


def sixr_arguments(L, lengths, base_taa, ee_as, residue=False):
    """The constructor arguments of the suite's 6R arm (tests/test_kinematics_arm.py::setUp), built the same way
    (transposed integer axes, transposed homes, float screw list filled column by column)."""
    L1, L2, L3, W = (float(x) for x in lengths)
    base = L.tm(np.array(base_taa, dtype=float).reshape(6).copy())
    ee_col = np.array([[L2 + L3 + W + W + W], [0], [L1], [0], [0], [0]])
    ee = L.fsr.TAAtoTM(ee_col) if ee_as == "matrix" else L.tm(ee_col)
    axes = np.array([[0, 0, 1], [0, 1, 0], [0, 1, 0], [1, 0, 0], [0, 1, 0], [1, 0, 0]]).conj().T
    homes = np.array([[0, 0, 0], [0, 0, L1], [L2, 0, L1], [L2 + L3, 0, L1], [L2 + L3 + W, 0, L1],
                      [L2 + L3 + 2 * W, 0, L1]]).conj().T
    if residue:
        # a joint table computed with trigonometry (0.5*cos(pi/2) = 3.06e-17, -0.0, ...): the zero y coordinates carry
        # round-off residue; the arrays are the caller's all the same
        homes = homes.astype(float)
        homes[1, :] = _RESIDUE
    screws = np.zeros((6, 6))
    for i in range(0, 6):
        screws[0:6, i] = np.hstack((axes[0:3, i], np.cross(homes[0:3, i], axes[0:3, i])))
    return {"base": base, "screw_list": screws, "ee_home": ee, "joint_homes": homes, "joint_axes": axes}


def _make_arm(ops, L):
    from basic_robotics.kinematics import Arm
    a = sixr_arguments(L, ops["L"], ops["base"], ops["ee_as"], bool(ops.get("residue")))
    if ops["with_axes"]:
        return a, (lambda: Arm(a["base"], a["screw_list"], a["ee_home"], a["joint_homes"], a["joint_axes"]))
    a.pop("joint_axes")
    return a, (lambda: Arm(a["base"], a["screw_list"], a["ee_home"], a["joint_homes"]))


reg("robot_constructors", "Arm(6R)", {"L": _lengths(), "base": _bases(), "ee_as": st.sampled_from(["matrix", "tm"]),
                                      "with_axes": st.booleans(), "residue": st.booleans()}, _make_arm, mode="nomut")


def _sp_specs():
    from vf import sps
    return sps.sp_specs(routes=("newSP",), spin=False, base=True, masses=False)


def _sp_json(spec, name):
    return {
        "Name": name, "Type": "SP",
        "BottomPlate": {"Thickness": spec["tb"], "JointRadius": spec["rb"], "JointSpacing": spec["sb"], "Mass": 0},
        "TopPlate": {"Thickness": spec["tt"], "JointRadius": spec["rt"], "JointSpacing": spec["st"], "Mass": 0},
        "Actuators": {"MinExtension": spec["lmin"], "MaxExtension": spec["lmax"], "MotorMass": 0, "ShaftMass": 0,
                      "ForceLimit": 800, "MotorCOGD": 0, "ShaftCOGD": 0},
        "Drawing": {"TopRadius": spec["rt"], "BottomRadius": spec["rb"], "ShaftRadius": 0.1, "MotorRadius": 0.2},
        "Settings": {"MaxAngleDev": 70.0, "GenerateActuators": 0, "IgnoreRestHeight": 1, "UseSpin": 0,
                     "AssignMasses": 0, "InferActuatorCOG": 1},
        "Params": {"RestHeight": 0, "Spin": 0},
    }


def _make_sp(route):
    def make(ops, L):
        from basic_robotics.kinematics import sp_model as spm
        from vf import sps
        spec = ops["spec"]
        base = L.tm(np.array(spec["base"], dtype=float).reshape(6).copy())
        if route == "SP":
            b, t, h = sps.spec_geometry(dict(spec, route="newSP"))
            bj, tj = np.ascontiguousarray(b), np.ascontiguousarray(t)
            top = base @ L.tm([0.0, 0.0, float(h), 0.0, 0.0, 0.0])
            operands = {"bottom_joints": bj, "top_joints": tj, "bT": base, "tT": top}
            return operands, (lambda: spm.SP(bj, tj, base, top, spec["lmin"], spec["lmax"], spec["tb"], spec["tt"],
                                             "vf_c14"))
        if route == "newSP":
            return {"base": base}, (lambda: spm.newSP(spec["rb"], spec["rt"], spec["sb"], spec["st"], spec["tb"],
                                                      spec["tt"], 0, 0, 0, 0, 0, 0, spec["lmin"], spec["lmax"],
                                                      base, "vf_c14", spec["rot"]))
        if route == "makeSP":
            _, _, h = sps.spec_geometry(dict(spec, route="makeSP", alt_rot=0.0))
            return {"base": base}, (lambda: spm.makeSP(spec["rb"], spec["rt"], spec["sb"], base, h, spec["rot"],
                                                       spec["tb"], 0.0))
        if route == "loadSP":
            d = os.path.join(VERIF, ".cache", "sp_json")

            def call():
                os.makedirs(d, exist_ok=True)
                fname = "c14-%d.json" % os.getpid()
                path = os.path.join(d, fname)
                try:
                    with open(path, "w") as f:
                        json.dump(_sp_json(spec, "vf_c14"), f)
                    return spm.loadSP(fname, d + os.sep, base, spec["rot"])
                finally:
                    if os.path.exists(path):
                        os.remove(path)
            return {"base": base}, call
        raise HarnessError(route)
    return make


for _r in ("SP", "newSP", "makeSP", "loadSP"):
    reg("robot_constructors", "%s(...)" % _r, {"spec": st.deferred(_sp_specs)}, _make_sp(_r), mode="nomut")


# ... and the arrays stay the caller's own for as long as the robot lives: a constructor that KEEPS what it was handed
# is only harmless until some later method writes into it.  Same operands, but the robot is used before they are
# fingerprinted again.
def _make_sp_used(ops, L):
    operands, ctor = _make_sp("SP")(ops, L)

    def call():
        sp = ctor()
        sp.spinCustom(float(ops["spin"]))
        sp.move(L.tm(np.array(ops["pose"], dtype=float).reshape(6).copy()))
        rel = sp.getBottomT().inv() @ sp.getTopT()
        sp.IK(top_plate_pos=sp.getBottomT() @ rel, protect=True)
        return sp
    return operands, call


def _make_arm_used(ops, L):
    operands, ctor = _make_arm(ops, L)

    def call():
        arm = ctor()
        arm.FK(np.array(ops["theta"], dtype=float).reshape(6).copy())
        arm.move(L.tm(np.array(ops["pose"], dtype=float).reshape(6).copy()))
        arm.FK(np.array(ops["theta"], dtype=float).reshape(6).copy() * 0.5)
        return arm
    return operands, call


reg("robot_constructors", "SP(...) then spinCustom/move/IK", {"spec": st.deferred(_sp_specs), "spin": G.floats(-1.0, 1.0),
                                                               "pose": G.taas(maxnorm=3.0, maxang=1.0)},
    _make_sp_used, mode="nomut")
reg("robot_constructors", "Arm(6R) then FK/move/FK", {"L": _lengths(), "base": _bases(),
                                                      "ee_as": st.sampled_from(["matrix", "tm"]),
                                                      "with_axes": st.booleans(), "residue": st.booleans(),
                                                      "theta": G.vec(6, -3.0, 3.0),
                                                      "pose": G.taas(maxnorm=3.0, maxang=2.0)},
    _make_arm_used, mode="nomut")


# ---- ported Modern Robotics functions ------------------------------------------------------------

def _near(strategy, eps=0.05):
    """matrix + small perturbation (ProjectTo* / DistanceTo* / TestIf* take matrices NEAR the group)."""
    return st.tuples(strategy, st.integers(0, 2 ** 31 - 1), st.sampled_from([0.0, 1e-9, 1e-3, eps])).map(
        lambda t: np.ascontiguousarray(t[0] + t[2] * np.random.RandomState(t[1]).uniform(-1, 1, t[0].shape)))


_R3 = G.se3s(maxnorm=1.0).map(lambda T: np.ascontiguousarray(T[:3, :3]))
_SO3MAT = G.rotvecs().map(O.hat3)
_SE3MAT = G.twists(vmax=10.0).map(O.hat6)

POOL = {
    "z": any_floats, "x": any_floats, "lo": G.floats(-5, 0), "hi": G.floats(0, 5), "h": G.floats(-2, 2),
    "v3": arr((3,)), "v6": arr((6,)), "w": G.rotvecs(), "V": G.twists(vmax=10.0), "R": _R3, "p": arr((3,)),
    "T": G.se3s(maxnorm=10.0), "T2": G.se3s(maxnorm=10.0), "so3": _SO3MAT, "se3": _SE3MAT,
    "q3": arr((3,)), "s3": G.unit_vectors(), "A4": arr((4, 4)), "B4": arr((4, 4)),
    "taa1": G.taas(10.0).map(lambda t: t.reshape((6, 1))), "taa2": G.taas(10.0).map(lambda t: t.reshape((6, 1))),
    "Rn": _near(_R3), "Tn": _near(G.se3s(maxnorm=2.0)),
    "Tf": G.log_uniform(1e-2, 1e2), "s": G.floats(0.0, 1.0),
    "Xs": G.se3s(maxnorm=5.0, ang=G.angles_below(1.5)), "Xe": G.se3s(maxnorm=5.0, ang=G.angles_below(1.5)),
    "N": st.integers(2, 6), "method": st.sampled_from([3, 5]),
    "A2": st.tuples(st.integers(1, 4), st.integers(1, 4)).flatmap(lambda rc: arr(rc)),
}
CANON = None


def _canon():
    """Deterministic value for every POOL key / model (used by warm() to compile each kernel once)."""
    global CANON
    if CANON is None:
        T = O.pose_from_taa([1.0, 2.0, 3.0, 0.3, -0.2, 0.5])
        T2 = O.pose_from_taa([-1.0, 0.5, 0.2, 0.1, 0.7, -0.4])
        CANON = {
            "z": 0.5, "x": 0.3, "lo": -1.0, "hi": 1.0, "h": 0.1, "v3": np.array([1.0, 2.0, 3.0]),
            "v6": np.arange(6.0) + 1, "w": np.array([0.1, 0.2, 0.3]), "V": np.array([0.1, 0.2, 0.3, 1.0, 2.0, 3.0]),
            "R": np.ascontiguousarray(T[:3, :3]), "p": np.array([1.0, 2.0, 3.0]), "T": T, "T2": T2,
            "so3": O.hat3([0.1, 0.2, 0.3]), "se3": O.hat6([0.1, 0.2, 0.3, 1.0, 2.0, 3.0]),
            "q3": np.array([1.0, 0.0, 2.0]), "s3": np.array([0.0, 0.0, 1.0]), "A4": np.eye(4) * 2, "B4": np.eye(4) + 1,
            "taa1": np.array([1.0, 2, 3, 0.1, 0.2, 0.3]).reshape((6, 1)),
            "taa2": np.array([0.5, 1, -1, 0.3, 0.1, -0.2]).reshape((6, 1)),
            "Rn": np.ascontiguousarray(T[:3, :3] + 0.01), "Tn": np.ascontiguousarray(T + 0.01), "Tf": 2.0, "s": 0.4,
            "Xs": T, "Xe": T2, "N": 3, "method": 3, "A2": np.ones((2, 3)),
        }
    return CANON


def _c(a):
    return np.ascontiguousarray(np.array(a, dtype=float, copy=True))


_LAYOUTS = st.sampled_from(["C", "C", "F", "T"])


def _lay(v, layout):
    if isinstance(v, np.ndarray) and v.ndim == 2 and v.dtype.kind == "f" and layout != "C":
        if layout == "F":
            return np.asfortranarray(v)
        return np.ascontiguousarray(v.T).T        # transposed view of a row-major buffer holding v^T
    return v


def _reg_mr(name, needs, argf):
    """argf(g) -> ordered list of (argname, value) built from fresh copies g of the case's pool entries."""
    def make(ops, L, name=name, argf=argf):
        lay = ops.get("layout", "C")
        g = {k: _lay(_c(v) if isinstance(v, np.ndarray) else v, lay) for k, v in ops.items() if k != "layout"}
        args = argf(g)
        fn = getattr(L.mr, name)
        vals = [v for _, v in args]
        if lay == "C":
            return dict(args), (lambda: fn(*vals))

        def call():
            # a column-major matrix (or the transposed view of a row-major one, as R.T is) is an ordinary argument;
            # whether a function ACCEPTS that layout is C17's subject: a refusal (the same values in row-major order
            # are accepted) is not counted here, what is looked at is whether the arrays handed over are left alone
            try:
                return fn(*vals)
            except Exception:
                fn(*[(_c(np.ascontiguousarray(v)) if isinstance(v, np.ndarray) else v) for v in vals])
                return None
        return dict(args), call
    s = {k: POOL[k] for k in needs}
    s["layout"] = _LAYOUTS
    reg("mr_functions", "mr." + name, s, make, mode="nomut")


_reg_mr("NearZero", ["z"], lambda g: [("z", g["z"])])
_reg_mr("Normalize", ["v3"], lambda g: [("V", g["v3"])])
_reg_mr("Norm", ["v3"], lambda g: [("v", g["v3"])])
_reg_mr("Norm6", ["v6"], lambda g: [("v", g["v6"])])
_reg_mr("RotInv", ["R"], lambda g: [("R", g["R"])])
_reg_mr("VecToso3", ["w"], lambda g: [("omg", g["w"])])
_reg_mr("so3ToVec", ["so3"], lambda g: [("so3mat", g["so3"])])
_reg_mr("AxisAng3", ["w"], lambda g: [("expc3", g["w"])])
_reg_mr("MatrixExp3", ["so3"], lambda g: [("so3mat", g["so3"])])
_reg_mr("SafeTrace", ["R"], lambda g: [("R", g["R"])])
_reg_mr("SafeClip", ["x", "lo", "hi"], lambda g: [("x", g["x"]), ("mn", g["lo"]), ("mx", g["hi"])])
_reg_mr("MatrixLog3", ["R"], lambda g: [("R", g["R"])])
_reg_mr("RpToTrans", ["R", "p"], lambda g: [("R", g["R"]), ("p", g["p"])])
_reg_mr("TransToRp", ["T"], lambda g: [("T", g["T"])])
_reg_mr("TransInv", ["T"], lambda g: [("T", g["T"])])
_reg_mr("VecTose3", ["V"], lambda g: [("V", g["V"])])
_reg_mr("se3ToVec", ["se3"], lambda g: [("se3mat", g["se3"])])
_reg_mr("Adjoint", ["T"], lambda g: [("T", g["T"])])
_reg_mr("ScrewToAxis", ["q3", "s3", "h"], lambda g: [("q", g["q3"]), ("s", g["s3"]), ("h", g["h"])])
_reg_mr("AxisAng6", ["V"], lambda g: [("expc6", g["V"])])
_reg_mr("MatrixExp6", ["se3"], lambda g: [("se3mat", g["se3"])])
_reg_mr("MatMul", ["A4", "B4"], lambda g: [("A", g["A4"]), ("B", g["B4"])])
_reg_mr("SafeDot", ["A4", "B4"], lambda g: [("A", g["A4"]), ("B", g["B4"])])
_reg_mr("LocalToGlobal", ["taa1", "taa2"], lambda g: [("reference", g["taa1"]), ("rel", g["taa2"])])
_reg_mr("GlobalToLocal", ["taa1", "taa2"], lambda g: [("reference", g["taa1"]), ("rel", g["taa2"])])
_reg_mr("MatrixLog6", ["T"], lambda g: [("T", g["T"])])
_reg_mr("ProjectToSO3", ["Rn"], lambda g: [("mat", g["Rn"])])
_reg_mr("ProjectToSE3", ["Tn"], lambda g: [("mat", g["Tn"])])
_reg_mr("DistanceToSO3", ["Rn"], lambda g: [("mat", g["Rn"])])
_reg_mr("DistanceToSE3", ["Tn"], lambda g: [("mat", g["Tn"])])
_reg_mr("TestIfSO3", ["Rn"], lambda g: [("mat", g["Rn"])])
_reg_mr("TestIfSE3", ["Tn"], lambda g: [("mat", g["Tn"])])
_reg_mr("SafeCopy", ["A2"], lambda g: [("arr", g["A2"])])
_reg_mr("ad", ["V"], lambda g: [("V", g["V"])])
_reg_mr("CubicTimeScaling", ["Tf", "s"], lambda g: [("Tf", g["Tf"]), ("t", g["s"] * g["Tf"])])
_reg_mr("QuinticTimeScaling", ["Tf", "s"], lambda g: [("Tf", g["Tf"]), ("t", g["s"] * g["Tf"])])
_reg_mr("ScrewTrajectory", ["Xs", "Xe", "Tf", "N", "method"],
        lambda g: [("Xstart", g["Xs"]), ("Xend", g["Xe"]), ("Tf", g["Tf"]), ("N", g["N"]), ("method", g["method"])])
_reg_mr("CartesianTrajectory", ["Xs", "Xe", "Tf", "N", "method"],
        lambda g: [("Xstart", g["Xs"]), ("Xend", g["Xe"]), ("Tf", g["Tf"]), ("N", g["N"]), ("method", g["method"])])


def _rates(n, mag):
    return st.lists(st.one_of(G.floats(-mag, mag), st.just(0.0)), min_size=n, max_size=n).map(
        lambda l: np.array(l, dtype=float))


def _inertias():
    """SPD 6x6 spatial inertias Ad(Tc)^T diag(Ic, m 1) Ad(Tc) (cheap: diagonal Ic, pose from taas())."""
    def build(t):
        a, m, taa, shifted = t
        G0 = np.diag([a[0], a[1], a[2], m, m, m])
        if not shifted:
            return np.ascontiguousarray(G0)
        A = O.Ad(O.pose_from_taa(taa * np.array([0.05, 0.05, 0.05, 1, 1, 1])))
        Gm = A.T @ G0 @ A
        return np.ascontiguousarray((Gm + Gm.T) / 2)
    return st.tuples(st.lists(G.floats(0.01, 5.0), min_size=3, max_size=3), G.floats(0.1, 50.0), taas(),
                     st.booleans()).map(build)


@st.composite
def dyn_models(draw, nmax=4, traj=False):
    """A consistent open-chain model: screws 6xn, home pose, link frames (n+1), SPD spatial inertias (n), joint
    vectors, gravity, tip wrench; with traj=True also N x n / N x 6 trajectory matrices (N = 2..3)."""
    S = draw(G.chains(1, nmax))
    n = S.shape[1]
    m = {
        "S": S, "M": draw(mats4()), "T": draw(mats4()),
        "q": np.array([draw(_joint()) for _ in range(n)], dtype=float),
        "q2": np.array([draw(_joint()) for _ in range(n)], dtype=float),
        "dq": draw(_rates(n, 5.0)), "ddq": draw(_rates(n, 5.0)), "tau": draw(_rates(n, 20.0)),
        "eint": draw(_rates(n, 1.0)),
        "g": draw(st.sampled_from([np.array([0, 0, -9.81]), np.array([0.0, 0, 0]), np.array([1.0, -2.0, 3.0])])),
        "Ftip": draw(arr((6,), 5.0)),
        "Mlist": np.stack([draw(mats4()) for _ in range(n + 1)]),
        "Glist": np.stack([draw(_inertias()) for _ in range(n)]),
        "as_list": draw(st.booleans()),
        "eomg": draw(st.sampled_from([1e-2, 1e-4])), "ev": draw(st.sampled_from([1e-2, 1e-4])),
        "dt": draw(st.sampled_from([1e-3, 1e-2])), "Tf": draw(G.log_uniform(1e-1, 1e1)),
        "N": draw(st.integers(2, 5)), "method": draw(st.sampled_from([3, 5])),
        "K": [draw(G.floats(0.0, 20.0)) for _ in range(3)], "intRes": draw(st.integers(1, 2)),
    }
    if traj:
        N = draw(st.integers(2, 3))
        m["qmat"] = np.stack([draw(_rates(n, 3.0)) for _ in range(N)])
        m["dqmat"] = np.stack([draw(_rates(n, 3.0)) for _ in range(N)])
        m["ddqmat"] = np.stack([draw(_rates(n, 3.0)) for _ in range(N)])
        m["taumat"] = np.stack([draw(_rates(n, 10.0)) for _ in range(N)])
        m["Ftipmat"] = np.stack([draw(arr((6,), 2.0)) for _ in range(N)])
    return m


def _canon_model(traj):
    n = 2
    S = np.ascontiguousarray(np.array([[0, 0, 1, 0, 0, 0], [0, 1, 0, -0.5, 0, 0.2]], dtype=float).T)
    T = _canon()["T"]
    m = {"S": S, "M": T, "T": _canon()["T2"], "q": np.array([0.3, -0.4]), "q2": np.array([0.1, 0.6]),
         "dq": np.array([0.1, 0.2]), "ddq": np.array([0.5, -0.5]), "tau": np.array([1.0, 2.0]),
         "eint": np.array([0.1, 0.1]), "g": np.array([0, 0, -9.81]), "Ftip": np.ones(6),
         "Mlist": np.stack([O.pose_from_taa([0, 0, 0.1 * (i + 1), 0, 0, 0]) for i in range(n + 1)]),
         "Glist": np.stack([np.diag([0.1, 0.1, 0.1, 2.0, 2.0, 2.0]) for _ in range(n)]), "as_list": False,
         "eomg": 1e-2, "ev": 1e-2, "dt": 1e-2, "Tf": 1.0, "N": 3, "method": 3, "K": [1.0, 1.0, 1.0], "intRes": 1}
    if traj:
        m.update({"qmat": np.ones((2, n)) * 0.1, "dqmat": np.ones((2, n)) * 0.1, "ddqmat": np.ones((2, n)) * 0.1,
                  "taumat": np.ones((2, n)), "Ftipmat": np.ones((2, 6))})
    return m


def _reg_mr_model(name, argf, traj=False):
    def make(ops, L, name=name, argf=argf):
        m = ops["m"]
        g = {k: (_c(v) if isinstance(v, np.ndarray) else v) for k, v in m.items()}
        if m["as_list"]:      # the docs call them "List of link frames" / "inertia matrices"
            g["Mlist"] = [np.ascontiguousarray(x.copy()) for x in g["Mlist"]]
            g["Glist"] = [np.ascontiguousarray(x.copy()) for x in g["Glist"]]
        args = argf(g)
        fn = getattr(L.mr, name)
        vals = [v for _, v in args]
        return dict(args), (lambda: fn(*vals))
    e = reg("mr_functions", "mr." + name, {"m": dyn_models(traj=traj)}, make, mode="nomut")
    MODEL_ENTRIES["mr." + name] = traj
    return e


MODEL_ENTRIES = {}

_reg_mr_model("FKinBody", lambda g: [("M", g["M"]), ("Blist", g["S"]), ("thetalist", g["q"])])
_reg_mr_model("FKinSpace", lambda g: [("M", g["M"]), ("Slist", g["S"]), ("thetalist", g["q"])])
_reg_mr_model("JacobianBody", lambda g: [("Blist", g["S"]), ("thetalist", g["q"])])
_reg_mr_model("JacobianSpace", lambda g: [("Slist", g["S"]), ("thetalist", g["q"])])
_reg_mr_model("IKinBody", lambda g: [("Blist", g["S"]), ("M", g["M"]), ("T", g["T"]), ("thetalist0", g["q"]),
                                     ("eomg", g["eomg"]), ("ev", g["ev"])])
_reg_mr_model("IKinSpace", lambda g: [("Slist", g["S"]), ("M", g["M"]), ("T", g["T"]), ("thetalist0", g["q"]),
                                      ("eomg", g["eomg"]), ("ev", g["ev"])])
_reg_mr_model("InverseDynamics", lambda g: [("thetalist", g["q"]), ("dthetalist", g["dq"]), ("ddthetalist", g["ddq"]),
                                            ("g", g["g"]), ("Ftip", g["Ftip"]), ("Mlist", g["Mlist"]),
                                            ("Glist", g["Glist"]), ("Slist", g["S"])])
_reg_mr_model("MassMatrix", lambda g: [("thetalist", g["q"]), ("Mlist", g["Mlist"]), ("Glist", g["Glist"]),
                                       ("Slist", g["S"])])
_reg_mr_model("VelQuadraticForces", lambda g: [("thetalist", g["q"]), ("dthetalist", g["dq"]), ("Mlist", g["Mlist"]),
                                               ("Glist", g["Glist"]), ("Slist", g["S"])])
_reg_mr_model("GravityForces", lambda g: [("thetalist", g["q"]), ("g", g["g"]), ("Mlist", g["Mlist"]),
                                          ("Glist", g["Glist"]), ("Slist", g["S"])])
_reg_mr_model("EndEffectorForces", lambda g: [("thetalist", g["q"]), ("Ftip", g["Ftip"]), ("Mlist", g["Mlist"]),
                                              ("Glist", g["Glist"]), ("Slist", g["S"])])
_reg_mr_model("ForwardDynamics", lambda g: [("thetalist", g["q"]), ("dthetalist", g["dq"]), ("taulist", g["tau"]),
                                            ("g", g["g"]), ("Ftip", g["Ftip"]), ("Mlist", g["Mlist"]),
                                            ("Glist", g["Glist"]), ("Slist", g["S"])])
_reg_mr_model("EulerStep", lambda g: [("thetalist", g["q"]), ("dthetalist", g["dq"]), ("ddthetalist", g["ddq"]),
                                      ("dt", g["dt"])])
_reg_mr_model("JointTrajectory", lambda g: [("thetastart", g["q"]), ("thetaend", g["q2"]), ("Tf", g["Tf"]),
                                            ("N", g["N"]), ("method", g["method"])])
_reg_mr_model("ComputedTorque", lambda g: [("thetalist", g["q"]), ("dthetalist", g["dq"]), ("eint", g["eint"]),
                                           ("g", g["g"]), ("Mlist", g["Mlist"]), ("Glist", g["Glist"]),
                                           ("Slist", g["S"]), ("thetalistd", g["q2"]), ("dthetalistd", g["ddq"]),
                                           ("ddthetalistd", g["tau"]), ("Kp", g["K"][0]), ("Ki", g["K"][1]),
                                           ("Kd", g["K"][2])])
_reg_mr_model("InverseDynamicsTrajectory",
              lambda g: [("thetamat", g["qmat"]), ("dthetamat", g["dqmat"]), ("ddthetamat", g["ddqmat"]), ("g", g["g"]),
                         ("Ftipmat", g["Ftipmat"]), ("Mlist", g["Mlist"]), ("Glist", g["Glist"]), ("Slist", g["S"])],
              traj=True)
_reg_mr_model("ForwardDynamicsTrajectory",
              lambda g: [("thetalist", g["q"]), ("dthetalist", g["dq"]), ("taumat", g["taumat"]), ("g", g["g"]),
                         ("Ftipmat", g["Ftipmat"]), ("Mlist", g["Mlist"]), ("Glist", g["Glist"]), ("Slist", g["S"]),
                         ("dt", g["dt"]), ("intRes", g["intRes"])], traj=True)
_reg_mr_model("SimulateControl",
              lambda g: [("thetalist", g["q"]), ("dthetalist", g["dq"]), ("g", g["g"]), ("Ftipmat", g["Ftipmat"]),
                         ("Mlist", g["Mlist"]), ("Glist", g["Glist"]), ("Slist", g["S"]), ("thetamatd", g["qmat"]),
                         ("dthetamatd", g["dqmat"]), ("ddthetamatd", g["ddqmat"]), ("gtilde", g["g"].copy()),
                         ("Mtildelist", _fresh(g["Mlist"])), ("Gtildelist", _fresh(g["Glist"])), ("Kp", g["K"][0]),
                         ("Ki", g["K"][1]), ("Kd", g["K"][2]), ("dt", g["dt"]), ("intRes", g["intRes"])], traj=True)

# the documented in-place function of the port; everything else public must be in the registry
MR_EXCLUDED = ("AngleMod",)


def _check_mr_registry_complete():
    L = lib()
    pub = {k for k, v in vars(L.mr).items()
           if not k.startswith("_") and callable(v) and
           (getattr(v, "__module__", None) == L.mr.__name__ or
            getattr(getattr(v, "py_func", None), "__module__", None) == L.mr.__name__)}
    have = {n[3:] for n in FAMILIES["mr_functions"]}
    missing = pub - have - set(MR_EXCLUDED)
    extra = have - pub
    if missing or extra:
        raise HarnessError("mr_functions registry out of date: missing %s, unknown %s" % (sorted(missing), sorted(extra)))


# --------------------------------------------------------------------------------------------- the check

def _mutate_result(result, payload, ctx):
    """Every in-place mutation of the result: each element of each payload ndarray, and obj[i] = v where the
    (library) object supports item assignment.  Returns the number of arrays / items really written."""
    written = 0
    for _, a in payload:
        if FP.bump(a):
            written += 1
    L = lib()
    objs = []
    if isinstance(result, (L.tm, L.Screw)):
        objs = [result]
    elif isinstance(result, (list, tuple)):
        objs = [r for r in result if isinstance(r, (L.tm, L.Screw))]
    for o in objs:
        for i in range(6):
            try:
                with quiet():
                    sut(o.__setitem__, i, 0.25 + i)
                written += 1
            except LibError:
                ctx.label("result[i]=v raised")
                break
        try:
            with quiet():
                sut(o.__setitem__, slice(0, 3), np.array([[7.0], [8.0], [9.0]]))
        except LibError:
            ctx.label("result[0:3]=v raised")
    return written


def run_entry(family, case, ctx):
    entry = FAMILIES[family].get(case["entry"])
    if entry is None:
        raise HarnessError("unknown registry entry %r in family %s" % (case["entry"], family))
    L = lib()
    reset_library_defaults()
    ops = case["ops"]
    np.random.seed(12345)                       # SimulateControl draws plot colours from the global generator
    with quiet():
        try:
            operands, call = sut(entry.make, ops, L)
        except LibError as e:
            if e.where == "?":       # no basic_robotics frame in the traceback: the builder itself is broken
                raise HarnessError("operand builder of %s failed: %s" % (entry.name, e))
            ctx.label("setup raised:%s" % entry.name)
            ctx.note("setup", str(e))
            return
    label = entry.name
    for k in ("a",):
        if isinstance(ops.get(k), dict) and "cls" in ops[k]:
            label = label.replace("S.", ops[k]["cls"] + ".", 1)
    ctx.label(label)
    if not entry.exempt:
        for k in ("b", "c", "new"):
            if isinstance(ops.get(k), dict) and "rel" in ops[k]:
                ctx.label("operand relation: " + ops[k]["rel"])
    targets = {k: v for k, v in operands.items() if k not in entry.exempt}
    before = {k: FP.fingerprint(v, root=k) for k, v in targets.items()}

    try:
        with quiet():
            result = sut(call)
    except LibError as e:
        ctx.label("raised:%s" % label)
        ctx.note("raised", str(e))
        return
    finally:
        _close_figures()
    if result is NotImplemented:
        ctx.label("NotImplemented:%s" % label)

    # 4. the call itself must not have modified any operand
    for k, v in targets.items():
        d = FP.diff(before[k], FP.fingerprint(v, root=k))
        if d:
            raise Violation("%s modified its operand %r: %s" % (label, k, "; ".join(d[:4])))

    op_arrays = []
    for k, v in targets.items():
        op_arrays.extend(FP.arrays_of(v, root=k))

    if entry.mode == "nomut":
        hits = FP.shared(FP.arrays_of(result, root="result"), op_arrays)
        if hits:
            ctx.label("result aliases an argument (not demanded of helpers)")
        ctx.nontrivial(len(op_arrays) > 0)
        return

    # 5. value mode
    payload = FP.arrays_of(result, skip=META, root="result")
    hits = FP.shared(payload, op_arrays)
    if hits:
        raise Violation("%s returns storage shared with an operand: %s" %
                        (label, ", ".join("%s ~ %s" % h for h in hits[:4])))
    if not payload:
        ctx.label("result exposes no ndarray")
    written = _mutate_result(result, payload, ctx)
    for k, v in targets.items():
        d = FP.diff(before[k], FP.fingerprint(v, root=k))
        if d:
            raise Violation("changing the result of %s in place changed operand %r: %s" % (label, k, "; ".join(d[:4])))
    ctx.nontrivial(written > 0 and len(op_arrays) > 0)


def family_check(family):
    def check(case, ctx):
        run_entry(family, case, ctx)
    return check


# entries that run scipy's fmin (~100 library calls per case): drawn a third as often as the others
SLOW_ENTRIES = ("fsr.rotationFromVector(tm*,tm)", "fsr.adjustRotationToMidpoint(tm,tm,tm,mode=1)")


def family_strategy(family):
    names = []
    for n in sorted(FAMILIES[family]):
        names += [n] if n in SLOW_ENTRIES else [n, n, n]
    return st.sampled_from(names).flatmap(
        lambda n: st.fixed_dictionaries({"entry": st.just(n), "ops": st.fixed_dictionaries(FAMILIES[family][n].strategies)}))


# --------------------------------------------------------------------------------------------- default construction

DEFAULT_KINDS = ("tm", "Screw", "Wrench", "makeWrench")
_MUTS = {
    "tm": ("bump_TM", "bump_TAA", "bump_both", "setitem", "set", "gPos_write", "gTAA_write", "sTAA_bump"),
    "Screw": ("bump_data", "setitem", "bump_frame", "frame_setitem", "getData_write", "changeFrame"),
    "Wrench": ("bump_data", "setitem", "bump_frame", "frame_setitem", "bump_position", "position_setitem",
               "getData_write", "changeFrame"),
    "makeWrench": ("bump_data", "bump_frame", "frame_setitem", "frame_set", "changeFrame"),
}


def _history():
    op = st.sampled_from(DEFAULT_KINDS).flatmap(lambda k: st.fixed_dictionaries({
        "kind": st.just(k), "mut": st.sampled_from(_MUTS[k]), "i": st.integers(0, 5),
        "v": st.one_of(nz_floats, st.just(1.0))}))
    return st.lists(op, min_size=1, max_size=6)


def _construct_default(kind, L):
    if kind == "tm":
        return L.tm()
    if kind == "Screw":
        return L.Screw()
    if kind == "Wrench":
        return L.Wrench()
    if kind == "makeWrench":      # no frame given: the wrench must live in a default (identity) frame
        return L.fsr.makeWrench(L.tm(), 2.0, [0.0, 0.0, -9.81])
    raise HarnessError(kind)


def _is_identity_tm(t, L):
    return (isinstance(t, L.tm) and isinstance(t.TM, np.ndarray) and t.TM.shape == (4, 4) and
            np.array_equal(t.TM, np.eye(4)) and isinstance(t.TAA, np.ndarray) and t.TAA.size == 6 and
            np.array_equal(np.asarray(t.TAA).reshape(6), np.zeros(6)))


def _assert_default(kind, obj, L, when):
    if kind == "tm":
        if not _is_identity_tm(obj, L):
            raise Violation("tm() %s is not the identity: TAA=%s TM=%s" %
                            (when, np.asarray(obj.TAA).reshape(-1), np.asarray(obj.TM).tolist()))
        return
    if kind in ("Screw", "Wrench"):
        d = obj.data
        if not (isinstance(d, np.ndarray) and d.shape == (6, 1) and np.array_equal(d, np.zeros((6, 1)))):
            raise Violation("%s() %s is not zero: data=%s" % (kind, when, np.asarray(d).reshape(-1)))
    if not _is_identity_tm(obj.frame_applied, L):
        raise Violation("%s() %s has a non-identity frame: %s" % (kind, when, np.asarray(obj.frame_applied.TAA).reshape(-1)))
    if kind == "Wrench" and not _is_identity_tm(obj.position_applied, L):
        raise Violation("Wrench() %s has a non-identity position: %s" %
                        (when, np.asarray(obj.position_applied.TAA).reshape(-1)))


def _apply_mut(kind, obj, op, L):
    m, i, v = op["mut"], int(op["i"]), float(op["v"])
    if m == "bump_TM":
        FP.bump(obj.TM)
    elif m == "bump_TAA":
        FP.bump(obj.TAA)
    elif m == "bump_both":
        FP.bump(obj.TM)
        FP.bump(obj.TAA)
    elif m == "setitem":
        obj[i] = v
    elif m == "set":
        obj.set(i, v)
    elif m == "gPos_write":
        FP.bump(obj.gPos())
    elif m == "gTAA_write":
        FP.bump(obj.gTAA())
    elif m == "sTAA_bump":
        a = np.full((6, 1), v)
        obj.sTAA(a)
        FP.bump(a)
    elif m == "bump_data":
        FP.bump(obj.data)
    elif m == "getData_write":
        FP.bump(obj.getData())
    elif m == "bump_frame":
        FP.bump(obj.frame_applied.TM)
        FP.bump(obj.frame_applied.TAA)
    elif m == "frame_setitem":
        obj.frame_applied[i] = v
    elif m == "frame_set":
        obj.frame_applied.set(i, v)
    elif m == "bump_position":
        FP.bump(obj.position_applied.TM)
        FP.bump(obj.position_applied.TAA)
    elif m == "position_setitem":
        obj.position_applied[i] = v
    elif m == "changeFrame":
        obj.changeFrame(L.tm([v, 0.0, 0.0, 0.0, 0.0, 0.5]))
    else:
        raise HarnessError(m)


def c_default_construction(case, ctx):
    L = lib()
    reset_library_defaults()
    earlier = []
    with quiet():
        for step, op in enumerate(case["history"]):
            kind = op["kind"]
            obj = sut(_construct_default, kind, L)
            _assert_default(kind, obj, L, "constructed after %d earlier mutated instance(s)" % step)
            try:
                sut(_apply_mut, kind, obj, op, L)
            except LibError:
                ctx.label("mutator raised:%s.%s" % (kind, op["mut"]))
            earlier.append(obj)
            ctx.label("%s <- %s" % (kind, op["mut"]))
        final = case["entry"]
        fresh = sut(_construct_default, final, L)
        _assert_default(final, fresh, L, "constructed after %d earlier mutated instance(s)" % len(earlier))
        # the fresh instance must not share storage with any earlier one either (mutating it later would leak back)
        fa = FP.arrays_of(fresh, root="fresh")
        for j, e in enumerate(earlier):
            hits = FP.shared(fa, FP.arrays_of(e, root="earlier[%d]" % j))
            if hits:
                raise Violation("fresh %s() shares storage with an earlier instance: %s" %
                                (final, ", ".join("%s ~ %s" % h for h in hits[:3])))
    ctx.label("fresh " + final)
    ctx.nontrivial(len(earlier) > 0)


# --------------------------------------------------------------------------------------------- clauses / warm

def _canon_case(family, name):
    e = FAMILIES[family][name]
    if name in MODEL_ENTRIES:
        return {"entry": name, "ops": {"m": _canon_model(MODEL_ENTRIES[name])}}
    return {"entry": name, "ops": {k: ("C" if k == "layout" else _canon()[k]) for k in e.strategies}}


_WARMED = set()


def warm():
    """Import the library and verify the MR registry is complete.  The JIT kernels behind the 56 MR entries cost
    ~16 s per process even with a warm on-disk cache (two thirds of them are not cache=True), so they are compiled
    lazily by the first mr_functions case of the shards that run that clause (max_shards) instead of in every
    process; the tm / Screw / fsr kernels are cache=True and are touched here."""
    L = lib()
    _check_mr_registry_complete()
    t = L.tm([1.0, 2.0, 3.0, 0.1, 0.2, 0.3])
    with quiet():
        (t @ t).inv()
        L.fsr.globalToLocal(t, t.copy())
        L.fsr.arcDistance(t, L.tm())
        w = L.Wrench(np.ones((6, 1)), t.copy(), t.copy())
        (w + w).changeFrame(L.tm())
        L.Twist(np.ones((6, 1))).toTM()


def c_mr_functions(case, ctx):
    if "mr" not in _WARMED:          # compile every kernel once on canonical arguments, outside any measured case
        from vf.core import Ctx
        _WARMED.add("mr")
        for name in sorted(FAMILIES["mr_functions"]):
            try:
                run_entry("mr_functions", _canon_case("mr_functions", name), Ctx())
            except Violation:
                pass                 # compilation only: verdicts come from generated cases, never from the warm-up
    run_entry("mr_functions", case, ctx)


_N = {  # family -> (quick, thorough): ~100 cases per registry entry quick, ~250x16 thorough
    "tm_operators": (4500, 200000),
    "tm_accessors": (1500, 60000),
    "screw_wrench_operators": (5500, 240000),
    "screw_wrench_accessors": (1500, 60000),
    "fsr_helpers": (2800, 50000),
    "robot_constructors": (400, 12000),
    "mr_functions": (4500, 120000),
}

CLAUSES = [Clause(f, family_check(f), family_strategy(f), _N[f][0], _N[f][1]) for f in
           ("tm_operators", "tm_accessors", "screw_wrench_operators", "screw_wrench_accessors", "fsr_helpers")]
CLAUSES.append(Clause("default_construction", c_default_construction,
                      st.fixed_dictionaries({"entry": st.sampled_from(DEFAULT_KINDS), "history": _history()}),
                      1500, 60000))
CLAUSES.append(Clause("robot_constructors", family_check("robot_constructors"), family_strategy("robot_constructors"),
                      *_N["robot_constructors"]))
CLAUSES.append(Clause("mr_functions", c_mr_functions, family_strategy("mr_functions"), *_N["mr_functions"]))
