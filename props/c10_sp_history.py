"""C10 -- Stewart platform state stays coherent and 'valid' means valid, over any history (sp_model.SP).

A case is {"spec": <geometry of vf.sps>, "switches": [4 x 0/1], "fk_mode": 0|1, "seed": int, "ops": [<op dict>, ...]}
(<= 25 ops).  ``check`` builds a fresh platform plus the fixture's independent geometry model, interprets the op list
and after EVERY op, from public getters only, demands

  joints     getBottomJoints()[:, i] = Tb . b_i   and   getTopJoints()[:, i] = Tt . t_i      (b_i, t_i plate-fixed)
  lengths    getLens()[i] = | getTopJoints()[:, i] - getBottomJoints()[:, i] |
  rel        getCurrentLocalTransform() = Tb^-1 . Tt
  returns    the call returned: no exception, no runaway (60 s guard; a time-out IS a violation here)
  verdict    a True flag from IK / FK / validate (called without protect) => every ENABLED constraint, re-evaluated by
             the oracle on the published plate poses, holds (library's own 1e-4 margin)
  pure       inverseJacobian / staticForces / carryMassCalc / validate(donothing=True) / the getters leave getTopT()
             and getBottomT() bit-identical

Failures carry a bucket tag ``[C10 inv=<invariant> op=<last op> path=<corrective events of that op>]``; region predicates
and the ddmin shrinker (``python -m props.c10_sp_history shrink <replay.json>``) key on it.
"""
import json
import math
import random
import re
import signal
import sys
import warnings

import numpy as np
from hypothesis import strategies as st

from vf import gen as G
from vf import oracle as O
from vf import sps
from vf.core import Clause, LibError, Violation
from vf.sps import lib_call

PROPERTY_ID = "C10"
RULE = ("Op-list histories (<= 25 ops) on the C09 geometries (newSP / loadSP / makeSP, any base pose, optional initial "
        "spin, with and without masses), the four validation switches drawn as any subset at the start and toggled by an "
        "op, initial fk_mode drawn. Ops: IK inside the box / too high / too low / below the base plate / tilted / "
        "flipped / twisted / far lateral / beyond twice the neutral height (top given, top+bottom given, bottom only; "
        "protect on/off); FK with lengths that are consistent with an in-box pose / random in range / exactly on the "
        "limits / all too long / all too short / mixed / uniform (both fk_modes, by argument or attribute, forward and "
        "reverse, plate_pos given or not, (6,) or (6,1)); move; spinCustom; validate(donothing on/off); inverseJacobian "
        "(protect on/off, current or explicit poses); staticForces; carryMassCalc (protect on/off); randomPos (NumPy RNG "
        "seeded from the op); toggle a switch; set fk_mode. All invariants after every op. Non-trivial: >= 1 corrective "
        "action (length rescale/boost/subtract, reset to neutral, un-invert, solver give-up) was triggered AND at least "
        "one further op followed it; distinct by digest of the whole case.")
ASSUMPTIONS = [
    "plate-fixed joint coordinates b_i, t_i are the fixture model's (read through public getters at construction and "
    "re-read right after every spinCustom, when they must still be a congruent copy: same pairwise distances, radius and "
    "plate-frame z, 1e-9 relative); everything else is transformed with vf.oracle",
    "all comparisons are made on the 4x4 matrices the getters hand out (gTM()); joints and lengths to 1e-9*max(1, "
    "geometry scale, |plate positions|), 5e-6*scale instead when a plate rotation angle (bottom, top or relative) lies "
    "in the open NearZero band (1e-9, 2e-6) where the library's exponential drops the rotation; the relative "
    "transform always to 5e-6*scale (the library computes it through the logarithm and exponential of both plate "
    "poses), and not at all while the bottom, top or relative rotation is within 1e-4 of a half turn (open finding C01-near-pi-log; counted)",
    "a flag counts as a verdict only when the call validated (protect=False); IK/FK(protect=True) return True "
    "unconditionally by documented design ('bypass any safeties') and are not judged",
    "constraint definitions are the library's own: leg lengths inside [leg_ext_min, leg_ext_max]; z of the top origin "
    "in the bottom frame >= 0; angle at each joint between the current and the neutral leg direction (seen from either "
    "plate) <= joint_deflection_max; every diagonal entry of the relative rotation > cos(60 deg) - 1e-4.  The oracle "
    "adds 1e-4 (of the geometry scale for lengths / z, radians for angles) so that rounding at a limit is never a failure",
    "corrective actions are detected by counting calls through wrappers on the INSTANCE's private methods; the wrappers "
    "only observe (labels, non-triviality, bucket tag) - every compared number comes from public getters",
    "a nested _FKRaphson <-> _FKSolve fallback deeper than 120 solver frames is reported as 'does not return' without "
    "waiting for the 60 s guard (each level is a full solver run; no legitimate path nests deeper than 4)",
    "randomPos is called with max_attempts <= 12 (default 100 is the same loop, only longer)",
]
SHARDS = {"quick": 4, "thorough": 16}

warnings.filterwarnings("ignore", message=".*np.dot\\(\\) is faster on contiguous arrays.*")
warnings.filterwarnings("ignore", category=RuntimeWarning)

REL = 1e-9
LOOSE = 5e-6
BAND_LO, BAND_HI = 1e-9, 2e-6
MARGIN = 1e-4
NEAR_PI = 1e-4
GUARD_S = 60.0
MAX_SOLVER_DEPTH = 120


def warm():
    try:
        sps.warm()
    except Exception:  # noqa: BLE001 -- warm-up is an optimisation; a broken library is reported by the clauses
        pass


# ------------------------------------------------------------------------------------------ runaway guard

class _Runaway(BaseException):
    """Raised inside library code by the guard / depth wrapper.  BaseException on purpose: the solvers wrap their
    bodies in `except Exception` and would swallow anything milder (and carry on)."""


class _Guard:
    """Repeating SIGALRM: fires after `seconds`, then every 0.5 s until the block is left -- fsr.distance has a bare
    `except:` that can swallow a single alarm."""

    def __init__(self, seconds):
        self.seconds = seconds

    def _fire(self, signum, frame):
        raise _Runaway("no return after %.0f s" % self.seconds)

    def __enter__(self):
        self.old = signal.signal(signal.SIGALRM, self._fire)
        signal.setitimer(signal.ITIMER_REAL, self.seconds, 0.5)
        return self

    def __exit__(self, *a):
        signal.setitimer(signal.ITIMER_REAL, 0)
        signal.signal(signal.SIGALRM, self.old)
        return False


# ------------------------------------------------------------------------------------------ instrumentation

class Trace:
    """Observes the corrective paths of one platform (wrappers on instance attributes; observation only)."""

    WATCH = ("_lengthCorrectiveAction", "_continuousTranslationCorrectiveAction", "_fixUpsideDown")

    def __init__(self, sp, model):
        self.sp = sp
        self.events = []          # events of the current op
        self.all_events = []      # (op index, event)
        self.depth = 0
        self.k = -1
        lmin, lmax = model.lmin, model.lmax

        def count(name, event):
            orig = getattr(sp, name)

            def wrapper(*a, **kw):
                self.hit(event)
                return orig(*a, **kw)
            setattr(sp, name, wrapper)

        count("_lengthCorrectiveAction", "len")
        count("_continuousTranslationCorrectiveAction", "ct_reset")
        count("_fixUpsideDown", "uninvert")
        count("_addLegsToMinimum", "len_boost")
        count("_subLegsToMaximum", "len_subtract")

        orig_rescale = sp._rescaleLegLengths

        def rescale(cur_min, cur_max):
            both = bool(np.min(cur_min) < sp.leg_ext_min) and bool(np.max(cur_max) > sp.leg_ext_max)
            self.hit("len_rescale" if both else "len_rescale_else")
            return orig_rescale(cur_min, cur_max)
        sp._rescaleLegLengths = rescale

        def reset_watch(name, event, idx):
            orig = getattr(sp, name)

            def wrapper(*a, **kw):
                before = np.array(sp.getTopT().gTM(), copy=True)
                on = bool(sp.validation_settings[idx])
                r = orig(*a, **kw)
                if on and not np.array_equal(before, sp.getTopT().gTM()):
                    self.hit(event)
                return r
            setattr(sp, name, wrapper)

        reset_watch("validateInteriorAngles", "angle_reset", 2)
        reset_watch("validatePlateRotation", "tilt_reset", 3)

        def solver(name, event):
            orig = getattr(sp, name)

            def wrapper(*a, **kw):
                if self.depth >= 1:
                    self.hit(event + "_nested")
                if self.depth >= MAX_SOLVER_DEPTH:
                    raise _Runaway("_FKRaphson <-> _FKSolve fallback nested %d deep" % self.depth)
                self.depth += 1
                fc = sp.fail_count
                try:
                    r = orig(*a, **kw)
                finally:
                    self.depth -= 1
                if name == "_FKRaphson" and sp.fail_count > fc and "fsolve_nested" not in self.events[-3:]:
                    self.hit("raphson_giveup")
                return r
            setattr(sp, name, wrapper)

        solver("_FKSolve", "fsolve")
        solver("_FKRaphson", "raphson")

    def hit(self, event):
        self.events.append(event)
        self.all_events.append((self.k, event))

    def start(self, k):
        self.k = k
        self.events = []
        self.depth = 0

    CORRECTIVE = ("len", "ct_reset", "uninvert", "angle_reset", "tilt_reset", "raphson_giveup")

    def path(self):
        seen = []
        for e in self.events:
            if e not in seen:
                seen.append(e)
        return "+".join(seen) if seen else "none"

    def corrective_now(self):
        return any(e in self.CORRECTIVE for e in self.events)


# ------------------------------------------------------------------------------------------ observation

class Obs:
    """Everything the public getters publish, as independent copies."""

    def __init__(self, sp):
        self.Tb = np.array(lib_call(lambda: sp.getBottomT().gTM()), dtype=float, copy=True)
        self.Tt = np.array(lib_call(lambda: sp.getTopT().gTM()), dtype=float, copy=True)
        self.bj = np.array(lib_call(sp.getBottomJoints), dtype=float, copy=True)
        self.tj = np.array(lib_call(sp.getTopJoints), dtype=float, copy=True)
        self.L = np.array(lib_call(sp.getLens), dtype=float, copy=True)
        self.rel = np.array(lib_call(lambda: sp.getCurrentLocalTransform().gTM()), dtype=float, copy=True)


def _in_band(a):
    return BAND_LO < a < BAND_HI


class Fail(Violation):
    pass


def _fail(inv, opname, path, text):
    raise Fail("[C10 inv=%s op=%s path=%s] %s" % (inv, opname, path, text))


def _tolerance(model, ob):
    scale = max(1.0, model.scale, float(np.linalg.norm(ob.Tb[:3, 3])), float(np.linalg.norm(ob.Tt[:3, 3])))
    angs = []
    for T in (ob.Tb, ob.Tt, O.inv(ob.Tb) @ ob.Tt):
        if np.all(np.isfinite(T)):
            angs.append(O.angle(T[:3, :3]))
    loose = any(_in_band(a) for a in angs)
    return (LOOSE if loose else REL) * scale, scale, loose


def check_coherence(model, ob, opname, path):
    for name, A, shape in (("getBottomT", ob.Tb, (4, 4)), ("getTopT", ob.Tt, (4, 4)), ("getBottomJoints", ob.bj, (3, 6)),
                           ("getTopJoints", ob.tj, (3, 6)), ("getCurrentLocalTransform", ob.rel, (4, 4))):
        if A.shape != shape:
            _fail("shape", opname, path, "%s() has shape %s, expected %s" % (name, A.shape, shape))
        if not np.all(np.isfinite(A)):
            _fail("finite", opname, path, "%s() is not finite: %s" % (name, np.array2string(A, precision=4)))
    if ob.L.size != 6:
        _fail("shape", opname, path, "getLens() has %d entries" % ob.L.size)
    L = ob.L.reshape(6)
    if not np.all(np.isfinite(L)):
        _fail("finite", opname, path, "getLens() is not finite: %s" % L)
    for name, T in (("getBottomT", ob.Tb), ("getTopT", ob.Tt)):
        if not O.is_se3(T, 1e-7):
            _fail("rigid", opname, path, "%s() is not a rigid transform:\n%s" % (name, np.array2string(T, precision=12)))
    tol, scale, loose = _tolerance(model, ob)
    eb, et = sps.oracle_joints_space(model, ob.Tb, ob.Tt)
    d = np.abs(ob.bj - eb).max()
    if d > tol:
        _fail("bottom_joints", opname, path, "getBottomJoints() is %.3g from getBottomT() applied to the plate-fixed "
              "bottom joints (tol %.3g)" % (d, tol))
    d = np.abs(ob.tj - et).max()
    if d > tol:
        _fail("top_joints", opname, path, "getTopJoints() is %.3g from getTopT() applied to the plate-fixed top joints "
              "(tol %.3g)" % (d, tol))
    dist = np.sqrt(((ob.tj - ob.bj) ** 2).sum(axis=0))
    d = np.abs(L - dist)
    if d.max() > tol:
        i = int(d.argmax())
        _fail("lengths", opname, path, "getLens()[%d]=%.12g but the published joints are %.12g apart (|diff| %.3g > tol "
              "%.3g)" % (i, L[i], dist[i], d[i], tol))
    # the library derives the relative transform through the plates' axis-angle vectors (globalToLocal takes the
    # matrix logarithm of both poses and exponentiates again): DESIGN's "5e-6 where a log/exp is involved"; and within
    # NEAR_PI of a half turn that logarithm is the open finding C01-near-pi-log (error ~2.6e-16/(pi-angle)^2): not compared
    rel = O.inv(ob.Tb) @ ob.Tt
    if any(math.pi - O.angle(T[:3, :3]) < NEAR_PI for T in (ob.Tb, ob.Tt, rel)):
        return "near-pi"
    d = np.abs(ob.rel - rel).max()
    if d > LOOSE * scale:
        _fail("rel", opname, path, "getCurrentLocalTransform() differs from getBottomT()^-1 getTopT() by %.3g (tol %.3g); "
              "published relative position %s, actual %s" % (d, LOOSE * scale, np.array2string(ob.rel[:3, 3], precision=6),
                                                            np.array2string(rel[:3, 3], precision=6)))
    return "band" if loose else None


def check_verdict(model, ob, switches, opname, path):
    """The call said 'valid': every enabled constraint must hold for the published plate poses."""
    rel = O.inv(ob.Tb) @ ob.Tt
    m_len = MARGIN * model.scale
    if switches[0]:
        L = sps.oracle_leg_lengths(model, ob.Tb, ob.Tt)
        lo, hi = float(L.min()), float(L.max())
        if lo < model.lmin - m_len or hi > model.lmax + m_len:
            _fail("valid_but_leg_length", opname, path, "verdict valid, leg-length limits enabled, but the joint-to-joint "
                  "distances of the published poses span [%.6g, %.6g] outside [%.6g, %.6g]" % (lo, hi, model.lmin, model.lmax))
    if switches[1]:
        if rel[2, 3] < -m_len:
            _fail("valid_but_below", opname, path, "verdict valid, top-above-bottom enabled, but the top plate origin has "
                  "z=%.6g in the bottom-plate frame" % rel[2, 3])
    if switches[2]:
        dfl = sps.oracle_joint_deflections(model, rel)
        if np.any(np.isnan(dfl)) or dfl.max() > model.max_dev + MARGIN:
            _fail("valid_but_deflection", opname, path, "verdict valid, joint-deflection limit enabled (%.6g rad), but a leg "
                  "is deflected %.6g rad from its neutral direction (joint %d)"
                  % (model.max_dev, float(np.nanmax(dfl)), int(np.nanargmax(dfl))))
    if switches[3] and math.pi - O.angle(rel[:3, :3]) >= NEAR_PI:
        # (within 1e-4 of a half turn the library's own relative transform is the C01-near-pi-log finding: not judged)
        dg = min(rel[0, 0], rel[1, 1], rel[2, 2])
        if dg <= model.plate_rot_cos - MARGIN - 1e-9:
            _fail("valid_but_tilt", opname, path, "verdict valid, plate-tilt limit enabled, but the relative rotation has a "
                  "diagonal entry %.6g <= cos(60 deg) - 1e-4 = %.6g" % (dg, model.plate_rot_cos - MARGIN))


def check_congruent(model, old_b, old_t, opname, path):
    """After spinCustom the re-read plate-fixed coordinates must still be the same rigid joint pattern."""
    tol = REL * max(1.0, model.scale) * 10
    for name, new, old in (("bottom", model.b, old_b), ("top", model.t, old_t)):
        if not np.all(np.isfinite(new)):
            _fail("spin_rigid", opname, path, "%s plate-fixed joints not finite after spinCustom" % name)
        dn = np.sqrt(((new[:, :, None] - new[:, None, :]) ** 2).sum(axis=0))
        do = np.sqrt(((old[:, :, None] - old[:, None, :]) ** 2).sum(axis=0))
        if np.abs(dn - do).max() > tol:
            _fail("spin_rigid", opname, path, "spinCustom deformed the %s joint pattern: pairwise joint distances changed "
                  "by up to %.3g" % (name, np.abs(dn - do).max()))
        if np.abs(np.hypot(new[0], new[1]) - np.hypot(old[0], old[1])).max() > tol or np.abs(new[2] - old[2]).max() > tol:
            _fail("spin_rigid", opname, path, "spinCustom moved the %s joints off their circle / joint plane: radius %s -> "
                  "%s, z %s -> %s" % (name, np.array2string(np.hypot(old[0], old[1]), precision=6),
                                      np.array2string(np.hypot(new[0], new[1]), precision=6),
                                      np.array2string(old[2], precision=6), np.array2string(new[2], precision=6)))


# ------------------------------------------------------------------------------------------ interpreter

PURE = ("invjac", "static", "carry", "validate_ro")


def _lengths_for(model, op):
    lam = np.asarray(op["lam"], dtype=float).reshape(6)
    if op["kind"] == "pose":
        # lengths consistent with an in-box relative pose (oracle geometry of the CURRENT plate-fixed coordinates)
        L = sps.oracle_leg_lengths(model, np.eye(4), sps.rel_T(model, op["u"]))
    else:
        L = model.lmin + lam * (model.lmax - model.lmin)
    return np.ascontiguousarray(L.reshape((6, 1)) if op.get("col") else L.reshape(6))


def _wrench(op):
    from basic_robotics.general import Wrench
    return Wrench(np.asarray(op["w"], dtype=float).reshape((6, 1)).copy())


def _opname(op):
    n = op["op"]
    if n == "ik":
        return "ik_%s%s" % (op["kind"], "_protect" if op["protect"] else "")
    if n == "fk":
        return "fk_%s%s%s" % (op["kind"], "_rev" if op["reverse"] else "", "_protect" if op["protect"] else "")
    if n == "validate":
        return "validate_ro" if op["donothing"] else "validate"
    if n in ("invjac", "carry"):
        return n + ("_protect" if op["protect"] else "_validating")
    return n


def run_op(sp, model, op, trace):
    """Execute one op.  Returns (verdict or None, switches in force during the call, is_pure)."""
    n = op["op"]
    sw = [int(bool(s)) for s in sp.validation_settings]
    Tb, Tt = sps.read_poses(sp)
    if n == "ik":
        rel = sps.rel_T(model, op["u"])
        target = op["target"]
        if target == "bot_only":
            bot = sps.make_tm(Tt @ O.inv(rel), op["form"])
            r = lib_call(sp.IK, None, bot, op["protect"])
        elif target == "top+bot":
            B = O.pose_from_taa(op["bot"])
            r = lib_call(sp.IK, sps.make_tm(B @ rel, op["form"]), sps.make_tm(B, op["form"]), op["protect"])
        else:
            r = lib_call(sp.IK, sps.make_tm(Tb @ rel, op["form"]), None, op["protect"])
        if not (isinstance(r, tuple) and len(r) == 2):
            raise Fail("[C10 inv=returns op=%s path=%s] IK returned %r, not (lengths, valid)" % (_opname(op), trace.path(), type(r)))
        return (None if op["protect"] else bool(r[1])), sw, False
    if n == "fk":
        L = _lengths_for(model, op)
        kw = {"reverse": bool(op["reverse"]), "protect": bool(op["protect"])}
        if op["mode"] is not None:
            kw["fk_mode"] = int(op["mode"])
        if op["plate"] == "current":
            kw["plate_pos"] = sps.make_tm(Tt if op["reverse"] else Tb)
        elif op["plate"] == "other" and not op["reverse"]:
            kw["plate_pos"] = sps.make_tm(O.pose_from_taa(op["plate_pose"]), "taa")
        r = lib_call(sp.FK, L, **kw)
        if not (isinstance(r, tuple) and len(r) == 2):
            raise Fail("[C10 inv=returns op=%s path=%s] FK returned %r, not (pose, valid)" % (_opname(op), trace.path(), type(r)))
        return (None if op["protect"] else bool(r[1])), sw, False
    if n == "move":
        lib_call(sp.move, sps.make_tm(O.pose_from_taa(op["pose"]), op["form"]), op["protect"])
        return None, sw, False
    if n == "spin":
        old_b, old_t = model.b.copy(), model.t.copy()
        lib_call(sp.spinCustom, float(op["angle"]))
        model.refresh(sp)
        check_congruent(model, old_b, old_t, "spin", trace.path())
        return None, sw, False
    if n == "validate":
        r = lib_call(sp.validate, bool(op["donothing"]))
        return bool(r), sw, bool(op["donothing"])
    if n == "invjac":
        if op["u"] is None:
            lib_call(sp.inverseJacobian, protect=bool(op["protect"]))
        else:
            lib_call(sp.inverseJacobian, sps.make_tm(Tb @ sps.rel_T(model, op["u"])), sps.make_tm(Tb), bool(op["protect"]))
        return None, sw, True
    if n == "static":
        lib_call(sp.staticForces, _wrench(op))
        return None, sw, True
    if n == "carry":
        lib_call(sp.carryMassCalc, _wrench(op), bool(op["protect"]))
        return None, sw, True
    if n == "randompos":
        np.random.seed(int(op["seed"]) % (2 ** 32))
        lib_call(sp.randomPos, int(op["attempts"]))
        return None, sw, False
    if n == "toggle":
        i = int(op["i"]) % 4
        sp.validation_settings[i] = 0 if sp.validation_settings[i] else 1
        return None, sw, False
    if n == "fkmode":
        sp.fk_mode = int(op["mode"])
        return None, sw, False
    raise ValueError("unknown op %r" % (op,))


def run_history(case, ctx, collect=None):
    s = int(case.get("seed", 0))
    np.random.seed(s % (2 ** 32))
    random.seed(s)
    spec = case["spec"]
    sp, model = sps.build_sp(spec)
    trace = Trace(sp, model)
    sp.validation_settings = [int(bool(v)) for v in case["switches"]]
    sp.fk_mode = int(case["fk_mode"])
    ctx.label("route " + spec["route"])
    ctx.label("switches %s" % "".join(str(int(bool(v))) for v in case["switches"]))
    ctx.label("initial fk_mode %d" % sp.fk_mode)
    if spec.get("spin") is not None:
        ctx.label("spun at construction")
    labels = set()

    ob = Obs(sp)
    check_coherence(model, ob, "construct", "none")

    corrected_at = None
    nontrivial = False
    verdicts = 0
    for k, op in enumerate(case["ops"]):
        name = _opname(op)
        trace.start(k)
        before = Obs(sp)
        err = None
        try:
            with _Guard(GUARD_S):
                verdict, sw, pure = run_op(sp, model, op, trace)
        except LibError as e:
            err = e
        except _Runaway as e:        # fired while harness code between two library calls was running
            err = LibError(e, "?")
        if err is not None:
            path = trace.path()
            if isinstance(err.exc, _Runaway):
                _fail("returns_recursion" if "nested" in str(err.exc) else "returns_timeout", name, path,
                      "step %d: the call did not return: %s" % (k, err.exc))
            _fail("returns", name, path, "step %d: %s" % (k, err))
        path = trace.path()
        if corrected_at is not None and corrected_at < k:
            nontrivial = True
        if trace.corrective_now() and corrected_at is None:
            corrected_at = k
        for e in set(trace.events):
            labels.add("path " + e)
        labels.add("op " + op["op"])
        if op["op"] in ("ik", "fk"):
            labels.add("op %s %s" % (op["op"], op["kind"]))
        ob = Obs(sp)
        how = check_coherence(model, ob, name, path)
        if how == "band":
            labels.add("NearZero band tolerance")
        elif how == "near-pi":
            labels.add("a plate / relative rotation within 1e-4 of a half turn: relative transform not compared (C01-near-pi-log)")
        if verdict is True:
            verdicts += 1
            check_verdict(model, ob, sw, name, path)
            labels.add("verdict True judged" + (" after correction" if trace.corrective_now() else ""))
        elif verdict is False:
            labels.add("verdict False")
        if pure or op["op"] in PURE:
            if not (np.array_equal(before.Tb, ob.Tb) and np.array_equal(before.Tt, ob.Tt)):
                dT = max(np.abs(before.Tb - ob.Tb).max(), np.abs(before.Tt - ob.Tt).max())
                _fail("pure", name, path, "step %d: a pure query changed the plate poses (largest entry change %.3g; top origin "
                      "%s -> %s)" % (k, dT, np.array2string(before.Tt[:3, 3], precision=6), np.array2string(ob.Tt[:3, 3], precision=6)))
        # the getters themselves are queries too
        again = Obs(sp)
        if not (np.array_equal(again.Tb, ob.Tb) and np.array_equal(again.Tt, ob.Tt)):
            _fail("pure", "getters", path, "step %d: reading the getters changed the plate poses" % k)
        if collect is not None:
            collect.append((k, name, path))
    for l in sorted(labels):
        ctx.label(l)
    ctx.label("ops %s" % ("1-5" if len(case["ops"]) <= 5 else ("6-12" if len(case["ops"]) <= 12 else "13-25")))
    if verdicts:
        ctx.label("history with a judged verdict")
    ctx.nontrivial(nontrivial)
    return trace


def check(case, ctx):
    run_history(case, ctx)


# ------------------------------------------------------------------------------------------ bucket tags / regions

_TAG = re.compile(r"\[C10 inv=(\S+) op=(\S+) path=(\S+)\]")


def bucket(message):
    m = _TAG.search(message or "")
    return m.groups() if m else None


def region(case, message):
    """Open known-finding regions.  None is proposed: every defect this property exposed so far got a fix (see
    notes/C10.md).  A future entry should key on the bucket -- (violated invariant, last op, corrective events) -- e.g.
    ``inv == "rel" and "uninvert" in path.split("+")`` -- never on anything wider."""
    return None


# ------------------------------------------------------------------------------------------ strategies

_FORMS = st.sampled_from(["mat", "taa"])
_SEED = st.integers(0, 2 ** 32 - 1)
_BOOL = st.booleans()
_RARE = st.sampled_from([False, False, False, True])
_SIGN = st.sampled_from([-1.0, 1.0])
_U_IN = sps.rel_poses()

OUT_KINDS = ("high", "low", "below", "tilt", "tilt_diag", "tilt_diag", "flip", "twist", "lateral", "far")


@st.composite
def _u_out(draw, kind):
    """Normalised relative pose [x/h, y/h, z/h-1, wx, wy, wz] outside the workspace in the named way."""
    u = 0.5 * np.asarray(draw(_U_IN), dtype=float)
    if kind == "high":
        u[2] = draw(G.floats(0.25, 0.95))
    elif kind == "far":
        u[2] = draw(G.floats(1.05, 3.0))
    elif kind == "low":
        u[2] = -draw(G.floats(0.25, 0.97))
    elif kind == "below":
        u[2] = -draw(G.floats(1.05, 2.6))
    elif kind in ("tilt", "flip"):
        # about a plate axis, about the diagonal (where only the zz entry of the relative rotation drops below the
        # limit first) or about any horizontal axis; just past the 60 deg limit or far past it
        a = draw(st.one_of(st.sampled_from([0.0, math.pi / 2, math.pi / 4, -math.pi / 4, 3 * math.pi / 4]),
                           G.floats(-math.pi, math.pi)))
        th = draw(st.one_of(G.floats(1.05, 1.5), G.floats(0.7, 2.6))) if kind == "tilt" else draw(G.floats(2.6, 3.1))
        u[3], u[4] = th * math.cos(a), th * math.sin(a)
    elif kind == "tilt_diag":
        # a pure tilt of 61..86 deg about a horizontal axis near a plate DIAGONAL: the zz entry of the relative rotation
        # (cos t) is below the limit while the xx and yy entries ((1+cos t)/2 or so) are still above it -- the one
        # entry a check of "the diagonal" can lose without any axis-aligned tilt noticing
        a = draw(st.sampled_from([math.pi / 4, -math.pi / 4, 3 * math.pi / 4, -3 * math.pi / 4])) + draw(G.floats(-0.3, 0.3))
        th = draw(G.floats(1.07, 1.5))
        u[3], u[4], u[5] = th * math.cos(a), th * math.sin(a), 0.0
    elif kind == "twist":
        u[5] = draw(_SIGN) * draw(G.floats(0.7, 3.1))
    elif kind == "lateral":
        a = draw(G.floats(-math.pi, math.pi))
        r = draw(G.floats(0.4, 1.9))
        u[0], u[1] = r * math.cos(a), r * math.sin(a)
    return u


@st.composite
def _ik_op(draw, kinds=("in",) + OUT_KINDS, protect=_RARE):
    kind = draw(st.sampled_from(kinds))
    u = draw(_U_IN) if kind == "in" else draw(_u_out(kind))
    target = draw(st.sampled_from(["top", "top", "top", "top+bot", "bot_only"]))
    return {"op": "ik", "kind": kind, "u": np.asarray(u, dtype=float), "target": target,
            "bot": draw(sps.base_poses()) if target == "top+bot" else None,
            "protect": draw(protect), "form": draw(_FORMS)}


_LAM_IN = G.floats(0.01, 0.99)
# (a leg a hair outside its range - fractions of a millimetre to centimetres - is as much outside as one far outside)
_LAM_HIGH = st.one_of(G.floats(1.001, 1.2), G.floats(1.0, 2.0), G.log_uniform(1e-5, 1e-1).map(lambda e: 1.0 + e))
_LAM_LOW = st.one_of(G.floats(-0.2, -0.001), G.floats(-0.7, 0.0), G.log_uniform(1e-5, 1e-1).map(lambda e: -e))
_LAM_EDGE = st.sampled_from([0.0, 1.0, 0.0, 1.0, 0.5])
_LAM_ANY = st.one_of(_LAM_IN, _LAM_HIGH, _LAM_LOW, _LAM_EDGE)
FK_KINDS = ("pose", "in", "edge", "high", "low", "mixed", "uniform", "one_out")


@st.composite
def _fk_op(draw, kinds=FK_KINDS, protect=_RARE, modes=(None, None, 0, 1), reverse=_RARE):
    kind = draw(st.sampled_from(kinds))
    u = None
    lam = [0.5] * 6
    if kind == "pose":
        u = np.asarray(draw(_U_IN), dtype=float)
    elif kind == "uniform":
        lam = [draw(_LAM_ANY)] * 6
    elif kind == "one_out":
        lam = [draw(_LAM_IN) for _ in range(6)]
        lam[draw(st.integers(0, 5))] = draw(st.one_of(_LAM_HIGH, _LAM_LOW))
    else:
        elem = {"in": _LAM_IN, "edge": _LAM_EDGE, "high": _LAM_HIGH, "low": _LAM_LOW, "mixed": _LAM_ANY}[kind]
        lam = [draw(elem) for _ in range(6)]
    plate = draw(st.sampled_from([None, None, "current", "other"]))
    return {"op": "fk", "kind": kind, "u": u, "lam": np.asarray(lam, dtype=float), "mode": draw(st.sampled_from(list(modes))),
            "reverse": draw(reverse), "protect": draw(protect), "plate": plate,
            "plate_pose": draw(sps.base_poses()) if plate == "other" else None, "col": draw(_BOOL)}


def _move_op(protect=_RARE):
    return st.fixed_dictionaries({"op": st.just("move"), "pose": sps.base_poses(), "form": _FORMS, "protect": protect})


def _spin_op():
    return st.fixed_dictionaries({"op": st.just("spin"), "angle": sps.spin_angles()})


def _validate_op():
    return st.fixed_dictionaries({"op": st.just("validate"), "donothing": _BOOL})


def _invjac_op(protect=st.sampled_from([True, True, False])):
    return st.fixed_dictionaries({"op": st.just("invjac"), "protect": protect,
                                  "u": st.one_of(st.none(), st.none(), _U_IN.map(lambda u: np.asarray(u, dtype=float)))})


_WRENCH = st.one_of(G.vec6(100.0), st.just(np.array([0.0, 0.0, 0.0, 0.0, 0.0, -50.0])), st.just(np.zeros(6)))


def _static_op():
    return st.fixed_dictionaries({"op": st.just("static"), "w": _WRENCH})


def _carry_op(protect=st.sampled_from([False, False, True])):
    return st.fixed_dictionaries({"op": st.just("carry"), "w": _WRENCH, "protect": protect})


def _random_op():
    return st.fixed_dictionaries({"op": st.just("randompos"), "seed": _SEED, "attempts": st.sampled_from([1, 2, 3, 5, 12])})


def _toggle_op():
    return st.fixed_dictionaries({"op": st.just("toggle"), "i": st.integers(0, 3)})


def _fkmode_op():
    return st.fixed_dictionaries({"op": st.just("fkmode"), "mode": st.sampled_from([0, 1])})


def _queries(protected_only=False):
    if protected_only:
        return st.one_of(_validate_op(), _invjac_op(st.just(True)), _static_op(), _carry_op(st.just(True)))
    return st.one_of(_validate_op(), _invjac_op(), _static_op(), _carry_op())


def _any_op():
    return st.one_of(
        _ik_op(), _ik_op(kinds=OUT_KINDS), _fk_op(), _fk_op(kinds=("high", "low", "mixed", "uniform", "one_out")),
        _ik_op(kinds=("below", "flip", "low"), protect=st.just(True)), _fk_op(kinds=("pose", "in"), modes=(0, 0, None)),
        _move_op(), _spin_op(), _queries(), _queries(), _random_op(), _toggle_op(), _fkmode_op(),
    )


def _everyday_op():
    """What an application does: validating calls only, the default solver, no re-spin in mid-flight."""
    nop = st.just(False)
    return st.one_of(
        _ik_op(protect=nop), _ik_op(kinds=OUT_KINDS, protect=nop), _fk_op(protect=nop, modes=(None,), reverse=nop),
        _fk_op(kinds=("high", "low", "uniform", "one_out", "mixed"), protect=nop, modes=(None,), reverse=nop),
        _move_op(protect=nop), _queries(protected_only=False), _random_op(), _toggle_op(),
    )


def _uninvert_pair():
    """Put the top plate underneath the base (protected, or unprotected with whatever the switches say), then ask the
    fsolve-based FK for lengths: its answer stays underneath and FK has to un-invert it."""
    return st.tuples(_ik_op(kinds=("below",), protect=st.sampled_from([True, True, False])),
                     _fk_op(kinds=("pose", "in", "high", "one_out"), modes=(0,), reverse=st.just(False))).map(list)


def _flatten(chunks):
    out = []
    for c in chunks:
        out.extend(c if isinstance(c, list) else [c])
    return out[:25]


def _history(op, sizes=((1, 25), (8, 25), (16, 25)), pairs=True):
    elem = st.one_of(*([op] * 12 + [_uninvert_pair()])) if pairs else op
    return st.one_of(*[st.lists(elem, min_size=a, max_size=b).map(_flatten) for a, b in sizes])


_SWITCHES = st.lists(st.sampled_from([0, 1]), min_size=4, max_size=4)
_SPEC = st.one_of(sps.sp_specs(masses=True), sps.sp_specs(masses=False))


def _cases(ops, fk_modes=(1, 1, 0), switches=_SWITCHES, spec=_SPEC):
    return st.fixed_dictionaries({"spec": spec, "switches": switches, "fk_mode": st.sampled_from(list(fk_modes)),
                                  "seed": _SEED, "ops": ops})


@st.composite
def _short_ops(draw):
    """One out-of-workspace request (the corrective branches, densely), then 1..3 validations / queries / a plain
    in-workspace request."""
    first = draw(st.one_of(
        _ik_op(kinds=OUT_KINDS, protect=st.just(False)),
        _fk_op(kinds=("high", "low", "mixed", "uniform", "one_out", "edge"), protect=st.just(False)),
        st.tuples(_ik_op(kinds=("below", "flip", "low", "high", "lateral"), protect=st.just(True)),
                  st.one_of(_validate_op(), _fk_op(kinds=("pose", "in"), modes=(0, 1, None)))).map(list),
        _uninvert_pair(),
    ))
    ops = first if isinstance(first, list) else [first]
    tail = draw(st.lists(st.one_of(_queries(), _validate_op(), _ik_op(kinds=("in",)), _fk_op(kinds=("pose",))),
                         min_size=1, max_size=3))
    return ops + tail


CLAUSES = [
    Clause("correction_then_queries", check, _cases(_short_ops()), 200, 5000, region=region, shrink_quick=False),
    Clause("history_everyday_calls", check, _cases(_history(_everyday_op(), pairs=False), fk_modes=(1,)), 100, 2400,
           region=region, shrink_quick=False),
    Clause("history_full_alphabet", check, _cases(_history(_any_op())), 150, 4000, region=region, shrink_quick=False),
]


# ------------------------------------------------------------------------------------------ ddmin shrinker (tool)

def _bucket_of(case):
    from vf.core import Ctx, Inconclusive, Skip
    try:
        check(case, Ctx(replay=True))
    except Violation as v:
        b = bucket(str(v))
        return (b, str(v))
    except (Skip, Inconclusive):
        return (None, "")
    return (None, "")


def shrink_history(case, keep_path=False):
    """Greedy ddmin over the op list, then one-field-at-a-time simplification of the surroundings and of the remaining
    ops, keeping the violated invariant (and, with keep_path, the corrective path) of the original failure."""
    b0, msg = _bucket_of(case)
    if b0 is None:
        raise SystemExit("case does not fail")

    def same(c):
        b1, _ = _bucket_of(c)
        return b1 is not None and b1[0] == b0[0] and (not keep_path or b1[2] == b0[2])

    cur = dict(case)
    ops = list(cur["ops"])
    m = re.search(r"step (\d+):", msg)
    if m and same(dict(cur, ops=ops[:int(m.group(1)) + 1])):
        ops = ops[:int(m.group(1)) + 1]
    n = 2
    while len(ops) >= 2:
        chunk = max(1, len(ops) // n)
        removed = False
        for i in range(0, len(ops), chunk):
            cand = ops[:i] + ops[i + chunk:]
            if cand and same(dict(cur, ops=cand)):
                ops, n, removed = cand, max(n - 1, 2), True
                break
        if not removed:
            if chunk == 1:
                break
            n = min(len(ops), n * 2)
    cur["ops"] = ops
    for field, val in (("base", np.zeros(6)), ("spin", None), ("masses", None), ("route", "newSP"),
                       ("max_dev", sps.DEFAULT_MAX_DEV_DEG), ("rot", 1)):
        spec = dict(cur["spec"], **{field: val})
        if field == "route":
            spec["alt_rot"] = 0.0
        if same(dict(cur, spec=spec)):
            cur = dict(cur, spec=spec)
    for i in range(4):
        sw = list(cur["switches"])
        if sw[i]:
            sw[i] = 0
            if same(dict(cur, switches=sw)):
                cur = dict(cur, switches=sw)
    if cur["fk_mode"] != 1 and same(dict(cur, fk_mode=1)):
        cur = dict(cur, fk_mode=1)
    simple = {"protect": False, "form": "mat", "target": "top", "plate": None, "col": False, "mode": None,
              "reverse": False, "donothing": False}
    for k in range(len(cur["ops"])):
        for field, val in simple.items():
            op = cur["ops"][k]
            if field in op and op[field] != val and not (field == "mode" and op["op"] == "fkmode"):
                op2 = dict(op, **{field: val})
                if field == "target":
                    op2["bot"] = None
                if field == "plate":
                    op2["plate_pose"] = None
                ops2 = cur["ops"][:k] + [op2] + cur["ops"][k + 1:]
                if same(dict(cur, ops=ops2)):
                    cur = dict(cur, ops=ops2)
    return cur, _bucket_of(cur)


if __name__ == "__main__":
    from vf import ser
    if len(sys.argv) >= 3 and sys.argv[1] == "shrink":
        with open(sys.argv[2]) as f:
            rec = json.load(f)
        small, (b, msg) = shrink_history(ser.from_jsonable(rec["case"]), keep_path="--keep-path" in sys.argv)
        rec["case"] = ser.to_jsonable(small)
        rec["message"] = msg
        names = [a for a in sys.argv[2:] if not a.startswith("--")]
        out = names[1] if len(names) > 1 else names[0]
        with open(out, "w") as f:
            json.dump(rec, f, indent=1)
        print("shrunk to %d ops: %s" % (len(small["ops"]), msg[:300]))
