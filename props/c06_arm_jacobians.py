"""C06 -- arm Jacobians are the derivative of forward kinematics; statics is its transpose.

A case is {"arm": <arm spec of vf.arms>, "prep": [<op>, ...], "theta": <theta code>, ...clause data}.
``check`` builds a fresh arm (vf.arms.build_arm), brings it into its state by interpreting ``prep``
(move / setArbitraryHome / restoreOriginalEE / FK), decodes theta at least 1e-3 inside the limits and
computes the REFERENCE SPACE JACOBIAN from the arm's own forward kinematics:

    column i of J_ref = vee( dT/dtheta_i . T^-1 ),   T(theta) = arm.FK(theta)   (world frame, MR order [w; v])

with Richardson-extrapolated central differences (three steps h, h/2, h/4 with h in {8e-4, 6.4e-4, ...}, all
>= 1e-4; h is chosen per joint so that no stencil point theta_i +- step falls inside the library's NearZero
cut-off |angle| < 1e-6 unless it is exactly 0).  Every call of FK gets a private copy of the joint vector
(FK clamps its argument in place and keeps a reference to it as the arm's state).

Everything else is compared with J_ref after the corresponding change of frame; statics with J_ref^T.
Only the link-mass clause needs more than the arm's FK: the world positions of the link centres of mass come
from the independent model of vf.arms (base pose, screws, joint home frames) and the mass data the case
itself installs through the public setter (or, for the two URDF models that carry inertial data, the data
read from the arm right after loading).
"""
import math

import numpy as np
from hypothesis import strategies as st

from vf import arms as A
from vf import gen as G
from vf import oracle as O
from vf.core import Clause, Violation, sut

PROPERTY_ID = "C06"
RULE = ("Arms of C05 (the suite's 6R arm, the five bundled URDFs, random 1..7-joint revolute chains; identity or "
        "random construction base; default or custom limits, every interval at least 4e-3 wide) brought into their "
        "state by 0..3 preparation ops (move, setArbitraryHome tool-relative with/without theta, restoreOriginalEE, "
        "FK): fresh / after move / after tool change / mixtures. theta drawn per joint inside [min+1e-3, max-1e-3] "
        "(ends, zero, tiny values around the 1e-6 NearZero cut-off, uniform); rates in [-10,10]^n; wrenches [m; f] in "
        "[-100,100]^6 given as Wrench(data), as Wrench(force, point of application) or as a 6x1 array; link masses in "
        "[0,50] with centres of mass up to 1 from the joint frame. Non-trivial: the arm's base is not the identity, or "
        "its tool was changed, or |theta_i| > 1 for some joint; distinct by digest of the whole case.")
ASSUMPTIONS = [
    "reference Jacobian: Richardson central differences (steps >= 1e-4) of the ARM'S OWN FK, vee(dT T^-1); the "
    "comparison tolerance is the property's 1e-6*|J| (Frobenius norm of the expected matrix, at least 1); 1e-5*|J| for "
    "numericalJacobian (itself a second-order difference quotient with step 5e-4); in the space clause the same stencil is "
    "applied to the model's own FK on every case and must reproduce the model's analytic Jacobian to 1e-8 (harness self-check)",
    "when a joint value lies in the open NearZero band (1e-9, 2e-6) the library drops that joint's rotation in some "
    "products and not in others: tolerance 5e-6*|J| per such joint (DESIGN 1.3), cases labelled",
    "wrench data order is [moment; force] (Wrench.getMoment = data[0:3]) and twists are [w; v]: the natural pairing "
    "tau.qdot = m.w + f.v; a Wrench is given in the global frame (default frame_applied) as staticForces documents",
    "link-mass variant: mass data layout is the one the library's own producer (loadArmFromURDF) and consumer "
    "(staticForcesWithLinkMasses) share and the attribute comment states ('Local Link Mass Centers Relative To "
    "Previous Joint'): n+1 masses / centres, index 0 = base link (loads no joint), index j = link driven by joint "
    "j-1 with its centre given in that joint's frame as getJointTransforms reports it. The suite's 6R set-up carries "
    "Modern-Robotics style data (n masses, n+1 COM-to-COM transforms) for inverseDynamics; on it the function "
    "raises IndexError -- outside this layout, recorded in notes/C06.md, not generated",
    "link-mass variant: when the tool sits ON the last joint (positions within 1e-6) the library reports the TOOL "
    "frame as the last joint's frame; both orientations are admitted for the last link's centre of mass",
    "link-mass variant: link frames whose world rotation is within 1e-3 of a half turn after the library "
    "re-expressed them through its axis-angle form (move, tool change) are the open finding C01-near-pi-log: "
    "such cases are executed, labelled and not compared",
    "statics inverse: demanded only for n >= 6 and sigma_min(J_ref) >= 1e-3 (the property's 'wherever the Jacobian "
    "has full rank'), tolerance 1e-9*max(1,|W|) + 1e-13*cond(J)*|W|",
]
SHARDS = {"quick": 4, "thorough": 16}

RTOL = 1e-6
RTOL_NUM = 1e-5
LOOSE = 5e-6
BAND_LO, BAND_HI = 1e-9, 2e-6
MARGIN = 1e-3
STEPS = (8e-4, 6.4e-4, 5.2e-4, 7.2e-4, 4.4e-4)
NEAR_PI = 1e-3
NMAX = A.NMAX

_lib = {}


def lib():
    if not _lib:
        from basic_robotics.general import Wrench, tm
        _lib["tm"] = tm
        _lib["Wrench"] = Wrench
    return _lib


def warm():
    # optimisation only; a broken library is reported by the clauses with the failing case
    try:
        A.warm()
        tm, Wrench = lib()["tm"], lib()["Wrench"]
        arm, model = A.build_arm({"kind": "sixr", "base": np.array([0.1, 0.2, 0.3, 0.1, 0.2, 0.3])})
        th = np.linspace(0.1, 0.6, 6)
        for i in range(6):
            arm.FKLink(th.copy(), i)
            arm.jacobianLink(i, th.copy())
        arm.jacobianEETrans(th.copy())
        arm.numericalJacobian(th.copy())
        arm.velocityAtEndEffector(np.ones(6), th.copy())
        W = Wrench(np.arange(6.0))
        arm.staticForcesInv(arm.staticForces(W, th.copy()), th.copy())
        arm.setMassProperties(np.ones(7), [tm() for _ in range(7)])
        arm.staticForcesWithLinkMasses(W, th.copy())
    except Exception:  # noqa: BLE001 -- deliberately broad, see above
        pass


# ------------------------------------------------------------------------------------------------
# generators
# ------------------------------------------------------------------------------------------------

def _widen_limits(spec):
    """Every joint interval at least 4e-3 wide, so that [min+1e-3, max-1e-3] is a proper interval."""
    lim = spec.get("limits")
    if lim is not None:
        mins = np.array(lim[0], dtype=float)
        maxs = np.array(lim[1], dtype=float)
        narrow = (maxs - mins) < 4e-3
        maxs[narrow] = mins[narrow] + 4e-3
        spec = dict(spec)
        spec["limits"] = (mins, maxs)
    return spec


def arm_specs(**kw):
    return A.arm_specs(**kw).map(_widen_limits)


_REL_KINDS = ["generic", "generic", "generic", "trans", "rot", "onto_last"]


@st.composite
def _sethome_op(draw):
    kind = draw(st.sampled_from(_REL_KINDS))
    if kind == "trans":
        rel = np.concatenate([np.array([draw(G.floats(-1.0, 1.0)) for _ in range(3)]), np.zeros(3)])
    elif kind == "rot":
        rel = np.concatenate([np.zeros(3), draw(A.poses6(maxnorm=1.0))[3:]])
    else:
        rel = draw(A.poses6(maxnorm=1.0))
    with_theta = draw(st.booleans())
    return {"op": "sethome", "kind": kind, "rel": rel,
            "theta": draw(A.theta_codes()) if with_theta else None}


@st.composite
def _move_op(draw):
    return {"op": "move", "base": draw(A.poses6(maxnorm=5.0, identity_weight=5))}


@st.composite
def preps(draw):
    """0..3 preparation ops.  ~25 % fresh, the rest: move, tool change, tool change + restore, mixtures."""
    shape = draw(st.sampled_from(["fresh", "fresh", "move", "move", "tool", "tool", "tool", "tool_restore",
                                  "move_tool", "tool_move", "tool_tool", "fk_tool", "free"]))
    if shape == "fresh":
        return []
    if shape == "move":
        return [draw(_move_op())]
    if shape == "tool":
        return [draw(_sethome_op())]
    if shape == "tool_restore":
        return [draw(_sethome_op()), {"op": "restore"}]
    if shape == "move_tool":
        return [draw(_move_op()), draw(_sethome_op())]
    if shape == "tool_move":
        return [draw(_sethome_op()), draw(_move_op())]
    if shape == "tool_tool":
        return [draw(_sethome_op()), draw(_sethome_op())]
    if shape == "fk_tool":
        return [{"op": "fk", "theta": draw(A.theta_codes())}, draw(_sethome_op())]
    ops = []
    for _ in range(draw(st.integers(1, 3))):
        k = draw(st.sampled_from(["move", "sethome", "restore", "fk"]))
        if k == "move":
            ops.append(draw(_move_op()))
        elif k == "sethome":
            ops.append(draw(_sethome_op()))
        elif k == "restore":
            ops.append({"op": "restore"})
        else:
            ops.append({"op": "fk", "theta": draw(A.theta_codes())})
    return ops


def _vecn(mag):
    return G.vec(NMAX, -mag, mag)


def _link_homes():
    return st.lists(A.poses6(maxnorm=3.0, tiny=False), min_size=NMAX, max_size=NMAX)


def generic_theta_codes():
    """Codes for decode_generic: mostly uniform joint values, a few exactly at the ends of the admissible interval."""
    one = st.tuples(st.sampled_from(["u"] * 14 + ["lo", "hi"]), G.floats(0.0, 1.0))
    return st.lists(one, min_size=NMAX, max_size=NMAX)


def decode_generic(model, code):
    """Joint vector inside [min+1e-3, max-1e-3] from the u's of a theta code, de-correlated per joint with golden-ratio
    offsets: Hypothesis' favourite u values (0, 0.5, 1) would otherwise put every joint on the same special value
    (all-zero / all-at-a-limit configurations are structurally singular for most arms)."""
    th = np.zeros(model.n)
    for i in range(model.n):
        kind, u = code[i % len(code)]
        lo = max(float(model.mins[i]), -A.TWO_PI) + MARGIN
        hi = min(float(model.maxs[i]), A.TWO_PI) - MARGIN
        v = (u + 0.137 + 0.6180339887498949 * (i + 1)) % 1.0
        th[i] = lo if kind == "lo" else (hi if kind == "hi" else lo + v * (hi - lo))
    return th


def cases(extra=None, theta=None, specs=None, **speckw):
    d = {"arm": arm_specs(**speckw) if specs is None else specs, "prep": preps(),
         "theta": A.theta_codes() if theta is None else theta,
         "theta_zero": st.sampled_from([False] * 9 + [True]), "thkw": st.sampled_from([False, False, True])}
    if extra:
        d.update(extra)
    return st.fixed_dictionaries(d)


@st.composite
def wrench_inputs(draw):
    kind = draw(st.sampled_from(["data", "data", "force_at_point", "ndarray"]))
    if kind == "force_at_point":
        return {"kind": kind, "force": draw(G.vec(3, -100.0, 100.0)), "point": draw(G.vec(3, -5.0, 5.0))}
    return {"kind": kind, "data": draw(G.vec(6, -100.0, 100.0))}


@st.composite
def mass_inputs(draw):
    masses = np.array([draw(st.one_of(G.floats(0.0, 50.0), st.sampled_from([0.0, 1.0]))) for _ in range(NMAX + 1)])
    cgs = [draw(st.one_of(A.poses6(maxnorm=1.0, tiny=False), st.just(np.zeros(6)))) for _ in range(NMAX + 1)]
    grav = draw(st.one_of(st.none(), st.none(), G.vec(3, -10.0, 10.0)))
    return {"mode": draw(st.sampled_from(["set", "set", "loaded"])), "masses": masses, "cgs": cgs, "grav": grav,
            "theta_given": draw(st.integers(0, 3)) > 0}


# ------------------------------------------------------------------------------------------------
# helpers
# ------------------------------------------------------------------------------------------------

def as_T(x, what):
    if x is None or not hasattr(x, "gTM"):
        raise Violation("%s: expected a transform, got %r" % (what, type(x).__name__))
    T = np.array(sut(x.gTM), dtype=float)
    if T.shape != (4, 4) or not np.all(np.isfinite(T)):
        raise Violation("%s: not a finite 4x4" % what)
    return T


def as_mat(x, shape, what):
    if not isinstance(x, np.ndarray) and hasattr(x, "frame_applied") and hasattr(x, "data"):
        x = x.data                                    # a Wrench / Screw: its 6x1 data
    a = np.asarray(x, dtype=float)
    if a.shape != shape:
        if shape[1] == 1 and a.shape == (shape[0],):
            a = a.reshape(shape)                      # (n,) vs (n,1): the statement does not fix the vector shape
        else:
            raise Violation("%s: shape %s, expected %s" % (what, a.shape, shape))
    if not np.all(np.isfinite(a)):
        raise Violation("%s: non-finite entries" % what)
    return a


def fro(M):
    return max(1.0, float(np.linalg.norm(M)))


def compare(got, want, rtol, what, scale=None):
    scale = fro(want) if scale is None else max(1.0, scale)
    d = float(np.abs(got - want).max()) if got.size else 0.0
    if d > rtol * scale:
        idx = tuple(int(v) for v in np.unravel_index(int(np.abs(got - want).argmax()), got.shape))
        raise Violation("%s: max |diff| %.3g at %s > %.3g (= %.1e * %.3g)" % (what, d, idx, rtol * scale, rtol, scale))


def _apply_prep(arm, model, prep, ctx, state):
    """Interpret the preparation ops on the arm; keep the model's base / tool up to date."""
    tm = lib()["tm"]
    for op in prep:
        name = op["op"]
        if name == "move":
            base = np.array(op["base"], dtype=float)
            sut(arm.move, tm(base.copy()))
            model.B = O.pose_from_taa(base)
            model.M = model.M0.copy()          # the library re-initialises with the original tool (C05 admits both)
            state["moved"] = True
            state["tools"].append(model.M0.copy())
        elif name == "fk":
            th = A.decode_theta(model, op["theta"], inside=True)
            sut(arm.FK, th.copy())
        elif name == "restore":
            sut(arm.restoreOriginalEE)
            model.M = model.M0.copy()
            state["tool_ops"] += 1
            state["tools"].append(model.M0.copy())
        else:
            rel = np.array(op["rel"], dtype=float)
            if op["theta"] is not None:
                th = A.decode_theta(model, op["theta"], inside=True)
                T_now = as_T(sut(arm.FK, th.copy()), "FK before setArbitraryHome")
            else:
                th = None
                T_now = as_T(sut(arm.getEEPos), "getEEPos before setArbitraryHome")
            X = O.pose_from_taa(rel)
            if op.get("kind") == "onto_last":
                # new tool frame ON the last joint's axis point (exercises the 'coincident' bookkeeping)
                th_state = np.array(arm._theta, dtype=float) if th is None else th
                last = A.model_joint_frames(model, th_state)[-1]
                if model.kind == "urdf":
                    last = model.B @ A.chain_prefixes(model, A.clamp(model, th_state))[-1] @ state["last_home"]
                N = T_now.copy()
                N[:3, :3] = T_now[:3, :3] @ X[:3, :3]
                N[:3, 3] = last[:3, 3]
                X = O.inv(T_now) @ N
            else:
                N = T_now @ X
            if th is None:
                sut(arm.setArbitraryHome, tm(np.ascontiguousarray(N)))
            else:
                sut(arm.setArbitraryHome, tm(np.ascontiguousarray(N)), th.copy())
            model.M = model.M @ X
            state["tool_ops"] += 1
            state["tools"].append(model.M.copy())
    return arm


def _pick_h(th_i):
    for h in STEPS:
        pts = [th_i + s * h / k for s in (1.0, -1.0) for k in (1.0, 2.0, 4.0)]
        if all(p == 0.0 or abs(p) >= BAND_HI for p in pts):
            return h
    raise AssertionError("no admissible stencil step for theta_i = %r" % th_i)      # cannot happen (5 distinct h)


def richardson_cols(f, theta):
    """[d f / d theta_i for i] by Richardson central differences; f takes a private copy each time."""
    out = []
    for i in range(len(theta)):
        out.append(O.richardson(lambda x: f(np.array(x, dtype=float)), theta, i, h=_pick_h(float(theta[i]))))
    return out


def ref_space_jacobian(arm, theta):
    """(J_ref 6xn, T 4x4): differentiate the arm's own FK."""
    def f(x):
        return as_T(sut(arm.FK, x), "FK in the difference stencil")
    T = f(theta.copy())
    Tinv = O.inv(T)
    cols = richardson_cols(f, theta)
    J = np.zeros((6, len(theta)))
    for i, dT in enumerate(cols):
        J[:, i] = O.vee6(dT @ Tinv)
    return J, T


class Setup:
    pass


def setup(case, ctx, after_build=None):
    """Build the arm, run ``after_build(arm, model)`` (constructor-time data such as link homes / masses), apply the
    preparation ops, decode theta, differentiate FK."""
    spec = case["arm"]
    arm, model = sut(A.build_arm, spec)
    n = model.n
    if after_build is not None:
        after_build(arm, model)
    ctx.label("arm " + (spec["kind"] if spec["kind"] != "urdf" else "urdf"))
    ctx.label("n=%d" % n)
    s = Setup()
    s.state = {"moved": False, "tool_ops": 0, "tools": [model.M0.copy()], "last_home": None}
    if spec["kind"] == "urdf":
        X = arm._eef_to_last_joint
        s.state["last_home"] = model.M0 @ np.array(X.gTM(), dtype=float) if X is not None else model.M0.copy()
        # a fixed joint with a non-zero origin behind the last joint: the library's stored last joint home is then the
        # tool-folded pose, not the joint's frame (UR5 / UR10; irb_2400's trailing fixed joint has a zero origin)
        s.state["urdf_trailing_fixed"] = not np.allclose(s.state["last_home"], model.M0, rtol=0, atol=1e-9)
    else:
        s.state["last_home"] = model.H[-1].copy()
        s.state["urdf_trailing_fixed"] = False
    s.construction_B = model.B.copy()
    _apply_prep(arm, model, case["prep"], ctx, s.state)
    if case.get("theta_mode") == "generic":
        theta = decode_generic(model, case["theta"])
    else:
        theta = A.decode_theta(model, case["theta"], inside=True, margin=MARGIN)
    lo = np.maximum(model.mins, -A.TWO_PI) + MARGIN
    hi = np.minimum(model.maxs, A.TWO_PI) - MARGIN
    if case.get("theta_zero"):
        # the home configuration asked for explicitly (an all-zero joint vector is a joint vector like any other)
        theta = np.minimum(np.maximum(np.zeros(n), lo), hi)
        if not np.any(theta):
            ctx.label("explicit all-zero joint vector")
    _KW[0] = bool(case.get("thkw"))
    if _KW[0]:
        ctx.label("theta passed by keyword")
    if np.any(theta < lo - 1e-15) or np.any(theta > hi + 1e-15):
        raise AssertionError("theta generator left [min+1e-3, max-1e-3]")
    s.arm, s.model, s.n, s.theta = arm, model, n, theta
    s.band = sum(1 for t in theta if BAND_LO < abs(t) < BAND_HI)
    base_moved = not np.array_equal(model.B, np.eye(4))
    tool_changed = s.state["tool_ops"] > 0
    tool_differs = not np.array_equal(model.M, model.M0)     # restored / reset by a later move: not a changed tool
    cls = []
    if not case["prep"]:
        cls.append("fresh")
    if s.state["moved"]:
        cls.append("after move")
    if tool_changed:
        cls.append("after tool change")
    if any(op["op"] == "restore" for op in case["prep"]):
        cls.append("after restore")
    ctx.label("state " + ("+".join(cls) if cls else "fk only"))
    ctx.label("base " + ("moved" if base_moved else "identity"))
    if s.band:
        ctx.label("theta in NearZero band")
    big = bool(np.any(np.abs(theta) > 1.0))
    if big:
        ctx.label("|theta_i|>1")
    ctx.nontrivial(base_moved or tool_differs or big)
    s.known_region = False
    s.J, s.T = ref_space_jacobian(arm, theta)
    # leave the arm in a state that is NOT theta (reflection inside the admissible box), so that a call with an
    # explicit joint vector is seen to use its argument and not the stored state; the clauses then call
    # FK(theta) themselves before exercising the defaulted-theta variants
    s.other = np.minimum(np.maximum(lo + hi - theta, lo), hi)
    sut(arm.FK, s.other.copy())
    return s


_KW = [False]


def sut_th(fn, *args):
    """Library call whose LAST argument is the joint vector: handed over positionally, or - when the case says so - as
    the keyword ``theta=`` (the documented parameter name of every Jacobian / statics entry point)."""
    if _KW[0]:
        return sut(fn, *args[:-1], theta=args[-1])
    return sut(fn, *args)


def then_again(s, case, ctx, checks):
    """Run ``checks`` now and, when the case has a ``then`` operation (a move of the base or a change of tool), once
    more after it with the SAME joint vector and inputs: the Jacobian maps are functions of the arm as it is now."""
    checks()
    op = case.get("then")
    if op is None:
        return
    _apply_prep(s.arm, s.model, [op], ctx, s.state)
    ctx.label("asked again after a later " + ("move" if op["op"] == "move" else "tool change"))
    s.J, s.T = ref_space_jacobian(s.arm, s.theta)
    sut(s.arm.FK, s.other.copy())
    checks()


def rt(s, base=RTOL):
    """Relative tolerance: the property's, or 5e-6 per joint value inside the NearZero band."""
    return max(base, LOOSE * s.band) if s.band else base


# ------------------------------------------------------------------------------------------------
# clauses
# ------------------------------------------------------------------------------------------------

def c_space(case, ctx):
    s = setup(case, ctx)
    arm, th, n = s.arm, s.theta, s.n
    J = as_mat(sut_th(arm.jacobian, th.copy()), (6, n), "jacobian(theta)")
    compare(J, s.J, rt(s), "jacobian(theta) vs d FK/d theta (space twist columns)")
    sut(arm.FK, th.copy())
    J0 = as_mat(sut(arm.jacobian), (6, n), "jacobian()")
    compare(J0, s.J, rt(s), "jacobian() at the stored state vs d FK/d theta")
    # harness self-check (no library involved): the same stencil applied to the MODEL's forward kinematics must
    # reproduce the model's analytic space Jacobian far below the comparison tolerance, otherwise the check is broken
    model = s.model

    def fm(x):
        return A.model_fk(model, x, clamped=False)
    Tm_inv = O.inv(fm(th))
    Jfd = np.stack([O.vee6(dT @ Tm_inv) for dT in richardson_cols(fm, th)], axis=1)
    Jan = A.model_jac_space(model, th, clamped=False)
    err = float(np.abs(Jfd - Jan).max()) / fro(Jan)
    ctx.note("stencil self-check rel err", err)
    if err > 1e-8:
        raise AssertionError("difference stencil inaccurate on the model: rel err %.3g" % err)


def c_body(case, ctx):
    s = setup(case, ctx)
    arm, th, n = s.arm, s.theta, s.n
    want = O.Ad(O.inv(s.T)) @ s.J
    Jb = as_mat(sut_th(arm.jacobianBody, th.copy()), (6, n), "jacobianBody(theta)")
    compare(Jb, want, rt(s), "jacobianBody(theta) vs Ad(T^-1) J_space", scale=max(fro(want), fro(s.J)))
    sut(arm.FK, th.copy())
    Jb0 = as_mat(sut(arm.jacobianBody), (6, n), "jacobianBody()")
    compare(Jb0, want, rt(s), "jacobianBody() at the stored state vs Ad(T^-1) J_space",
            scale=max(fro(want), fro(s.J)))


def c_link(case, ctx):
    tm = lib()["tm"]

    def install_link_homes(arm, model):
        # constructor-time data: arms that carry link homes keep them, the others get the case's (public setter)
        homes = arm._link_homes_global
        if homes is None or len(homes) < model.n:
            sut(arm.setOrigins, link_homes_global=[tm(np.array(p, dtype=float)) for p in case["link_homes"][:model.n]])
            ctx.label("link homes set by case")
        else:
            ctx.label("link homes of the arm")
    s = setup(case, ctx, install_link_homes)
    arm, th, n = s.arm, s.theta, s.n
    i = int(case["link"]) % n
    ctx.label("link last" if i == n - 1 else ("link 0" if i == 0 else "link mid"))

    def f(x):
        return as_T(sut(arm.FKLink, x, i), "FKLink in the difference stencil")
    Ti = f(th.copy())
    Tinv = O.inv(Ti)
    cols = richardson_cols(f, th)
    want = np.zeros((6, n))
    for k, dT in enumerate(cols):
        want[:, k] = O.vee6(Tinv @ dT)              # body twist of link frame i
    got = as_mat(sut_th(arm.jacobianLink, i, th.copy()), (6, n), "jacobianLink(i, theta)")
    scale = max(fro(want), fro(s.J))
    compare(got, want, rt(s), "jacobianLink(%d, theta) vs body twist columns of d FKLink/d theta" % i, scale=scale)
    if np.any(got[:, i + 1:] != 0.0):
        raise Violation("jacobianLink(%d): columns of the joints after link %d are not zero" % (i, i))
    # the same map seen from the space Jacobian: Ad(T_link^-1) . J_space[:, :i+1]
    want2 = np.zeros((6, n))
    want2[:, :i + 1] = (O.Ad(Tinv) @ s.J)[:, :i + 1]
    compare(got, want2, rt(s), "jacobianLink(%d, theta) vs Ad(FKLink^-1) J_space[:, :%d]" % (i, i + 1), scale=scale)
    sut(arm.FK, th.copy())
    got0 = as_mat(sut(arm.jacobianLink, i), (6, n), "jacobianLink(i)")
    compare(got0, want, rt(s), "jacobianLink(%d) at the stored state" % i, scale=scale)


def c_eetrans(case, ctx):
    s = setup(case, ctx)
    arm, th, n = s.arm, s.theta, s.n
    Tp = np.eye(4)
    Tp[:3, 3] = s.T[:3, 3]
    want = O.Ad(O.inv(Tp)) @ s.J
    got = as_mat(sut_th(arm.jacobianEETrans, th.copy()), (6, n), "jacobianEETrans(theta)")
    compare(got, want, rt(s), "jacobianEETrans(theta) vs Ad([I,p]^-1) J_space", scale=max(fro(want), fro(s.J)))
    # its linear rows are the velocity of the tool ORIGIN in world axes: d p / d theta
    def fp(x):
        return as_T(sut(arm.FK, x), "FK")[:3, 3]
    dp = np.stack(richardson_cols(fp, th), axis=1)
    compare(got[3:, :], dp, rt(s), "jacobianEETrans linear rows vs d(tool position)/d theta",
            scale=max(fro(want), fro(s.J)))
    sut(arm.FK, th.copy())
    got0 = as_mat(sut(arm.jacobianEETrans), (6, n), "jacobianEETrans()")
    compare(got0, want, rt(s), "jacobianEETrans() at the stored state", scale=max(fro(want), fro(s.J)))


def c_numerical(case, ctx):
    s = setup(case, ctx)
    arm, th, n = s.arm, s.theta, s.n
    got = as_mat(sut_th(arm.numericalJacobian, th.copy()), (6, n), "numericalJacobian(theta)")
    compare(got, s.J, rt(s, RTOL_NUM), "numericalJacobian(theta) vs d FK/d theta")
    J = as_mat(sut_th(arm.jacobian, th.copy()), (6, n), "jacobian(theta)")
    compare(got, J, rt(s, RTOL_NUM), "numericalJacobian(theta) vs jacobian(theta)", scale=fro(s.J))
    # the joint vector left out: the arm's stored configuration (put there by FK(theta))
    sut(arm.FK, th.copy())
    got0 = as_mat(sut(arm.numericalJacobian), (6, n), "numericalJacobian()")
    compare(got0, s.J, rt(s, RTOL_NUM), "numericalJacobian() at the stored configuration vs d FK/d theta")
    # ... which is still theta afterwards: the numerical Jacobian is a query, the arm has not been asked to move
    wantb = O.Ad(O.inv(s.T)) @ s.J
    Jb0 = as_mat(sut(arm.jacobianBody), (6, n), "jacobianBody() after numericalJacobian()")
    compare(Jb0, wantb, rt(s), "jacobianBody() at the stored configuration, after a numericalJacobian() query, vs Ad(T^-1) J_space",
            scale=max(fro(wantb), fro(s.J)))


def c_velocity(case, ctx):
    s = setup(case, ctx)
    arm, th, n = s.arm, s.theta, s.n
    qd = np.array(case["qdot"], dtype=float)[:n]
    ctx.label("qdot zero" if not np.any(qd) else "qdot generic")
    want = (s.J @ qd).reshape(6, 1)
    scale = fro(s.J) * max(1.0, float(np.linalg.norm(qd)))
    got = as_mat(sut_th(arm.velocityAtEndEffector, qd.copy(), th.copy()), (6, 1), "velocityAtEndEffector(qdot, theta)")
    compare(got, want, rt(s), "velocityAtEndEffector(qdot, theta) vs J_space qdot", scale=scale)
    sut(arm.FK, th.copy())
    got0 = as_mat(sut(arm.velocityAtEndEffector, qd.copy()), (6, 1), "velocityAtEndEffector(qdot)")
    compare(got0, want, rt(s), "velocityAtEndEffector(qdot) at the stored state vs J_space qdot", scale=scale)
    # the twist is the velocity of the tool: d/dt FK(theta + t qdot) = [V] T
    nq = float(np.linalg.norm(qd))
    if nq > 1e-6:
        u = qd / nq
        h = STEPS[0]                                   # |h u_i| <= 8e-4 < 1e-3: the stencil stays inside the limits
        pts = [th[j] + sg * (h / k) * u[j] for j in range(n) for sg in (1.0, -1.0) for k in (1.0, 2.0, 4.0)]
        if all(p == 0.0 or abs(p) >= BAND_HI for p in pts):
            def f(t):
                return as_T(sut(arm.FK, th + t[0] * u), "FK along the rate direction")
            dT = O.richardson(f, np.zeros(1), 0, h=h)
            V = O.vee6(dT @ O.inv(s.T)) * nq
            compare(got, V.reshape(6, 1), rt(s), "velocityAtEndEffector vs d/dt FK(theta + t qdot)", scale=scale)
            ctx.label("directional derivative checked")
            sut(arm.FK, th.copy())


def _make_wrench(w):
    """(object handed to the library, oracle 6-vector [m; f])."""
    Wrench, tm = lib()["Wrench"], lib()["tm"]
    if w["kind"] == "force_at_point":
        f = np.array(w["force"], dtype=float)
        p = np.array(w["point"], dtype=float)
        obj = sut(Wrench, f.copy(), tm(np.concatenate([p, np.zeros(3)])))
        return obj, np.concatenate([np.cross(p, f), f])
    d = np.array(w["data"], dtype=float)
    if w["kind"] == "ndarray":
        return d.reshape(6, 1).copy(), d
    return sut(Wrench, d.copy()), d


def c_statics(case, ctx):
    s = setup(case, ctx)
    arm, th, n = s.arm, s.theta, s.n
    Wobj, W = _make_wrench(case["wrench"])
    ctx.label("wrench " + case["wrench"]["kind"])
    qd = np.array(case["qdot"], dtype=float)[:n]
    then_again(s, case, ctx, lambda: _statics_checks(s, arm, th, n, Wobj, W, qd))


def _statics_checks(s, arm, th, n, Wobj, W, qd):
    want = (s.J.T @ W).reshape(n, 1)
    wn = max(1.0, float(np.linalg.norm(W)))
    scale = fro(s.J) * wn
    tau = as_mat(sut_th(arm.staticForces, Wobj, th.copy()), (n, 1), "staticForces(W, theta)")
    compare(tau, want, rt(s), "staticForces(W, theta) vs J_space^T W  (W = [moment; force])", scale=scale)
    last = as_mat(sut(arm.getActuatorForces), (n, 1), "getActuatorForces()")
    if not np.array_equal(last, tau):
        raise Violation("getActuatorForces() differs from the torques staticForces just returned")
    # power: tau . qdot = W . (J qdot), with the library's own twist and with the reference twist
    twist = as_mat(sut_th(arm.velocityAtEndEffector, qd.copy(), th.copy()), (6, 1), "velocityAtEndEffector")
    p_joint = float(tau[:, 0] @ qd)
    p_tool = float(W @ twist[:, 0])
    p_ref = float(W @ (s.J @ qd))
    pscale = scale * max(1.0, float(np.linalg.norm(qd)))
    if abs(p_joint - p_tool) > 1e-9 * pscale:
        raise Violation("power identity: tau.qdot = %.12g but W.(J qdot) = %.12g (library twist), diff %.3g > %.3g"
                        % (p_joint, p_tool, abs(p_joint - p_tool), 1e-9 * pscale))
    if abs(p_joint - p_ref) > rt(s) * pscale:
        raise Violation("power identity: tau.qdot = %.12g but W.(dFK qdot) = %.12g, diff %.3g > %.3g"
                        % (p_joint, p_ref, abs(p_joint - p_ref), rt(s) * pscale))
    sut(arm.FK, th.copy())
    tau0 = as_mat(sut(arm.staticForces, Wobj), (n, 1), "staticForces(W)")
    compare(tau0, want, rt(s), "staticForces(W) at the stored state vs J_space^T W", scale=scale)
    # the same map in the tool frame: the six numbers read as a BODY wrench give J_body^T W, and mapping them back
    # returns them wherever the Jacobian has full rank
    Jb = O.Ad(O.inv(s.T)) @ s.J
    sut(arm.FK, s.other.copy())
    tb = as_mat(sut_th(arm.staticForcesBody, Wobj, th.copy()), (n, 1), "staticForcesBody(W, theta)")
    compare(tb, (Jb.T @ W).reshape(n, 1), rt(s), "staticForcesBody(W, theta) vs J_body^T W", scale=fro(Jb) * wn)
    if n >= 6:
        sv = np.linalg.svd(Jb, compute_uv=False)
        if sv[-1] >= 1e-3:
            backb = as_mat(sut_th(arm.staticForcesInvBody, tb.copy(), th.copy()), (6, 1), "staticForcesInvBody(tau, theta)")
            tolb = 1e-9 * wn + 1e-13 * float(sv[0] / sv[-1]) * wn + rt(s) * fro(Jb) * wn / float(sv[-1]) * 2.0
            db = float(np.abs(backb[:, 0] - W).max())
            if db > tolb:
                raise Violation("staticForcesInvBody(staticForcesBody(W)) vs W: max |diff| %.3g > %.3g" % (db, tolb))


def c_statics_inv(case, ctx):
    s = setup(case, ctx)
    arm, th, n = s.arm, s.theta, s.n
    if n < 6:
        ctx.skip("n < 6: J^T has a null space, the wrench is not determined by the torques")
    Wobj, W = _make_wrench(case["wrench"])
    then_again(s, case, ctx, lambda: _statics_inv_checks(s, arm, th, n, Wobj, W, ctx))


def _statics_inv_checks(s, arm, th, n, Wobj, W, ctx):
    sv = np.linalg.svd(s.J, compute_uv=False)
    smin = float(sv[-1])
    ctx.label("sigma_min 1e%d" % (math.floor(math.log10(smin)) if smin > 0 else -99))
    if smin < 1e-3:
        ctx.skip("sigma_min(J) < 1e-3: outside 'wherever the Jacobian has full rank'")
    cond = float(sv[0]) / smin
    wn = float(np.linalg.norm(W))
    tau = as_mat(sut_th(arm.staticForces, Wobj, th.copy()), (n, 1), "staticForces(W, theta)")
    back = sut_th(arm.staticForcesInv, tau.copy(), th.copy())
    if not isinstance(back, lib()["Wrench"]):
        raise Violation("staticForcesInv returned %s, not a Wrench" % type(back).__name__)
    got = as_mat(back, (6, 1), "staticForcesInv(tau, theta)")
    tol = 1e-9 * max(1.0, wn) + 1e-13 * cond * wn
    d = float(np.abs(got[:, 0] - W).max())
    if d > tol:
        raise Violation("staticForcesInv(staticForces(W)) vs W: max |diff| %.3g > %.3g (sigma_min %.3g, cond %.3g)"
                        % (d, tol, smin, cond))
    # and from torques produced by the reference map
    tau_ref = (s.J.T @ W).reshape(n, 1)
    got2 = as_mat(sut_th(arm.staticForcesInv, tau_ref.copy(), th.copy()), (6, 1), "staticForcesInv(J_ref^T W, theta)")
    tol2 = (rt(s) * fro(s.J) * max(1.0, wn)) / smin * 2.0 + tol
    d2 = float(np.abs(got2[:, 0] - W).max())
    if d2 > tol2:
        raise Violation("staticForcesInv(J_ref^T W) vs W: max |diff| %.3g > %.3g (sigma_min %.3g)" % (d2, tol2, smin))


def _angle_to_pi(T):
    return math.pi - O.angle(np.asarray(T)[:3, :3])


def c_link_masses(case, ctx):
    tm, Wrench = lib()["tm"], lib()["Wrench"]
    md = case["mass"]
    spec = case["arm"]
    holder = {}

    def install_masses(arm, model):
        n = model.n
        has = spec["kind"] == "urdf" and arm._link_masses is not None and len(arm._link_masses) == n + 1
        if md["mode"] == "loaded" and has:
            masses = np.array(arm._link_masses, dtype=float).copy()
            cgs = [np.array(c.gTM(), dtype=float) for c in arm._link_mass_grav_centers]
            ctx.label("mass data as loaded")
        else:
            masses = np.array(md["masses"], dtype=float)[:n + 1].copy()
            cg6 = [np.array(p, dtype=float) for p in md["cgs"][:n + 1]]
            cgs = [O.pose_from_taa(p) for p in cg6]
            sut(arm.setMassProperties, masses.copy(), [tm(p.copy()) for p in cg6])
            ctx.label("mass data set by case")
        if md["grav"] is not None:
            sut(arm.setGrav, np.array(md["grav"], dtype=float))
            ctx.label("gravity set by case")
        holder["masses"], holder["cgs"] = masses, cgs
    s = setup(case, ctx, install_masses)
    arm, model, th, n = s.arm, s.model, s.theta, s.n
    masses, cgs = holder["masses"], holder["cgs"]
    grav = np.array([0.0, 0.0, -9.81]) if md["grav"] is None else np.array(md["grav"], dtype=float)
    Wobj, W = _make_wrench(case["wrench"])

    # ---- admissible home frames (base coordinates) of link j = 1..n: "relative to the previous joint" ----------
    frames = [None] + [model.H[j - 1] for j in range(1, n)] + [s.state["last_home"]]
    last_alts = [frames[n]]
    lastpos = frames[n][:3, 3]
    tools = s.state["tools"]                              # chronological home tool poses (base frame), tools[0] = M0
    coincident = [float(np.abs(Mt[:3, 3] - lastpos).max()) < 1e-6 for Mt in tools]
    tool_ops = s.state["tool_ops"] > 0
    jh_is_last = not s.state["urdf_trailing_fixed"]      # the library's stored last joint home IS the last joint's frame
    if jh_is_last and all(coincident):
        last_alts.append(model.M.copy())                 # tool on the last joint: the tool frame is reported as the joint's
    in_region = tool_ops and masses[n] != 0.0 and ((not jh_is_last) or (coincident[-1] and not all(coincident)))
    # ---- near-pi: frames the library re-expressed through axis-angle ---------------------------------------------
    reexpressed = s.state["moved"] or (spec["kind"] == "urdf" and not np.array_equal(s.construction_B, np.eye(4)))
    risky = []
    if reexpressed:
        for j in range(1, n + 1):
            if masses[j] != 0.0:
                risky += [frames[j], s.construction_B @ frames[j], model.B @ frames[j]]
    if tool_ops and masses[n] != 0.0:
        for Mt in s.state["tools"]:
            risky += [model.B @ Mt, s.construction_B @ Mt, O.inv(Mt) @ frames[n]]
    if any(_angle_to_pi(F) < NEAR_PI for F in risky):
        ctx.label("near-pi frame (C01 finding): not compared")
        sut(arm.staticForcesWithLinkMasses, Wobj, th.copy())
        return
    if len(last_alts) > 1:
        ctx.label("tool on last joint: both orientations admitted")
    if in_region:
        s.known_region = True
        ctx.label("in region tool_change_last_link_frame")

    E = A.chain_prefixes(model, th)
    gsum = sum(abs(masses[j]) for j in range(1, n + 1)) * float(np.linalg.norm(grav))

    def expected(last_frame):
        tau = s.J.T @ W
        reach = 0.0
        for j in range(1, n + 1):
            F = frames[j] if j < n else last_frame
            c = (model.B @ E[j] @ F @ cgs[j])[:3, 3]
            f = masses[j] * grav
            G = np.concatenate([np.cross(c, f), f])
            reach = max(reach, float(np.linalg.norm(c)))
            for k in range(0, j):
                tau[k] += s.J[:, k] @ G
        return tau.reshape(n, 1), reach

    cands = [expected(F) for F in last_alts]
    if md["theta_given"]:
        got = as_mat(sut(arm.staticForcesWithLinkMasses, Wobj, th.copy()), (n, 1), "staticForcesWithLinkMasses(W, theta)")
    else:
        sut(arm.FK, th.copy())
        got = as_mat(sut(arm.staticForcesWithLinkMasses, Wobj), (n, 1), "staticForcesWithLinkMasses(W)")
        ctx.label("theta defaulted")
    reach = max(r for _, r in cands)
    scale = fro(s.J) * (max(1.0, float(np.linalg.norm(W))) + gsum * (1.0 + reach))
    errs = [float(np.abs(got - want).max()) for want, _ in cands]
    ctx.label("links with mass: %s" % ("all" if np.all(masses[1:n + 1] != 0) else ("none" if not np.any(masses[1:n + 1]) else "some")))
    if min(errs) > rt(s) * scale:
        k = int(np.abs(got - cands[0][0]).argmax())
        raise Violation("staticForcesWithLinkMasses vs J^T W + sum_j (moment of link j's weight about each upstream joint "
                        "axis): max |diff| %.3g (joint %d: got %.9g, expected %.9g) > %.3g"
                        % (min(errs), k, got[k, 0], cands[0][0][k, 0], rt(s) * scale)
                        + (" " + REGION_TAG if s.known_region else ""))
    # a query is a function of (state, wrench): asking the SAME question again -- with the very same wrench object,
    # as a caller holding one load does -- must give the same torques (the weights must not pile up in the caller's
    # wrench or in a shared default)
    if md["theta_given"]:
        again = as_mat(sut(arm.staticForcesWithLinkMasses, Wobj, th.copy()), (n, 1),
                       "staticForcesWithLinkMasses(W, theta) asked twice")
    else:
        again = as_mat(sut(arm.staticForcesWithLinkMasses, Wobj), (n, 1), "staticForcesWithLinkMasses(W) asked twice")
    if float(np.abs(again - got).max()) > rt(s) * scale:
        raise Violation("staticForcesWithLinkMasses asked twice with the same wrench object gives different torques: "
                        "max |diff| %.3g > %.3g" % (float(np.abs(again - got).max()), rt(s) * scale)
                        + (" " + REGION_TAG if s.known_region else ""))
    # gravity off, wrench only: must reduce to plain statics
    if not np.any(masses[1:n + 1]):
        plain = as_mat(sut_th(arm.staticForces, Wobj, th.copy()), (n, 1), "staticForces")
        compare(got, plain, 1e-9, "staticForcesWithLinkMasses with massless links vs staticForces", scale=scale)


REGION_TAG = "[region tool_change_last_link_frame]"


def tool_change_last_link_region(case, message):
    """Proposed known finding C06-tool-change-last-link-frame (see notes/C06.md): after setArbitraryHome /
    restoreOriginalEE the frame used for the LAST link's centre of mass is derived from a stale or tool-folded
    _eef_to_last_joint when (a) the arm is a URDF model with a fixed joint behind its last joint, or (b) one of
    the tools involved sits on the last joint.  Region: link-mass clause, a tool change in the preparation,
    last link mass != 0, and (a) or (b) -- decided by the clause from the case and the model alone (never from
    what the library returned) and carried in the message."""
    if "mass" in case and any(op["op"] in ("sethome", "restore") for op in case["prep"]) and REGION_TAG in message:
        return "tool_change_last_link_frame"
    return None


# ------------------------------------------------------------------------------------------------

_QD = {"qdot": _vecn(10.0)}

CLAUSES = [
    Clause("space_jacobian_is_dfk", c_space, cases(), 320, 5000),
    Clause("body_jacobian_is_adjoint_of_space", c_body, cases(), 320, 5000),
    Clause("link_jacobian_is_dfklink", c_link,
           cases({"link": st.integers(0, 6), "link_homes": _link_homes()}), 260, 4000),
    Clause("eetrans_jacobian_is_world_aligned_body", c_eetrans, cases(), 260, 4000),
    Clause("numerical_jacobian_matches", c_numerical, cases(), 260, 4000),
    Clause("velocity_is_jacobian_times_rates", c_velocity, cases(_QD), 260, 4000),
    Clause("statics_is_transpose_power_identity", c_statics,
           cases({"qdot": _vecn(10.0), "wrench": wrench_inputs(), "then": st.one_of(st.none(), st.none(), _move_op(), _sethome_op())}), 300, 5000),
    Clause("statics_inverse_recovers_wrench", c_statics_inv,
           cases({"wrench": wrench_inputs(), "theta_mode": st.just("generic"), "then": st.one_of(st.none(), st.none(), _move_op(), _sethome_op())}, theta=generic_theta_codes(),
                 specs=st.one_of(arm_specs(nmin=6, nmax=7, limits="default"), arm_specs(nmin=6, nmax=7))), 260, 4000),
    Clause("statics_with_link_masses", c_link_masses,
           cases({"wrench": wrench_inputs(), "mass": mass_inputs()}), 320, 5000,
           region=tool_change_last_link_region),
]
