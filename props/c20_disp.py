"""C20 -- disp never fails and shows every element it was given (basic_robotics.utilities.disp).

Rendered formats (reverse-engineered by reading disp.py and rendering examples; only the parts named in
ASSUMPTIONS are relied upon):

  table mode (mode=0)
    0-d array / scalar   "<str(x)>"                      or "<title>: <str(x)>"
    1-d array            "║ f, f, f ║"                    or "<title>: ║ f, f, f ║"
    2-d array            rows "╔ f, f ╗" / "║ f, f ║" / "╚ f, f ╝", optional "╔══ <title> BEGIN ══╗" / "╚══ <title> END ══╝"
    3-d, 4-d arrays      nested blocks of the 2-d rows, with BEGIN/END lines and "DIM i:" lines
    every field is "{:<nd+6>.<nd>f}".format(x); the number of decimals is reduced only for |x| >= 999999.5
  LaTeX mode (mode!=0), 2-d matrices
    one line per matrix row: cells str(round(x, nd)) joined by " & ", terminated by "\\\\"
"""
import contextlib
import io
import re
import string
import warnings
from fractions import Fraction

import numpy as np
from hypothesis import strategies as st

from vf.core import Clause, HarnessError, Violation, sut

PROPERTY_ID = "C20"
RULE = ("Hypothesis-generated display requests: an object description (recursive: Python/numpy scalars, str, None, "
        "nested lists/tuples, tm, Wrench, homogeneous lists of tms / Wrenches, numeric arrays of 0..5 axes with "
        "extents 0..4, eight dtypes, C/F/strided memory layouts) plus title (omitted / 'MATRIX' / letters only, both "
        "parities, also empty), nd (omitted or 0..8), pdims, noprint and mode (0 everywhere, 1 only for 2-D "
        "matrices). Array entries have boundary mass: decimal and binary rounding ties at the requested nd, values "
        "next to +-9999, -0.0, denormals, and (totality clauses only) +-inf, NaN, 1e300, dtype extremes. "
        "Non-trivial: the object is an array with >= 2 axes and >= 2 elements, or is empty, or contains a "
        "non-finite entry, or is a nested container / tm / Wrench / list of them; distinct by digest of the case.")
ASSUMPTIONS = [
    "table mode: a rendered row is a line whose last character is one of the box-drawing closers (right corner or "
    "vertical bar) and that contains an opener (left corner or vertical bar); everything between the first opener "
    "and the final closer is split at commas and every piece must be a decimal literal (or inf/nan/True/False), "
    "otherwise the line is not a row (BEGIN/END/DIM lines). Text in front of the first opener (the 'title: ' prefix "
    "of 1-D arrays) is ignored. Box-drawing characters are used ONLY to find rows; widths, bars and alignment are not checked.",
    "0-d arrays have no rows: the whitespace-separated tokens of the string that are decimal literals (or True/False) are the fields",
    "LaTeX mode: a row is a line ending in the LaTeX row terminator \\\\; its cells are the pieces between '&'",
    "a field p shows element x at nd decimals iff |p-x| <= 0.5*10^-nd + 8*2^-53*max(1,|x|) (p is a correct rounding "
    "under any tie rule), or |p-round_half_even(x,nd)| <= the same bound (the literal reading of the quantifier), or, "
    "for float16/float32 elements, p converts back to exactly x in that dtype; all in exact rational arithmetic. "
    "Fields with MORE than nd decimals therefore pass (0-d arrays are rendered by str()); fewer decimals do not.",
    "only the flattened field sequence is compared with the row-major element sequence (count == size); how fields are grouped into rows is not checked",
    "nd omitted means the documented default 3; title omitted means the default 'MATRIX'",
    "tm / Wrench objects are rebuilt from six-vectors with tm(list) and Wrench(6x1 array) (finite entries)",
]

_lib = {}


def lib():
    if not _lib:
        from basic_robotics.general import tm, Wrench
        from basic_robotics.utilities.disp import disp
        _lib.update(tm=tm, Wrench=Wrench, disp=disp)
    return _lib


def fresh_display_module():
    """Re-import the display module: whatever module-level state it may keep (format caches, counters) is as in a new
    process.  Used where a clause is about what the FIRST call of a process shows."""
    import importlib
    import basic_robotics.utilities.disp as dmod
    lib()
    _lib["disp"] = importlib.reload(dmod).disp


def warm():
    L = lib()
    with contextlib.redirect_stdout(io.StringIO()):
        L["disp"]([L["tm"]([1, 2, 3, 0.1, 0.2, 0.3])], "warm")
        L["disp"](L["Wrench"](np.arange(6.0).reshape(6, 1)), "warm")
        L["disp"](np.eye(2), "warm", mode=1)


# --------------------------------------------------------------------------------------------------
# case -> object
# --------------------------------------------------------------------------------------------------

def _c(a):
    """C-ordered copy that keeps 0-d arrays 0-d (np.ascontiguousarray would make them 1-d)."""
    return np.array(a, order="C", copy=True)


def apply_layout(a, layout):
    """Same values, different memory layout (the case stores the values C-ordered)."""
    a = _c(a)
    if layout == "C" or a.ndim == 0:
        return a
    if layout == "F":
        return np.asfortranarray(a)
    if layout == "strided":
        big = np.full(tuple(2 * s + 1 for s in a.shape), 77, dtype=a.dtype)
        view = big[tuple(slice(1, None, 2) for _ in a.shape)]
        view[...] = a
        if view.shape != a.shape:
            raise HarnessError("strided view shape")
        return view
    raise HarnessError("layout %r" % (layout,))


def build(d):
    """Rebuild the object to display from its serialisable description."""
    if isinstance(d, np.ndarray):
        return _c(d)
    if isinstance(d, list):
        return [build(x) for x in d]
    if isinstance(d, tuple):
        return tuple(build(x) for x in d)
    if isinstance(d, dict):
        k = d["k"]
        if k == "tm":
            return lib()["tm"]([float(v) for v in d["six"]])
        if k == "wrench":
            return lib()["Wrench"](np.array([float(v) for v in d["six"]], dtype=float).reshape(6, 1))
        if k == "np":
            return np.dtype(d["dtype"]).type(d["v"])
        if k == "arr":
            return apply_layout(d["a"], d["layout"])
        raise HarnessError("unknown description %r" % (k,))
    return d


def call(case):
    """Run disp as the case says; returns (object, returned value, captured stdout)."""
    obj = build(case["obj"])
    args = []
    kw = {}
    if case["title"] is not None:
        args.append(case["title"])
    if case["nd"] is not None:
        kw["nd"] = case["nd"]
    if case["mode"] != 0:
        kw["mode"] = case["mode"]
    if case["pdims"] is not None:
        kw["pdims"] = case["pdims"]
    if case["noprint"]:
        kw["noprint"] = True
    buf = io.StringIO()
    # numpy RuntimeWarnings (abs(int64 min), float16 overflow ...) are not exceptions; keep the shard logs clean
    with warnings.catch_warnings(), contextlib.redirect_stdout(buf):
        warnings.simplefilter("ignore")
        ret = sut(lib()["disp"], obj, *args, **kw)
    return obj, ret, buf.getvalue()


# --------------------------------------------------------------------------------------------------
# classification
# --------------------------------------------------------------------------------------------------

def _arr_of(d):
    if isinstance(d, np.ndarray):
        return d
    if isinstance(d, dict) and d.get("k") == "arr":
        return d["a"]
    return None


def kind_of(d):
    a = _arr_of(d)
    if a is not None:
        return "array"
    if isinstance(d, list):
        if d and all(isinstance(x, dict) and x.get("k") == "tm" for x in d):
            return "list of tm"
        if d and all(isinstance(x, dict) and x.get("k") == "wrench" for x in d):
            return "list of Wrench"
        return "list" if d else "empty list"
    if isinstance(d, tuple):
        return "tuple"
    if isinstance(d, dict):
        return {"tm": "tm", "wrench": "Wrench", "np": "numpy scalar"}[d["k"]]
    if d is None:
        return "None"
    return type(d).__name__


def has_nonfinite(d):
    a = _arr_of(d)
    if a is not None:
        return a.dtype.kind == "f" and a.size > 0 and not bool(np.all(np.isfinite(a)))
    if isinstance(d, (list, tuple)):
        return any(has_nonfinite(x) for x in d)
    if isinstance(d, dict) and d.get("k") == "np":
        d = d["v"]
    if isinstance(d, float):
        return d != d or d in (float("inf"), float("-inf"))
    return False


def classify(case, ctx):
    d = case["obj"]
    k = kind_of(d)
    ctx.label("obj " + k)
    a = _arr_of(d)
    nt = False
    if a is not None:
        ctx.label("ndim %d" % a.ndim)
        ctx.label("dtype " + str(a.dtype))
        if a.size == 0:
            ctx.label("array empty")
            nt = True
        if a.ndim >= 2 and a.size >= 2:
            nt = True
        if isinstance(d, dict):
            ctx.label("layout " + d["layout"])
    elif k in ("list", "tuple", "tm", "Wrench", "list of tm", "list of Wrench", "empty list"):
        nt = True
    if has_nonfinite(d):
        ctx.label("non-finite entry")
        nt = True
    t = case["title"]
    ctx.label("title omitted" if t is None else "title MATRIX" if t == "MATRIX" else
              "title even" if len(t) % 2 == 0 else "title odd")
    ctx.label("nd omitted" if case["nd"] is None else "nd %d" % case["nd"])
    ctx.label("mode %d" % case["mode"])
    if case["noprint"]:
        ctx.label("noprint")
    if case["pdims"] is False:
        ctx.label("pdims off")
    ctx.nontrivial(nt)


# --------------------------------------------------------------------------------------------------
# parsers and the rounding oracle
# --------------------------------------------------------------------------------------------------

_DEC = re.compile(r"^[-+]?(?:\d+\.?\d*|\.\d+)(?:[eE][-+]?\d+)?$")
_SPECIAL = {"inf", "+inf", "-inf", "nan", "+nan", "-nan", "True", "False"}
_OPEN = "╔║╚"    # left top corner, vertical bar, left bottom corner
_CLOSE = "╗║╝"   # right top corner, vertical bar, right bottom corner


def _is_field(tok):
    return bool(_DEC.match(tok)) or tok in _SPECIAL


def table_fields(s):
    """Numeric fields of the rendered rows of a table-mode string, in order of appearance."""
    out = []
    rows = 0
    for line in s.split("\n"):
        if len(line) < 2 or line[-1] not in _CLOSE:
            continue
        starts = [line.find(c) for c in _OPEN if c in line[:-1]]
        if not starts:
            continue
        inner = line[min(starts) + 1:-1]
        if inner.strip() == "":
            rows += 1           # a row of an array with a zero extent
            continue
        toks = [t.strip() for t in inner.split(",")]
        if all(_is_field(t) for t in toks):
            rows += 1
            out.extend(toks)
    return out, rows


def scalar_fields(s):
    """Fields of a 0-d rendering: whitespace separated tokens that are numbers."""
    return [t for t in s.split() if _is_field(t)]


def latex_fields(s):
    out = []
    rows = 0
    for line in s.split("\n"):
        if not line.endswith("\\\\"):
            continue
        rows += 1
        body = line[:-2]
        if body.strip() == "":
            continue
        out.extend(c.strip() for c in body.split("&"))
    return out, rows


_EPS8 = Fraction(8, 2 ** 53)


def shows(tok, x, nd):
    """Does the field `tok` show array element x (numpy scalar) at nd decimals?  See ASSUMPTIONS."""
    kind = x.dtype.kind
    if tok in ("True", "False"):
        return kind == "b" and (tok == "True") == bool(x)
    if not _DEC.match(tok):
        return False
    p = Fraction(tok)
    X = Fraction(int(x)) if kind in "biu" else Fraction(float(x))
    tol = Fraction(1, 2 * 10 ** nd) + _EPS8 * max(1, abs(X))
    if abs(p - X) <= tol:
        return True
    r = Fraction(round(X * 10 ** nd), 10 ** nd)     # exact round-half-even to nd decimals
    if abs(p - r) <= tol:
        return True
    if kind == "f" and x.dtype.itemsize < 8:
        try:
            return bool(x.dtype.type(tok) == x)
        except (ValueError, OverflowError):
            return False
    return False


def compare_fields(fields, a, nd, what):
    flat = _c(a).ravel(order="C")
    if len(fields) != flat.size:
        raise Violation("%s: %d numeric fields rendered for an array of %d elements (shape %s)"
                        % (what, len(fields), flat.size, a.shape))
    for i, (tok, x) in enumerate(zip(fields, flat)):
        if not shows(tok, x, nd):
            raise Violation("%s: field %d (row-major) is %r but the element is %r (nd=%d, shape %s, dtype %s)"
                            % (what, i, tok, x.item(), nd, a.shape, a.dtype))


def in_range(a):
    """All entries finite and of magnitude below 9999 (the domain of the element clauses)."""
    if a.dtype.kind == "f":
        return bool(np.all(np.isfinite(a))) and bool(np.all(np.abs(a.astype(np.float64)) < 9999))
    if a.dtype.kind in "iu":
        return bool(np.all(np.abs(a.astype(np.int64)) < 9999))
    return a.dtype.kind == "b"


def require_in_range(a):
    if not in_range(a):
        raise HarnessError("generator produced an out-of-range array for an element clause")


# --------------------------------------------------------------------------------------------------
# clauses
# --------------------------------------------------------------------------------------------------

def c_total(case, ctx):
    """(1) returns a str, raises nothing -- any listed object, table mode; 2-D matrices, LaTeX mode."""
    classify(case, ctx)
    _, ret, _ = call(case)
    if not isinstance(ret, str):
        raise Violation("disp returned %s, not str" % type(ret).__name__)


def c_print(case, ctx):
    """(2) prints exactly the returned string, and nothing when noprint."""
    classify(case, ctx)
    _, ret, out = call(case)
    if not isinstance(ret, str):
        raise Violation("disp returned %s, not str" % type(ret).__name__)
    want = "" if case["noprint"] else ret + "\n"
    if out != want:
        raise Violation("stdout %r differs from %s %r" % (out[:200], "nothing (noprint)" if case["noprint"]
                                                           else "returned string + newline", want[:200]))


def c_table_elements(case, ctx):
    """(3) table mode, <= 4-D arrays, |x| < 9999: every element, row-major, rounded to nd decimals."""
    classify(case, ctx)
    a = _arr_of(case["obj"])
    require_in_range(a)
    if a.ndim > 4 or case["mode"] != 0:
        raise HarnessError("generator: clause (3) is about <=4-D arrays in table mode")
    nd = 3 if case["nd"] is None else case["nd"]
    if case.get("prelude_large"):
        # display history: something with very large entries was shown with the same number of decimals first.
        # What a call shows is a function of its own arguments, not of what was displayed before.
        ctx.label("a large-magnitude array was displayed first")
        fresh_display_module()          # ... first in the life of the module (a new process)
        kw = {} if case["nd"] is None else {"nd": case["nd"]}
        sut(lib()["disp"], np.array([2.5e8, 0.125, -7.0e6]), "PRELUDE", noprint=True, **kw)
    _, ret, _ = call(case)
    if not isinstance(ret, str):
        raise Violation("disp returned %s, not str" % type(ret).__name__)
    if a.ndim == 0:
        fields = scalar_fields(ret)
    else:
        fields, rows = table_fields(ret)
        ctx.note("rows", rows)
    compare_fields(fields, a, nd, "table mode")


def c_latex_elements(case, ctx):
    """(4) LaTeX mode, 2-D matrices, |x| < 9999: every element, row-major, rounded to nd decimals."""
    classify(case, ctx)
    a = _arr_of(case["obj"])
    require_in_range(a)
    if a.ndim != 2 or case["mode"] == 0:
        raise HarnessError("generator: clause (4) is about 2-D matrices in LaTeX mode")
    nd = 3 if case["nd"] is None else case["nd"]
    _, ret, _ = call(case)
    if not isinstance(ret, str):
        raise Violation("disp returned %s, not str" % type(ret).__name__)
    fields, rows = latex_fields(ret)
    ctx.note("rows", rows)
    compare_fields(fields, a, nd, "LaTeX mode")


def c_everything(case, ctx):
    """All four statements on one request, each where it applies (the predicate the coverage-guided campaign
    runs, and the one its saved inputs are replayed through)."""
    if "obj" not in case:
        raise HarnessError("not a display request: %r" % (sorted(case),))
    c_print(case, ctx)          # includes (1): returns a str without raising
    a = _arr_of(case["obj"])
    if a is not None and in_range(a):
        if case["mode"] == 0 and a.ndim <= 4:
            c_table_elements(case, Ctx_null())
        elif case["mode"] != 0 and a.ndim == 2:
            c_latex_elements(case, Ctx_null())


class Ctx_null:
    """Label sink for the second predicate run on the same case."""

    def label(self, name):
        pass

    def nontrivial(self, flag=True):
        pass

    def note(self, key, value):
        pass


# --------------------------------------------------------------------------------------------------
# strategies
# --------------------------------------------------------------------------------------------------

LIM = 9999.0
BELOW = float(np.nextafter(LIM, 0.0))
FLOAT_DTYPES = ["float64", "float32", "float16"]
INT_DTYPES = ["int64", "int32", "int8", "uint8"]
DTYPES = ["float64"] * 4 + ["float32", "float16", "int64", "int64", "int32", "int8", "uint8", "bool", "bool"]


def _fin(lo, hi):
    return st.floats(min_value=lo, max_value=hi, allow_nan=False, allow_infinity=False)


@st.composite
def decimal_ties(draw, nd):
    """Decimal literals one digit longer than nd ending in 5 (the double next to a rounding tie)."""
    k = draw(st.integers(0, 8)) if nd is None else nd
    m = draw(st.integers(-10 ** min(k + 4, 9), 10 ** min(k + 4, 9)))
    x = float(Fraction(10 * m + 5, 10 ** (k + 1)))
    return x if abs(x) < LIM else 0.5


@st.composite
def binary_ties(draw):
    """Exactly representable ties / short binary fractions: (2m+1)/2^j."""
    j = draw(st.integers(1, 9))
    m = draw(st.integers(-2000, 2000))
    return (2 * m + 1) / 2.0 ** j


def inrange_floats(nd):
    return st.one_of(
        _fin(-BELOW, BELOW),
        _fin(-10.0, 10.0),
        decimal_ties(nd),
        binary_ties(),
        st.integers(-9998, 9998).map(float),
        st.sampled_from([0.0, -0.0, 1e-9, -1e-9, 5e-324, -5e-324, 1e-300, 4.9999999e-9, 5e-9, 0.5, -0.5, 1.5, 2.5,
                         BELOW, -BELOW, 9998.5, -9998.5, 9998.99999999, -9998.99999999, 9998.9999, 999.9995,
                         9.9996, 99.99951, 0.99999999, -0.99999999, 0.049999999, 1.0 / 3, -2.0 / 3, 1234.56789012]),
    )


def any_floats(nd):
    return st.one_of(
        inrange_floats(nd),
        st.floats(allow_nan=True, allow_infinity=True),
        st.sampled_from([float("inf"), float("-inf"), float("nan"), 1e300, -1e300]),
        st.sampled_from([float("inf"), float("-inf"), float("nan"), 1e300, -1e300, 1.7976931348623157e308,
                         -1.7976931348623157e308, 9999.0, -9999.0, float(np.nextafter(9999.0, 1e9)), 99999.5,
                         999999.4, 999999.5, -999999.5, 1e6, 9999999.5, 1e15, 1e16, -1e16, 1e22, 1e23, 65504.0,
                         3.4028234663852886e38]),
    )


def _int_bounds(dtype, inrange):
    ii = np.iinfo(dtype)
    if inrange:
        return max(int(ii.min), -9998), min(int(ii.max), 9998)
    return int(ii.min), int(ii.max)


def int_elements(dtype, inrange):
    lo, hi = _int_bounds(dtype, inrange)
    parts = [st.integers(lo, hi), st.integers(max(lo, -20), min(hi, 20)), st.sampled_from([lo, hi, 0, 1])]
    if not inrange:
        parts.append(st.sampled_from([v for v in (9998, 9999, -9999, 10000, 999999, 1000000, -1000000, 10 ** 15)
                                      if lo <= v <= hi] or [0]))
    return st.one_of(*parts)


def _clip_inrange(a):
    """Casting to a narrow float can round a value up to 9999: pull such entries back inside the domain."""
    if a.dtype.kind == "f":
        lim = a.dtype.type(LIM)
        below = np.nextafter(lim, a.dtype.type(0))
        a = np.where(np.isnan(a), a.dtype.type(0), a)
        a = np.where(a >= lim, below, a)
        a = np.where(a <= -lim, -below, a).astype(a.dtype)
    return a


@st.composite
def shapes(draw, min_dims, max_dims):
    n = draw(st.sampled_from(list(range(min_dims, max_dims + 1))))
    ext = st.sampled_from([0, 1, 1, 2, 2, 2, 3, 3, 3, 4, 4])
    return tuple(draw(ext) for _ in range(n))


@st.composite
def arrays(draw, min_dims, max_dims, inrange, nd=None, dtypes=None):
    """A numeric array: the values are in the case; big arrays are filled from a drawn palette by a drawn seed."""
    dtype = draw(st.sampled_from(dtypes or DTYPES))
    shape = draw(shapes(min_dims, max_dims))
    size = int(np.prod(shape, dtype=np.int64)) if shape else 1
    if dtype == "bool":
        elem = st.booleans()
    elif dtype in INT_DTYPES:
        elem = int_elements(dtype, inrange)
    else:
        elem = inrange_floats(nd) if inrange else any_floats(nd)
    fill = draw(st.sampled_from(["palette", "palette", "ramp"])) if size > 1 else "palette"
    with np.errstate(all="ignore"):
        if fill == "ramp" and dtype != "bool":
            # all elements distinct: start + k*step
            if dtype in INT_DTYPES:
                lo, hi = _int_bounds(dtype, True)
                start = draw(st.integers(lo, hi))
                step = draw(st.sampled_from([1, 1, 2, 3, 7]))
                vals = lo + (start - lo + step * np.arange(size, dtype=np.int64)) % (hi - lo + 1)
                a = vals.astype(dtype)
            else:
                start = draw(_fin(-5000.0, 5000.0))
                step = draw(st.sampled_from([1.0, 0.5, 0.001, 1.0 / 7, 1e-5, 3.0, -1.0, -0.015625, 10.0, 1e-8]))
                a = (start + step * np.arange(size, dtype=np.float64)).astype(dtype)
        else:
            if size <= 12:
                vals = draw(st.lists(elem, min_size=size, max_size=size))
            else:
                pal = draw(st.lists(elem, min_size=2, max_size=10))
                seed = draw(st.integers(0, 2 ** 31 - 1))
                rs = np.random.RandomState(seed)
                idx = np.concatenate([np.arange(len(pal)), rs.randint(0, len(pal), size - len(pal))])
                rs.shuffle(idx)
                vals = [pal[i] for i in idx]
            a = np.array(vals, dtype=dtype) if size else np.zeros(0, dtype=dtype)
        a = a.reshape(shape)
        if inrange:
            a = _clip_inrange(a)
    layout = draw(st.sampled_from(["C", "C", "F", "strided"])) if a.ndim >= 1 else "C"
    if layout == "C" and draw(st.booleans()):
        return _c(a)
    return {"k": "arr", "a": _c(a), "layout": layout}


_LETTERS = st.text(alphabet=string.ascii_letters, min_size=0, max_size=14)


def titles():
    return st.one_of(st.sampled_from([None, "MATRIX"]), _LETTERS, _LETTERS, _LETTERS,
                     st.sampled_from(["T", "AB", "pose", "Lengths", "", "x" * 31, "y" * 40, "inf", "nan", "e",
                                      "BEGIN", "END", "DIM", "MATRI", "MATRIXX"]))


def nds():
    # sampled_from puts extra mass on both ends of the list: 0 and 8 are the interesting ends
    return st.sampled_from([0, None, 1, 2, 3, 4, 5, 6, 7, 8])


def six_vectors():
    comp = st.one_of(_fin(-10.0, 10.0), _fin(-10.0, 10.0), inrange_floats(None),
                     st.floats(allow_nan=False, allow_infinity=False),
                     st.sampled_from([0.0, -0.0, 9999.0, -9999.0, 999999.5, 1e6, -1e7, 1e12, 1e16, -1e22, 1e300,
                                      -1.7976931348623157e308, 5e-324]))
    return st.lists(comp, min_size=6, max_size=6)


def tm_desc():
    """Translation: any finite float; rotation vector: moderate angles (a pose, not a stress test of tm())."""
    ang = st.lists(st.one_of(_fin(-7.0, 7.0), st.sampled_from([0.0, -0.0, 3.141592653589793, 1e-7])),
                   min_size=3, max_size=3)
    return st.fixed_dictionaries({"k": st.just("tm"),
                                  "six": st.tuples(six_vectors(), ang).map(lambda t: t[0][:3] + t[1])})


def wrench_desc():
    return st.fixed_dictionaries({"k": st.just("wrench"), "six": six_vectors()})


@st.composite
def np_scalars(draw):
    dtype = draw(st.sampled_from(["float64", "float64", "float32", "float16", "int64", "int32", "uint8", "bool"]))
    if dtype == "bool":
        v = draw(st.booleans())
    elif dtype in INT_DTYPES:
        v = draw(int_elements(dtype, False))
    else:
        v = draw(any_floats(None))
        with np.errstate(all="ignore"):
            v = float(np.dtype(dtype).type(v))
    return {"k": "np", "dtype": dtype, "v": v}


def py_scalars():
    return st.one_of(
        st.integers(-10 ** 6, 10 ** 6), st.sampled_from([0, 1, -1, 9999, 2 ** 63, -2 ** 64, 10 ** 30]),
        any_floats(None), st.booleans())


def strings():
    return st.one_of(st.text(max_size=20),
                     st.sampled_from(["", "MATRIX", "a\nb", "a\nb\n", "\n", "╔ 1.000 ╗", "100%", "{}", "%s %d",
                                      "FK Resulted In Inverted Plate Alignment. Repairing...", "\\\\", " "]))


def leaves():
    return st.one_of(py_scalars(), np_scalars(), strings(), st.none(), tm_desc(), wrench_desc(),
                     arrays(0, 3, False))


def containers(children):
    return st.one_of(st.lists(children, max_size=4), st.lists(children, max_size=4).map(tuple))


_CATEGORIES = (["array"] * 8 + ["scalar"] * 2 + ["npscalar", "str", "none", "tm", "wrench", "tmlist", "tmlist",
                                               "wrenchlist", "nested", "nested", "nested"])


@st.composite
def objects(draw):
    """Everything the statement lists (the category is drawn first so that the mix is controlled)."""
    cat = draw(st.sampled_from(_CATEGORIES))
    if cat == "array":
        return draw(arrays(0, 5, draw(st.sampled_from([False, False, False, True]))))
    if cat == "scalar":
        return draw(py_scalars())
    if cat == "npscalar":
        return draw(np_scalars())
    if cat == "str":
        return draw(strings())
    if cat == "none":
        return None
    if cat == "tm":
        return draw(tm_desc())
    if cat == "wrench":
        return draw(wrench_desc())
    if cat == "tmlist":
        return draw(st.lists(tm_desc(), min_size=0, max_size=4))
    if cat == "wrenchlist":
        return draw(st.lists(wrench_desc(), min_size=1, max_size=4))
    return draw(containers(st.recursive(leaves(), containers, max_leaves=8)))


@st.composite
def requests(draw, obj, mode):
    # built by hand: under Hypothesis 6.168 fuzz_one_input rejects every input for st.fixed_dictionaries with more
    # than three keys, which would starve the coverage-guided campaign (props/fuzz_c20_atheris.py)
    return {"obj": draw(obj), "title": draw(titles()), "nd": draw(nds()), "mode": draw(mode),
            "pdims": draw(st.sampled_from([None, None, True, False])), "noprint": draw(st.booleans())}


@st.composite
def faithful_requests(draw, mode):
    nd = draw(nds())
    if mode == 0:
        obj = draw(arrays(0, 4, True, nd=3 if nd is None else nd))
    else:
        obj = draw(arrays(2, 2, True, nd=3 if nd is None else nd))
    return {"obj": obj, "title": draw(titles()), "nd": nd, "mode": mode,
            "pdims": draw(st.sampled_from([None, None, True, False])), "noprint": draw(st.booleans()),
            "prelude_large": draw(st.booleans())}


@st.composite
def total_requests(draw):
    """Table mode for every listed object (3 of 4 cases), LaTeX mode for 2-D matrices (1 of 4)."""
    if draw(st.sampled_from([0, 0, 0, 1])) == 0:
        return draw(requests(objects(), st.just(0)))
    return draw(requests(arrays(2, 2, False), st.sampled_from([1, 1, True])))


def total_strategy():
    return total_requests()


CLAUSES = [
    Clause("returns_str_never_raises", c_total, total_strategy(), 4000, 100000,
           doc="(1) totality: every listed object in table mode, 2-D matrices in LaTeX mode"),
    Clause("prints_exactly_the_returned_string", c_print, total_strategy(), 2500, 60000,
           doc="(2) captured stdout == returned string + newline, or nothing with noprint"),
    Clause("table_shows_every_element_rounded", c_table_elements, faithful_requests(0), 5000, 120000,
           doc="(3) table mode, arrays of 0..4 axes, |x|<9999"),
    Clause("latex_shows_every_element_rounded", c_latex_elements, faithful_requests(1), 3500, 80000,
           doc="(4) LaTeX mode, 2-D matrices, |x|<9999"),
    ]


# --------------------------------------------------------------------------------------------------
# optional extra: coverage-guided campaign (atheris), see props/fuzz_c20_atheris.py
# --------------------------------------------------------------------------------------------------

FUZZ_BUDGET = {"quick": (1500, 30), "thorough": (60000, 170)}    # (libFuzzer -runs, -max_total_time seconds)


def fuzz_run_range(lo, hi, tier, stats):
    """One campaign (index 0 of an enumeration of size 1).  The campaign runs in a child process; every request
    it saved as failing is replayed HERE through the plain predicate and only then reported."""
    if hi <= lo:
        return
    import json
    import os
    import shutil
    import subprocess
    import sys
    from vf import ser
    from vf.core import Ctx
    verif = os.path.dirname(os.path.dirname(os.path.abspath(__file__)))
    runs, seconds = FUZZ_BUDGET[tier]
    try:
        seed = int(os.environ.get("VERIF_SEED", "0") or 0)
    except ValueError:
        seed = 0
    out = os.path.join(verif, ".cache", "fuzz", "C20-%d" % os.getpid())
    shutil.rmtree(out, ignore_errors=True)
    os.makedirs(out)
    try:
        cmd = [sys.executable, os.path.join(verif, "props", "fuzz_c20_atheris.py"), "--out", out,
               "--runs", str(runs), "--seconds", str(seconds), "--seed", str(seed % (2 ** 31 - 2) + 1)]
        r = subprocess.run(cmd, cwd=verif, stdout=subprocess.PIPE, stderr=subprocess.STDOUT, text=True,
                           timeout=seconds + 300)
        summary = os.path.join(out, "summary.json")
        if r.returncode != 0 or not os.path.exists(summary):
            raise HarnessError("atheris campaign ended with status %s:\n%s" % (r.returncode, r.stdout[-3000:]))
        with open(summary) as f:
            state = json.load(f)
        stats.evals += state["valid"]
        stats.nontrivial_bulk += state["distinct_nontrivial"]
        stats.labels.update(state["labels"])
        stats.extra["fuzz_executions"] = state["execs"]
        stats.extra["fuzz_corpus_units"] = len(os.listdir(os.path.join(out, "corpus")))
        stats.extra["fuzz_violations_seen"] = state["violations"]
        stats.exhaustive = False
        crash_dir = os.path.join(out, "crashes")
        for name in sorted(os.listdir(crash_dir)):
            if not name.endswith(".json"):
                continue
            with open(os.path.join(crash_dir, name)) as f:
                rec = json.load(f)
            case = ser.from_jsonable(rec["case"])
            try:
                c_everything(case, Ctx(replay=True))
            except Violation as v:
                if stats.failure is None:
                    stats.failure = (rec["case"], "found by the atheris campaign, replayed without it: " + str(v))
                continue
            raise HarnessError("input saved by the campaign (%s) holds when replayed through the plain predicate"
                               % rec["message"][:200])
        if state["valid"] == 0:
            raise HarnessError("atheris campaign judged no request at all")
    finally:
        shutil.rmtree(out, ignore_errors=True)


def _atheris_available():
    import importlib.util
    try:
        return importlib.util.find_spec("atheris") is not None
    except (ImportError, ValueError):
        return False


if _atheris_available():
    # registered only where ./setup.sh could install the wheel; the four Hypothesis clauses never depend on it
    CLAUSES.append(Clause("atheris_coverage_guided", c_everything, kind="enum", size=lambda tier: 1,
                          run_range=fuzz_run_range, max_shards=1,
                          doc="libFuzzer mutations -> Hypothesis fuzz_one_input -> the same requests and predicates; "
                              "coverage feedback from basic_robotics.utilities.disp only"))
