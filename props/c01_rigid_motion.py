"""C01 -- exp/log are inverse, inverse/adjoint are homomorphic (modern_robotics_numba)."""
import math

import numpy as np
from hypothesis import strategies as st

from vf import gen as G
from vf import oracle as O
from vf.core import Clause, Violation, sut

PROPERTY_ID = "C01"
RULE = ("Hypothesis-generated rotation vectors / twists / SE(3) elements with deliberate mass at |w|->0 "
        "(both sides of the 1e-6 cut-off), |w|->pi (pi-10^-k, exact half turns built as 2nn^T-I), axis-aligned, "
        "planar and generic axes, |v|,|p| log-uniform to 1e3. Non-trivial: rotation angle >= 1e-6 (the identity "
        "shortcut is not taken) or the case lies in a labelled boundary class; distinct by digest of the inputs.")
ASSUMPTIONS = [
    "oracle: long-double Rodrigues with Taylor series near 0, scipy Rotation.as_rotvec for logs, scipy expm cross-check",
    "in the open band 1e-9<|w|<2e-6 comparisons are made at 5e-6*max(1,scale) (the library's documented NearZero cut-off)",
    "log/exp round trips within 2e-5 of a half turn are the open known finding C01-near-pi-log (executed, counted, not failed)",
]

_mr = None


def mr():
    global _mr
    if _mr is None:
        from basic_robotics.modern_robotics_numba import modern_high_performance as m
        _mr = m
    return _mr


def warm():
    m = mr()
    T = np.eye(4)
    V = np.array([0.1, 0.2, 0.3, 1, 2, 3.0])
    m.MatrixExp3(m.VecToso3(V[:3]))
    m.MatrixLog6(m.MatrixExp6(m.VecTose3(V)))
    m.MatrixLog3(np.eye(3))
    m.Adjoint(T)
    m.TransInv(T)
    m.ad(V)
    m.se3ToVec(m.VecTose3(V))
    m.so3ToVec(m.VecToso3(V[:3]))


BAND_LO, BAND_HI = 1e-9, 2e-6
TIGHT = 1e-9
LOOSE = 5e-6


def in_band(*angles):
    return any(BAND_LO < a < BAND_HI for a in angles)


def tol(scale, *angles):
    return (LOOSE if in_band(*angles) else TIGHT) * max(1.0, scale)


def angle_class(th):
    if th == 0:
        return "ang=0"
    if th < 1e-6:
        return "ang<1e-6"
    if th < 2e-6:
        return "ang~1e-6+"
    if abs(th - math.pi) < 2e-5:
        return "ang~pi"
    if th < math.pi:
        return "ang generic<pi"
    return "ang>pi"


def axis_class(w):
    nz = int(np.count_nonzero(np.abs(w) > 1e-300))
    return {0: "axis none", 1: "axis aligned", 2: "axis planar", 3: "axis generic"}[nz]


def check_rigid(T, what, tolR=1e-9):
    T = np.asarray(T)
    if T.shape != (4, 4):
        raise Violation("%s: shape %s" % (what, T.shape))
    if not np.all(np.isfinite(T)):
        raise Violation("%s: non-finite entries" % what)
    R = T[:3, :3]
    e = np.abs(R.T @ R - np.eye(3)).max()
    if e > tolR:
        raise Violation("%s: rotation not orthonormal (|R^T R - I|=%.3g)" % (what, e))
    d = np.linalg.det(R)
    if abs(d - 1) > tolR:
        raise Violation("%s: det %.12g" % (what, d))
    if not np.array_equal(T[3], [0, 0, 0, 1]):
        raise Violation("%s: last row %s" % (what, T[3]))


def close(a, b, t, what):
    a = np.asarray(a, dtype=float)
    b = np.asarray(b, dtype=float)
    if a.shape != b.shape:
        raise Violation("%s: shape %s vs %s" % (what, a.shape, b.shape))
    if not np.all(np.isfinite(a)):
        raise Violation("%s: non-finite result" % what)
    d = np.abs(a - b).max() if a.size else 0.0
    if d > t:
        raise Violation("%s: max |diff| %.3g > tol %.3g" % (what, d, t))


# --------------------------------------------------------------------------------- clauses

def c_exp3(case, ctx):
    w = case["w"]
    th = float(np.linalg.norm(w))
    ctx.label(angle_class(th))
    ctx.label(axis_class(w))
    ctx.nontrivial(th >= 1e-6)
    R = sut(mr().MatrixExp3, sut(mr().VecToso3, w))
    T = np.eye(4)
    T[:3, :3] = R
    check_rigid(T, "MatrixExp3")
    close(R, O.exp3(w), tol(1.0, th), "MatrixExp3 vs oracle")


def c_exp6(case, ctx):
    V = case["V"]
    th = float(np.linalg.norm(V[:3]))
    vs = float(np.linalg.norm(V[3:]))
    ctx.label(angle_class(th))
    ctx.label("|v| 1e%d" % (math.floor(math.log10(vs)) if vs > 0 else -99))
    ctx.nontrivial(th >= 1e-6)
    T = sut(mr().MatrixExp6, sut(mr().VecTose3, V))
    check_rigid(T, "MatrixExp6")
    Tor = O.exp6(V)
    close(T[:3, :3], Tor[:3, :3], tol(1.0, th), "MatrixExp6 rotation vs oracle")
    close(T[:3, 3], Tor[:3, 3], tol(vs, th), "MatrixExp6 translation vs oracle")


def _lib_acosinput(R):
    """(trace-1)/2 evaluated with the same operations, in the same order, as the library does on
    the SAME input matrix (so it is bit-identical): tells which logarithm branch the input selects."""
    tr = 0
    for i in range(3):
        tr = tr + float(R[i, i])
    return (tr - 1) / 2.0


def near_pi_region(case, message):
    """Open known finding C01-near-pi-log: the GENERIC branch of the logarithm (theta/(2 sin theta)
    formula) within 2e-5 of a half turn, and matrices that are not quite half turns (not symmetric) but whose trace rounds
    to -1.  EXACT half turns (symmetric matrices selecting the exact-half-turn branch, (trace-1)/2 <= -1 evaluated as
    the library does) are NOT in the region: that branch must be right for them."""
    for key in ("w", "V"):
        if key in case:
            th = float(np.linalg.norm(np.asarray(case[key])[:3]))
            if abs(th - math.pi) < 2e-5 and th < math.pi:
                return "near_pi_log"
    if "T" in case:
        R = np.asarray(case["T"])[:3, :3]
        th = O.angle(R)
        if math.pi - th < 2e-5 and (_lib_acosinput(R) > -1 or not np.array_equal(R, R.T)):
            # (second disjunct: a rotation by pi - 1e-8 or so whose trace ROUNDS to -1 is sent through the exact-half-turn
            # branch, which reads the axis off one column and ignores the skew part: off by (pi - angle) / (2 n_pivot),
            # 5.1e-6 for an axis component of 2e-3.  Exact half turns - symmetric matrices - stay enforced.)
            return "near_pi_log"
    return None


def c_log_exp3(case, ctx):
    w = case["w"]
    th = float(np.linalg.norm(w))
    if th >= math.pi:
        ctx.skip("angle >= pi (log round trip quantified on [0, pi))")
    ctx.label(angle_class(th))
    ctx.label(axis_class(w))
    ctx.nontrivial(th >= 1e-6)
    m = mr()
    w2 = sut(m.so3ToVec, sut(m.MatrixLog3, sut(m.MatrixExp3, sut(m.VecToso3, w))))
    close(w2, w, LOOSE, "so3ToVec(MatrixLog3(MatrixExp3(w))) vs w")


def c_log_exp6(case, ctx):
    V = case["V"]
    th = float(np.linalg.norm(V[:3]))
    vs = float(np.linalg.norm(V[3:]))
    if th >= math.pi:
        ctx.skip("angle >= pi (log round trip quantified on [0, pi))")
    ctx.label(angle_class(th))
    ctx.nontrivial(th >= 1e-6)
    m = mr()
    V2 = sut(m.se3ToVec, sut(m.MatrixLog6, sut(m.MatrixExp6, sut(m.VecTose3, V))))
    close(V2[:3], V[:3], LOOSE, "log6(exp6(V)) angular part")
    close(V2[3:], V[3:], LOOSE * max(1.0, vs), "log6(exp6(V)) linear part")


def _axis_aligned():
    import itertools
    out = []
    for perm in itertools.permutations(range(3)):
        for signs in itertools.product((1, -1), repeat=3):
            Rw = np.zeros((3, 3), dtype=np.int64)
            for i in range(3):
                Rw[i, perm[i]] = signs[i]
            if round(float(np.linalg.det(Rw))) == 1:
                out.append(Rw)
    return out


_AXIS_ALIGNED = _axis_aligned()


def c_exp_log6(case, ctx):
    T = case["T"]
    if case.get("whole") is not None:
        # a rotation typed in whole numbers: one of the 24 axis-aligned rotations (entries -1, 0, 1) handed to the 3x3
        # logarithm as an INTEGER-typed array - the library's own docstring example for MatrixLog3 is one.  (The 4x4
        # logarithm does not accept integer arrays at all; not asked.)
        Rw = _AXIS_ALIGNED[int(case["whole"][0]) % len(_AXIS_ALIGNED)]
        ctx.label("integer-typed axis-aligned rotation (3x3 pair only)")
        ctx.nontrivial(bool(np.any(Rw != np.eye(3))))
        m = mr()
        L3 = np.asarray(sut(m.MatrixLog3, np.ascontiguousarray(Rw)), dtype=float)
        if L3.shape != (3, 3) or not np.all(np.isfinite(L3)) or np.abs(L3 + L3.T).max() > 1e-9:
            raise Violation("MatrixLog3 of an integer-typed rotation is not in so(3): %s" % np.array2string(L3))
        close(sut(m.MatrixExp3, np.ascontiguousarray(L3)), Rw.astype(float), LOOSE, "exp3(log3(R)) for an integer-typed R")
        close(L3, O.hat3(O.log3(Rw.astype(float))) if abs(np.trace(Rw) + 1) > 0.5 else L3, LOOSE,
              "log3(R) for an integer-typed R vs oracle")
        return
    th = O.angle(T[:3, :3])
    ps = float(np.linalg.norm(T[:3, 3]))
    ctx.label(angle_class(th))
    ctx.label("|p| 1e%d" % (math.floor(math.log10(ps)) if ps > 0 else -99))
    ctx.nontrivial(th >= 1e-6)
    m = mr()
    L = sut(m.MatrixLog6, T)
    if L.shape != (4, 4) or not np.all(np.isfinite(L)):
        raise Violation("MatrixLog6: shape/non-finite")
    if np.abs(L[:3, :3] + L[:3, :3].T).max() > 1e-9 or np.any(L[3] != 0):
        raise Violation("MatrixLog6 result is not in se(3)")
    T2 = sut(m.MatrixExp6, L)
    check_rigid(T2, "exp(log(T))", 1e-8)
    close(T2[:3, :3], T[:3, :3], LOOSE, "exp(log(T)) rotation")
    close(T2[:3, 3], T[:3, 3], LOOSE * max(1.0, ps), "exp(log(T)) translation")
    # and the 3x3 pair
    R2 = sut(m.MatrixExp3, sut(m.MatrixLog3, np.ascontiguousarray(T[:3, :3])))
    close(R2, T[:3, :3], LOOSE, "exp3(log3(R))")


def c_hat_vee(case, ctx):
    V = case["V"]
    m = mr()
    ctx.nontrivial(np.count_nonzero(V) >= 2)
    s3 = sut(m.VecToso3, V[:3])
    if not np.array_equal(s3, O.hat3(V[:3])):
        raise Violation("VecToso3 != hat")
    if not np.array_equal(sut(m.so3ToVec, s3), V[:3]):
        raise Violation("so3ToVec(VecToso3(w)) != w")
    s6 = sut(m.VecTose3, V)
    if not np.array_equal(s6, O.hat6(V)):
        raise Violation("VecTose3 != hat6")
    if not np.array_equal(sut(m.se3ToVec, s6), V):
        raise Violation("se3ToVec(VecTose3(V)) != V")
    # vee then hat on a matrix
    if not np.array_equal(sut(m.VecTose3, sut(m.se3ToVec, s6)), s6):
        raise Violation("VecTose3(se3ToVec(M)) != M")
    if not np.array_equal(sut(m.VecToso3, sut(m.so3ToVec, s3)), s3):
        raise Violation("VecToso3(so3ToVec(M)) != M")


def _scale(*Ts):
    return max([1.0] + [float(np.linalg.norm(T[:3, 3])) for T in Ts])


def c_transinv(case, ctx):
    T = case["T"]
    m = mr()
    th = O.angle(T[:3, :3])
    ctx.label(angle_class(th))
    ctx.nontrivial(th >= 1e-6 and np.linalg.norm(T[:3, 3]) > 0)
    Ti = sut(m.TransInv, T)
    check_rigid(Ti, "TransInv")
    s = _scale(T)
    close(Ti @ T, np.eye(4), TIGHT * s, "TransInv(T) T vs I")
    close(T @ Ti, np.eye(4), TIGHT * s, "T TransInv(T) vs I")
    close(sut(m.RotInv, np.ascontiguousarray(T[:3, :3])) @ T[:3, :3], np.eye(3), TIGHT, "RotInv(R) R")


def c_adjoint_hom(case, ctx):
    T1, T2 = case["T1"], case["T2"]
    m = mr()
    ctx.nontrivial(O.angle(T1[:3, :3]) >= 1e-6 and O.angle(T2[:3, :3]) >= 1e-6)
    s = _scale(T1) * _scale(T2)
    A1 = sut(m.Adjoint, T1)
    A2 = sut(m.Adjoint, T2)
    A12 = sut(m.Adjoint, np.ascontiguousarray(T1 @ T2))
    close(A12, A1 @ A2, TIGHT * s, "Ad(T1 T2) vs Ad(T1) Ad(T2)")
    close(A1, O.Ad(T1), TIGHT * _scale(T1), "Adjoint vs oracle")
    Ai = sut(m.Adjoint, sut(m.TransInv, T1))
    close(Ai @ A1, np.eye(6), TIGHT * _scale(T1) ** 2, "Ad(inv T) Ad(T) vs I")
    close(Ai, O.Ad(O.inv(T1)), TIGHT * _scale(T1), "Ad(inv T) vs oracle")


def c_conjugation(case, ctx):
    T, V = case["T"], case["V"]
    m = mr()
    ctx.nontrivial(O.angle(T[:3, :3]) >= 1e-6 and np.linalg.norm(V[:3]) > 0 and np.linalg.norm(T[:3, 3]) > 0)
    s = _scale(T) * max(1.0, float(np.linalg.norm(V)))
    lhs = T @ sut(m.VecTose3, V) @ sut(m.TransInv, T)
    rhs = sut(m.VecTose3, sut(m.Adjoint, T) @ V)
    close(lhs, rhs, TIGHT * s * _scale(T), "T [V] inv(T) vs [Ad(T) V]")


def c_ad_bracket(case, ctx):
    V, W = case["V"], case["W"]
    m = mr()
    ctx.nontrivial(np.linalg.norm(V[:3]) > 0 and np.linalg.norm(W) > 0)
    a = sut(m.ad, V)
    close(a, O.ad(V), 0.0, "ad vs oracle")
    hv, hw = O.hat6(V), O.hat6(W)
    br = O.vee6(hv @ hw - hw @ hv)
    s = max(1.0, float(np.linalg.norm(V)) * float(np.linalg.norm(W)))
    close(a @ W, br, 1e-12 * s, "[ad_V] W vs matrix commutator")


def _tw(vmax):
    return G.twists(vmax=vmax)


CLAUSES = [
    Clause("exp3_proper_rotation", c_exp3, st.fixed_dictionaries({"w": G.rotvecs()}), 2000, 20000),
    Clause("exp6_proper_rigid", c_exp6, st.fixed_dictionaries({"V": G.twists()}), 2000, 20000),
    Clause("log3_of_exp3", c_log_exp3, st.fixed_dictionaries({"w": G.rotvecs(ang=G.angles_lt_pi())}), 2000, 20000,
           region=near_pi_region),
    Clause("log6_of_exp6", c_log_exp6, st.fixed_dictionaries({"V": G.twists(ang=G.angles_lt_pi())}), 2000, 20000,
           region=near_pi_region),
    Clause("exp_of_log", c_exp_log6, st.fixed_dictionaries({
        "T": G.se3s(), "whole": st.one_of(st.none(), st.none(), st.none(), st.none(), st.tuples(
            st.integers(0, 23), st.lists(st.integers(-5, 5), min_size=3, max_size=3)))}), 2000, 20000,
           region=near_pi_region),
    Clause("hat_vee_inverse", c_hat_vee, st.fixed_dictionaries({"V": G.vec6(1e3)}), 1000, 10000),
    Clause("transinv_group_inverse", c_transinv, st.fixed_dictionaries({"T": G.se3s()}), 2000, 20000),
    Clause("adjoint_homomorphism", c_adjoint_hom,
           st.fixed_dictionaries({"T1": G.se3s(), "T2": G.se3s()}), 2000, 20000),
    Clause("conjugation_is_adjoint", c_conjugation,
           st.fixed_dictionaries({"T": G.se3s(), "V": G.twists()}), 2000, 20000),
    Clause("ad_is_lie_bracket", c_ad_bracket,
           st.fixed_dictionaries({"V": G.twists(), "W": G.twists()}), 1000, 10000),
]
