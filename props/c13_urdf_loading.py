"""C13 -- loading a URDF preserves the kinematics the file describes.

A case is a *description* of a URDF (a strictly serial chain: root link, then joints each with its child
link), plus layout choices (element order, number format, distractors) and joint-value specs.  ``check``
renders the description to XML with ElementTree into a file under ``tempfile.mkdtemp()`` (removed again),
loads it through ``loadArmFromURDF`` and compares the arm with an evaluator of URDF semantics that is
written here from the format's specification and reads the *file text* (own ElementTree walk):

    T(q) = prod_i  origin_i . Rot(axis_i, q_i)        (fixed joints: origin_i only)
    origin = Trans(xyz) . Rz(yaw) . Ry(pitch) . Rx(roll)           (URDF fixed-axis roll-pitch-yaw)
    defaults: no <origin> -> identity, no xyz / rpy attribute -> zero, no <axis> -> (1, 0, 0)
    the axis is expressed in the joint (= child link) frame; the tool frame is the LAST link's frame.

Compared: num_dof, joint names in chain order, joint_mins / joint_maxs for every joint that writes
lower and upper, and FK(q) for q inside the declared limits.
"""
import math
import os
import random
import shutil
import tempfile
import xml.etree.ElementTree as ET

import numpy as np
from hypothesis import strategies as st

from vf import gen as G
from vf import oracle as O
from vf.core import Clause, HarnessError, Violation, sut

PROPERTY_ID = "C13"
RULE = ("URDF grammar (Hypothesis composite -> description -> ElementTree -> temp file): 1..8 revolute/continuous "
        "joints and 0..4 fixed joints in any position (before, between, after); joint origins with xyz (zero, axis "
        "aligned, generic, |xyz|<=10) and rpy (exact multiples of pi/4, decimal truncations of pi and pi/2 as people "
        "write them, generic in [-2pi,2pi], gimbal pitch, NearZero-band values), each of <origin>, xyz, rpy, <axis> "
        "independently omitted; axes aligned (+/-), planar, generic unit; limits symmetric / asymmetric / not "
        "containing zero / degenerate / wide, continuous joints with no <limit>, with effort+velocity only, or with "
        "bounds; with/without a 'world' root; inertials (complete) on no / all / some links, visual+collision "
        "distractors, <dynamics>, top-level <material>/<gazebo>/<transmission>; shuffled top-level and per-joint "
        "element order; number formats repr / %g / %.4f / %e / integers; name styles. Four joint vectors per file "
        "(one drawn: fractions of the range with mass on both ends, or absolute 0 / NearZero-band / pi values clipped into the range; all-lower; all-upper; mid-range), all inside the declared limits. Plus the five bundled files "
        "evaluated from their own XML. Non-trivial: >=2 moving joints with >=1 non-zero rpy and >=1 generic (non "
        "aligned) axis, or >=1 omitted optional; distinct by digest of the whole case.")
ASSUMPTIONS = [
    "oracle: own evaluator of URDF semantics reading the rendered file text (ElementTree is trusted as the XML "
    "parser, nothing of basic_robotics is used); rotations from vf.oracle (long-double Rodrigues, explicit Rx/Ry/Rz)",
    "URDF semantics per wiki.ros.org/urdf/XML/joint: <origin> is the transform from the parent link frame to the "
    "joint (= child link) frame, rpy are fixed-axis roll, pitch, yaw (R = Rz(y) Ry(p) Rx(r)); <axis> is expressed in "
    "the joint frame, default (1,0,0); tool frame = frame of the last link of the chain",
    "tolerance: rotation entries 1e-6, translation 1e-6*max(1,|p|); when k>0 angles that enter a library "
    "exponential/logarithm (an rpy component, a joint value, the accumulated rotation of a moving joint's frame) lie "
    "in the open NearZero band (1e-9, 2e-6) the tolerance is 5e-6*k*max(1, L), L = sum of |xyz| along the chain",
    "limits are compared (1e-12 relative, i.e. up to decimal parsing) only for joints that write BOTH lower and "
    "upper; for a continuous joint that writes neither, nothing is demanded of joint_mins/joint_maxs and joint "
    "values are drawn from [-pi, pi] (one full turn: every pose of the joint) -- the file states no bound, and the "
    "statement does not say what an arm that clamps must report for an unbounded joint",
    "names are unique over links and joints together; generated axes are unit to 1 ulp and written with repr",
    "link <inertial>/<visual>/<collision> origins never enter the expected kinematics",
]
SHARDS = {"quick": 4, "thorough": 16}

# A continuous joint spelled <limit effort=".." velocity=".."/> (no lower/upper: 'Omit if joint is continuous',
# wiki.ros.org/urdf/XML/joint) is the usual way such a joint is written.  The statement's list of optionals
# names origin/xyz/rpy/axis only, so this spelling is switchable in one place.
CONTINUOUS_LIMIT_WITHOUT_BOUNDS = True

TOL = 1e-6
LOOSE = 5e-6
BAND_LO, BAND_HI = 1e-9, 2e-6
NEAR_PI = 2e-5
PI = math.pi

_lib = None


def lib():
    global _lib
    if _lib is None:
        from basic_robotics.kinematics import loadArmFromURDF
        _lib = loadArmFromURDF
    return _lib


def repo_root():
    import basic_robotics
    return os.path.dirname(os.path.dirname(os.path.abspath(basic_robotics.__file__)))


BUNDLED = ["irb_2400.urdf", "ur5.urdf", "puma_560.urdf",
           os.path.join("ur_description", "ur10.urdf"), os.path.join("ur_description", "ur5.urdf")]


def bundled_path(i):
    p = os.path.join(repo_root(), "tests", "test_helpers", BUNDLED[i % len(BUNDLED)])
    if not os.path.isfile(p):
        raise HarnessError("bundled URDF missing: %s" % p)
    return p


def warm():
    arm = lib()(bundled_path(0))
    arm.FK(np.zeros(arm.num_dof))


# ------------------------------------------------------------------------------------------
# the evaluator of URDF semantics (reads the file text; never imports the library)
# ------------------------------------------------------------------------------------------

def _floats(text, what):
    parts = text.split()
    if len(parts) != 3:
        raise HarnessError("%s: expected three numbers, got %r" % (what, text))
    return [float(p) for p in parts]


def origin_matrix(el):
    """<origin xyz rpy>: Trans(xyz) Rz(yaw) Ry(pitch) Rx(roll); every piece optional."""
    xyz = [0.0, 0.0, 0.0]
    rpy = [0.0, 0.0, 0.0]
    if el is not None:
        if el.get("xyz") is not None:
            xyz = _floats(el.get("xyz"), "origin xyz")
        if el.get("rpy") is not None:
            rpy = _floats(el.get("rpy"), "origin rpy")
    R = O.rotz(rpy[2]) @ O.roty(rpy[1]) @ O.rotx(rpy[0])
    return O.rp(R, xyz), xyz, rpy


class FileModel:
    """The single chain a URDF file describes, as read by the harness."""

    def __init__(self, path):
        root = ET.parse(path).getroot()
        if root.tag != "robot":
            raise HarnessError("root element is %r" % root.tag)
        links = [e.get("name") for e in root if e.tag == "link"]
        joints = [e for e in root if e.tag == "joint"]
        if len(set(links)) != len(links):
            raise HarnessError("duplicate link names")
        by_parent = {}
        children = set()
        for j in joints:
            p = j.find("parent").get("link")
            c = j.find("child").get("link")
            if p in by_parent or c in children:
                raise HarnessError("not a strictly serial chain (link %s / %s)" % (p, c))
            if p not in links or c not in links:
                raise HarnessError("joint %s names an unknown link" % j.get("name"))
            by_parent[p] = j
            children.add(c)
        roots = [l for l in links if l not in children]
        if len(roots) != 1 or len(joints) != len(links) - 1:
            raise HarnessError("not a single tree: roots %s" % roots)
        self.root_link = roots[0]
        self.chain = []          # dicts in chain order
        cur = roots[0]
        while cur in by_parent:
            j = by_parent[cur]
            T0, xyz, rpy = origin_matrix(j.find("origin"))
            typ = j.get("type")
            if typ not in ("revolute", "continuous", "fixed"):
                raise HarnessError("joint type %r outside the property" % typ)
            ent = {"name": j.get("name"), "type": typ, "T0": T0, "xyz": xyz, "rpy": rpy,
                   "axis": None, "lower": None, "upper": None,
                   "omitted": [k for k, miss in (("origin", j.find("origin") is None),
                                                 ("xyz", j.find("origin") is not None and j.find("origin").get("xyz") is None),
                                                 ("rpy", j.find("origin") is not None and j.find("origin").get("rpy") is None),
                                                 ("axis", typ != "fixed" and j.find("axis") is None)) if miss]}
            if typ != "fixed":
                ax = j.find("axis")
                a = np.array([1.0, 0.0, 0.0] if ax is None else _floats(ax.get("xyz"), "axis"))
                if abs(float(np.linalg.norm(a)) - 1.0) > 1e-9:
                    raise HarnessError("axis of %s is not unit length (outside the property)" % ent["name"])
                ent["axis"] = a
                lim = j.find("limit")
                if lim is not None and lim.get("lower") is not None and lim.get("upper") is not None:
                    ent["lower"] = float(lim.get("lower"))
                    ent["upper"] = float(lim.get("upper"))
                    if ent["lower"] > ent["upper"]:
                        raise HarnessError("limits of %s are inverted" % ent["name"])
                elif typ == "revolute":
                    raise HarnessError("revolute joint %s without bounds (outside the property)" % ent["name"])
            self.chain.append(ent)
            cur = j.find("child").get("link")
        if len(self.chain) != len(joints):
            raise HarnessError("chain does not use every joint")
        self.moving = [e for e in self.chain if e["type"] != "fixed"]
        self.reach = float(sum(np.linalg.norm(e["xyz"]) for e in self.chain))

    def q_range(self, e):
        """Interval joint values are drawn from: the written bounds, or one full turn."""
        if e["lower"] is not None:
            return e["lower"], e["upper"]
        return -PI, PI

    def fk(self, q):
        T = np.eye(4)
        k = 0
        for e in self.chain:
            T = T @ e["T0"]
            if e["type"] != "fixed":
                T = T @ O.rp(O.exp3(e["axis"] * q[k]), np.zeros(3))
                k += 1
        return T

    def moving_frame_angles(self):
        """Rotation angle of the accumulated home frame of every moving joint."""
        out = []
        T = np.eye(4)
        for e in self.chain:
            T = T @ e["T0"]
            if e["type"] != "fixed":
                out.append(O.angle(T[:3, :3]))
        return out


# ------------------------------------------------------------------------------------------
# rendering a description to XML
# ------------------------------------------------------------------------------------------

def _num(v, fmt):
    v = float(v)
    if fmt == "int" and abs(v) < 1e15 and v == int(v):
        return "%d" % int(v)
    if fmt == "g":
        return "%.7g" % v
    if fmt == "f4":
        return "%.4f" % v
    if fmt == "e":
        return "%.9e" % v
    return repr(v)


def _vec(v, fmt, sep=" "):
    return sep.join(_num(x, fmt) for x in v)


def _axis_text(a, fmt):
    # axes keep full precision (they must stay unit length); integers for the 'int' style
    return " ".join(_num(x, "int" if fmt == "int" else "repr") for x in a)


_ROS_LINKS = ["base_link", "shoulder_link", "upper_arm_link", "forearm_link", "wrist_1_link", "wrist_2_link",
              "wrist_3_link", "flange", "tool0", "ee_link", "tcp", "camera_mount", "gripper_base"]
_ALPHA = "abcdefghijklmnopqrstuvwxyzABCXYZ0123456789_-."


def _names(case, njoints):
    """Unique names over links and joints together, derived from {'style', 'seed'}."""
    spec = case.get("names") or {"style": "std", "seed": 0}
    nl = njoints + 1
    style = spec["style"]
    if style == "ros":
        links = [_ROS_LINKS[i] for i in range(nl)]
        joints = ["%s-%s" % (links[i], links[i + 1]) if i % 2 else "joint_%d" % (i + 1) for i in range(njoints)]
    elif style == "overlap":      # names that are prefixes / suffixes of one another
        links = ["l" + "1" * i for i in range(nl)]
        joints = ["l" + "1" * i + "j" for i in range(njoints)]
    elif style == "random":
        rnd = random.Random(spec["seed"])
        pool = []
        while len(pool) < nl + njoints:
            w = "".join(rnd.choice(_ALPHA) for _ in range(rnd.randint(1, 10)))
            if w != "world" and w not in pool:
                pool.append(w)
        links, joints = pool[:nl], pool[nl:]
    else:
        links = ["link%d" % i for i in range(nl)]
        joints = ["joint%d" % i for i in range(njoints)]
    if case["root"].get("world"):
        links[0] = "world"
    if len(set(links + joints)) != len(links) + len(joints):
        raise HarnessError("names not unique")
    return links, joints


def _add_origin(parent, o, fmt, sep=" "):
    if o is None:
        return
    el = ET.SubElement(parent, "origin")
    if o.get("xyz") is not None:
        el.set("xyz", _vec(o["xyz"], fmt, sep))
    if o.get("rpy") is not None:
        el.set("rpy", _vec(o["rpy"], fmt, sep))


# Link payloads that must not influence the kinematics: presets (index 0 = absent), non-trivial origins.
_INERTIALS = [None,
              {"xyz": [0.0, 0.0, 0.0], "rpy": [0.0, 0.0, 0.0], "mass": 1.0, "I": [1.0, 0.0, 0.0, 1.0, 0.0, 1.0]},
              {"xyz": [0.0, 0.0, 0.28], "rpy": [0.0, 0.0, 0.0], "mass": 8.393, "I": [0.2269, 0.0, 0.0, 0.2269, 0.0, 0.0151]},
              {"xyz": [0.3, -0.2, 0.7], "rpy": [0.4, -1.1, 2.5], "mass": 0.05, "I": [0.01, 0.001, -0.002, 0.02, 0.003, 0.015]},
              {"xyz": [-5.0, 2.0, 1.0], "rpy": [3.14159, 1.5708, -3.1416], "mass": 50.0, "I": [2.0, 0.0, 0.0, 1.0, 0.0, 0.5]}]
_VISUALS = [None,
            {"xyz": [0.0, 0.0, 0.0], "rpy": [0.0, 0.0, 0.0], "geom": "box", "collision": False},
            {"xyz": [0.0, 0.0, -0.1], "rpy": [0.0, 0.0, 1.570796325], "geom": "cylinder", "collision": True},
            {"xyz": [1.0, 2.0, 3.0], "rpy": [0.7, -0.3, 2.9], "geom": "sphere", "collision": False},
            {"xyz": [0.2, 0.0, 0.0], "rpy": [3.14159265, 0.0, 1.570796325], "geom": "box", "collision": True}]


def _link_element(name, spec, fmt):
    el = ET.Element("link", {"name": name})
    parts = []
    inr = _INERTIALS[spec.get("inertial", 0) % len(_INERTIALS)]
    if inr is not None:
        e = ET.Element("inertial")
        e.append(ET.Element("origin", {"xyz": _vec(inr["xyz"], fmt), "rpy": _vec(inr["rpy"], fmt)}))
        e.append(ET.Element("mass", {"value": _num(inr["mass"], fmt)}))
        e.append(ET.Element("inertia", {k: _num(v, fmt) for k, v in
                                        zip(("ixx", "ixy", "ixz", "iyy", "iyz", "izz"), inr["I"])}))
        parts.append(e)
    vis = _VISUALS[spec.get("visual", 0) % len(_VISUALS)]
    if vis is not None:
        for tag in (("visual", "collision") if vis["collision"] else ("visual",)):
            e = ET.Element(tag)
            _add_origin(e, {"xyz": vis["xyz"], "rpy": vis["rpy"]}, fmt)
            g = ET.SubElement(e, "geometry")
            if vis["geom"] == "box":
                ET.SubElement(g, "box", {"size": "0.1 0.2 0.3"})
            elif vis["geom"] == "cylinder":
                ET.SubElement(g, "cylinder", {"radius": "0.05", "length": "0.4"})
            else:
                ET.SubElement(g, "sphere", {"radius": "0.07"})
            parts.append(e)
    if spec.get("order"):
        random.Random(spec["order"]).shuffle(parts)
    for p in parts:
        el.append(p)
    return el


def render(case):
    """-> XML bytes of the URDF the case describes."""
    lay = case["layout"]
    fmt = lay["numfmt"]
    sep = {0: " ", 1: "  ", 2: "\t"}[lay.get("sep", 0)]
    joints = case["joints"]
    lnames, jnames = _names(case, len(joints))
    attrs = {"name": "generated"}
    root = ET.Element("robot", attrs)
    top = [_link_element(lnames[0], case["root"], fmt)]
    for i, j in enumerate(joints):
        je = ET.Element("joint", {"name": jnames[i], "type": j["type"]})
        sub = [ET.Element("parent", {"link": lnames[i]}), ET.Element("child", {"link": lnames[i + 1]})]
        if j["origin"] is not None:
            holder = ET.Element("holder")
            _add_origin(holder, j["origin"], fmt, sep)
            sub.append(holder[0])
        if j["type"] != "fixed":
            if j["axis"] is not None:
                sub.append(ET.Element("axis", {"xyz": _axis_text(j["axis"], fmt)}))
            lim = j["limit"]
            if lim is not None:
                a = {}
                if lim.get("lower") is not None:
                    a["lower"] = _num(lim["lower"], fmt)
                    a["upper"] = _num(lim["upper"], fmt)
                a["effort"] = _num(lim["effort"], fmt)
                a["velocity"] = _num(lim["velocity"], fmt)
                sub.append(ET.Element("limit", a))
            if j.get("dynamics"):
                sub.append(ET.Element("dynamics", {"damping": "0.1", "friction": "0.0"}))
        if j.get("order"):
            random.Random(j["order"]).shuffle(sub)
        for s in sub:
            je.append(s)
        top.append(je)
        top.append(_link_element(lnames[i + 1], j["child"], fmt))
    moving_names = [jnames[i] for i, j in enumerate(joints) if j["type"] != "fixed"]
    for d in lay.get("distractors", []):
        if d == "material":
            m = ET.Element("material", {"name": "mat_blue"})
            ET.SubElement(m, "color", {"rgba": "0 0 0.8 1"})
            top.append(m)
        elif d == "gazebo":
            g = ET.Element("gazebo", {"reference": lnames[-1]})
            ET.SubElement(g, "selfCollide").text = "true"
            top.append(g)
        elif d == "transmission":
            t = ET.Element("transmission", {"name": "trans_0"})
            ET.SubElement(t, "type").text = "transmission_interface/SimpleTransmission"
            ET.SubElement(t, "joint", {"name": moving_names[0]})
            top.append(t)
    if lay.get("perm"):
        random.Random(lay["perm"]).shuffle(top)
    for e in top:
        root.append(e)
    if lay.get("decl"):                    # comments inside the document (a parser drops them)
        root.insert(0, ET.Comment(" generated by the C13 check "))
        root.insert(len(root) // 2, ET.Comment(' <joint name="ghost" type="revolute"/> '))
    if lay.get("indent"):
        ET.indent(root)
    data = ET.tostring(root, encoding="unicode")
    if lay.get("decl"):
        data = '<?xml version="1.0" ?>\n' + ("<!-- generated -->\n" if lay.get("indent") else "") + data
    return data.encode("utf-8")


# ------------------------------------------------------------------------------------------
# comparison
# ------------------------------------------------------------------------------------------

_QABS = [None, 0.0, 0.0, 1e-7, -math.nextafter(1e-6, 1), PI / 2, -PI / 2, PI, -PI, 1.0, -1.0, 3.0]


def joint_vectors(qs, ranges):
    """The joint vectors evaluated for one file: the drawn one (per joint either a fraction of the range or an
    absolute value clipped into it), then all-lower, all-upper and the mid-range vector."""
    lo = np.array([r[0] for r in ranges], dtype=float)
    hi = np.array([r[1] for r in ranges], dtype=float)
    q = np.empty(len(ranges))
    for i in range(len(ranges)):
        a = _QABS[qs["abs"][i] % len(_QABS)]
        q[i] = a if a is not None else lo[i] + float(qs["u"][i]) * (hi[i] - lo[i])
    return [np.minimum(np.maximum(q, lo), hi), lo.copy(), hi.copy(), np.minimum(np.maximum((lo + hi) / 2, lo), hi)]


def _axis_class(a):
    nz = int(np.count_nonzero(np.abs(a) > 1e-12))
    return {1: "aligned", 2: "planar", 3: "generic"}.get(nz, "generic")


def compare(path, model, qspecs_list, ctx):
    """Load ``path`` with the library and compare the arm with ``model`` (a FileModel of the same file)."""
    arm = sut(lib(), path)
    if arm is None:
        raise Violation("loadArmFromURDF returned None for a well-formed file")
    n = len(model.moving)
    num_dof = sut(lambda: arm.num_dof)
    if num_dof != n:
        raise Violation("num_dof %r, the file's chain has %d moving joints" % (num_dof, n))
    want_names = [e["name"] for e in model.moving]
    got_names = list(sut(lambda: arm.joint_names))
    if got_names != want_names:
        raise Violation("joint names/order %r, file says %r" % (got_names, want_names))
    mins = np.asarray(sut(lambda: arm.joint_mins), dtype=float)
    maxs = np.asarray(sut(lambda: arm.joint_maxs), dtype=float)
    if mins.shape != (n,) or maxs.shape != (n,):
        raise Violation("joint_mins/joint_maxs shapes %s %s for %d joints" % (mins.shape, maxs.shape, n))
    for i, e in enumerate(model.moving):
        if e["lower"] is None:
            continue
        for got, want, what in ((mins[i], e["lower"], "joint_mins"), (maxs[i], e["upper"], "joint_maxs")):
            if not (abs(got - want) <= 1e-12 * max(1.0, abs(want))):
                raise Violation("%s[%d] (%s) = %r, the file writes %r" % (what, i, e["name"], float(got), want))

    frame_angles = model.moving_frame_angles()
    near_pi = [a for a in frame_angles if PI - a < NEAR_PI]
    if near_pi:
        ctx.label("moving joint frame within 2e-5 of a half turn")
    static_band = [a for e in model.chain for a in map(abs, e["rpy"]) if BAND_LO < a < BAND_HI]
    static_band += [a for a in frame_angles if BAND_LO < a < BAND_HI]
    buf = None
    for q in joint_vectors(qspecs_list, [model.q_range(e) for e in model.moving]):
        k = len(static_band) + sum(1 for v in q if BAND_LO < abs(v) < BAND_HI)
        want = model.fk(q)
        ps = float(np.linalg.norm(want[:3, 3]))
        if k:
            ctx.label("NearZero band regime")
            tol_r = LOOSE * k
            tol_p = LOOSE * k * max(1.0, model.reach)
        else:
            tol_r = TOL
            tol_p = TOL * max(1.0, ps)
        for i, e in enumerate(model.moving):
            lo, hi = model.q_range(e)
            if q[i] == lo or q[i] == hi:
                ctx.label("q on a limit")
                break
        # the joint vectors of one case are handed over in ONE buffer that is rewritten in place between calls (a
        # jogging loop): "for all joint values" is about the values in the array at the time of the call
        if buf is None or buf.shape != q.shape:
            buf = np.array(q, dtype=float, copy=True)
        else:
            buf[:] = q
        res = sut(arm.FK, buf)
        got = np.asarray(sut(res.gTM), dtype=float)
        if got.shape != (4, 4) or not np.all(np.isfinite(got)):
            raise Violation("FK result shape %s / non-finite" % (got.shape,))
        dr = float(np.abs(got[:3, :3] - want[:3, :3]).max())
        dp = float(np.abs(got[:3, 3] - want[:3, 3]).max())
        if dr > tol_r or dp > tol_p or not np.array_equal(got[3], [0, 0, 0, 1]):
            raise Violation("FK(q) differs from the file's kinematics: rotation %.3g (tol %.3g), position %.3g "
                            "(tol %.3g) at q=%s; expected p=%s got p=%s" %
                            (dr, tol_r, dp, tol_p, np.array2string(q, precision=6),
                             np.array2string(want[:3, 3], precision=6), np.array2string(got[:3, 3], precision=6)))
    return arm


def classify(model, ctx):
    n = len(model.moving)
    types = [e["type"] for e in model.chain]
    nf = types.count("fixed")
    ctx.label("moving=%d" % n)
    ctx.label("fixed=%d" % nf)
    mv = [i for i, t in enumerate(types) if t != "fixed"]
    if nf:
        fx = [i for i, t in enumerate(types) if t == "fixed"]
        if any(i < mv[0] for i in fx):
            ctx.label("fixed before")
        if any(mv[0] < i < mv[-1] for i in fx):
            ctx.label("fixed between")
        if any(i > mv[-1] for i in fx):
            ctx.label("fixed after")
    omitted = sorted({o for e in model.chain for o in e["omitted"]})
    for o in omitted:
        ctx.label("omitted " + o)
    if any(e["type"] == "continuous" for e in model.moving):
        ctx.label("has continuous")
    if any(e["lower"] is None for e in model.moving):
        ctx.label("continuous without bounds")
    if any(e["lower"] is not None and not (e["lower"] <= 0 <= e["upper"]) for e in model.moving):
        ctx.label("limits exclude zero")
    nonzero_rpy = any(any(v != 0 for v in e["rpy"]) for e in model.chain)
    classes = {_axis_class(e["axis"]) for e in model.moving}
    for c in sorted(classes):
        ctx.label("axis " + c)
    generic_axis = bool(classes - {"aligned"})
    ctx.nontrivial((n >= 2 and nonzero_rpy and generic_axis) or bool(omitted))


_PREVIOUS_URDF = b"""<?xml version="1.0"?>
<robot name="previous">
  <link name="p0"/><link name="p1"/>
  <joint name="previous_joint" type="revolute">
    <parent link="p0"/><child link="p1"/>
    <origin xyz="0.3 0 0.2" rpy="0 0 0"/><axis xyz="0 0 1"/>
    <limit lower="-1.0" upper="1.0" effort="1" velocity="1"/>
  </joint>
</robot>
"""


def _run_generated(case, ctx):
    d = tempfile.mkdtemp(prefix="vf_c13_")
    try:
        path = os.path.join(d, "generated.urdf")
        if case.get("rewrite"):
            # the path held another robot a moment ago (a calibration written back, a generator reusing its output
            # name) and that one was loaded too: what is loaded now is what the file says now
            with open(path, "wb") as f:
                f.write(_PREVIOUS_URDF)
            prev = sut(lib(), path)
            if prev is None or sut(lambda: prev.num_dof) != 1:
                raise Violation("the one-joint robot written first at the same path was not loaded as such")
            ctx.label("same path loaded before with another robot in it")
        with open(path, "wb") as f:
            f.write(render(case))
        model = FileModel(path)
        # the evaluator must see the chain the description asked for (a harness self-check)
        if [e["type"] for e in model.chain] != [j["type"] for j in case["joints"]]:
            raise HarnessError("rendered chain differs from the description")
        classify(model, ctx)
        if case["root"].get("world"):
            ctx.label("world root")
        lay = case["layout"]
        if lay.get("perm"):
            ctx.label("top-level shuffled")
        if any(j.get("order") for j in case["joints"]):
            ctx.label("joint children shuffled")
        specs = [case["root"]] + [j["child"] for j in case["joints"]]
        ni = sum(1 for sp in specs if sp.get("inertial", 0) % len(_INERTIALS))
        if ni:
            ctx.label("inertials on all links" if ni == len(specs) else "inertials on some links")
        if any(sp.get("visual", 0) % len(_VISUALS) for sp in specs):
            ctx.label("visuals")
        if case.get("names"):
            ctx.label("names " + case["names"]["style"])
        if lay.get("distractors"):
            ctx.label("top-level distractors")
        ctx.label("numfmt " + lay["numfmt"])
        if any(j["type"] == "continuous" and j["limit"] is not None and j["limit"].get("lower") is None
               for j in case["joints"]):
            ctx.label("continuous <limit> without lower/upper")
        compare(path, model, case["qs"], ctx)
    finally:
        shutil.rmtree(d, ignore_errors=True)


# Quick tier: Hypothesis' shrinker is switched off for the generated clauses (a description has ~100 draws and
# one shrink costs ~30 CPU-seconds per failing clause and shard); instead a bounded delta-debugging pass over the
# description runs here, and the case object is rewritten IN PLACE so that the runner records the simplified
# witness.  The thorough tier keeps Hypothesis' shrinker and does not come here.

def _tier():
    import sys
    if "--tier" in sys.argv[:-1]:
        return sys.argv[sys.argv.index("--tier") + 1]
    return os.environ.get("VERIF_TIER") or "quick"


class _NoCtx:
    replay = True

    def label(self, *_):
        pass

    nontrivial = note = label

    def skip(self, reason):
        from vf.core import Skip
        raise Skip(reason)


def _failure_key(msg):
    """Kind of failure: the leading words of the message (no numbers, names or values)."""
    import re
    return re.match(r"[A-Za-z_ ()./]*", msg).group(0)


_PLAIN_LAYOUT = {"perm": 0, "decl": False, "indent": False, "numfmt": "repr", "sep": 0, "distractors": []}


def _simplify(case, msg, budget=90):
    """Greedy, bounded: keep a candidate when it fails with the same kind of message."""
    import copy
    from vf.core import Skip
    key = _failure_key(msg)
    best, best_msg = copy.deepcopy(case), msg
    left = [budget]

    def attempt(cand):
        nonlocal best, best_msg
        if left[0] <= 0 or cand == best:
            return False
        left[0] -= 1
        try:
            _run_generated(copy.deepcopy(cand), _NoCtx())
        except Skip:
            return False
        except Violation as v:
            if _failure_key(str(v)) == key:
                best, best_msg = cand, str(v)
                return True
        return False

    def edited(fn):
        c = copy.deepcopy(best)
        fn(c)
        return c

    def moving(c):
        return sum(1 for j in c["joints"] if j["type"] != "fixed")

    # 1. the layout and the link payloads
    def plain_layout(c):
        c["layout"] = dict(_PLAIN_LAYOUT)
        c["names"] = None
        c["root"] = dict(_PLAIN_LINK, world=False)
        for j in c["joints"]:
            j["child"] = dict(_PLAIN_LINK)
            j["order"] = 0
            j["dynamics"] = False
    attempt(edited(plain_layout))
    # 2. drop joints
    changed = True
    while changed and left[0] > 0:
        changed = False
        for k in range(len(best["joints"]) - 1, -1, -1):
            c = edited(lambda c: c["joints"].pop(k))
            if moving(c) >= 1 and attempt(c):
                changed = True
                break
    # 3. per joint: plain origin pieces, axis, limits; then the joint values
    for k in range(len(best["joints"])):
        def zero_xyz(c):
            if c["joints"][k]["origin"] is not None and c["joints"][k]["origin"]["xyz"] is not None:
                c["joints"][k]["origin"]["xyz"] = [0.0, 0.0, 0.0]

        def zero_rpy(c):
            if c["joints"][k]["origin"] is not None and c["joints"][k]["origin"]["rpy"] is not None:
                c["joints"][k]["origin"]["rpy"] = [0.0, 0.0, 0.0]

        def x_axis(c):
            if c["joints"][k]["axis"] is not None:
                c["joints"][k]["axis"] = [1.0, 0.0, 0.0]

        def std_limit(c):
            if c["joints"][k]["type"] == "revolute":
                c["joints"][k]["limit"] = {"effort": 0.0, "velocity": 0.0, "lower": -PI, "upper": PI}
            elif c["joints"][k]["type"] == "continuous":
                c["joints"][k]["limit"] = None
        for fn in (zero_xyz, zero_rpy, x_axis, std_limit):
            attempt(edited(fn))
    attempt(edited(lambda c: c.update(qs={"u": [0.75] * 8, "abs": [0] * 8})))
    return best, best_msg


def c_generated(case, ctx):
    try:
        _run_generated(case, ctx)
    except Violation as v:
        if ctx.replay or _tier() != "quick":
            raise
        best, msg = _simplify(case, str(v))
        case.clear()
        case.update(best)
        raise Violation(msg)


def c_bundled(case, ctx):
    path = bundled_path(case["file"])
    model = FileModel(path)
    ctx.label(BUNDLED[case["file"] % len(BUNDLED)])
    classify(model, ctx)
    ctx.nontrivial(True)
    compare(path, model, case["qs"], ctx)


def near_pi_axis_region(case, message):
    """Region predicate offered for a known-finding entry should the proposed fix
    (C13-axis-through-rotation-vector) not be taken: some moving joint's accumulated home frame is within
    2e-5 of a half turn AND the failure is an FK mismatch (the loader rotates the joint axis with a rotation
    rebuilt from the frame's axis-angle vector, i.e. through the C01 near-pi logarithm)."""
    if "FK(q) differs" not in message or "joints" not in case:
        return None
    d = tempfile.mkdtemp(prefix="vf_c13_")
    try:
        path = os.path.join(d, "generated.urdf")
        with open(path, "wb") as f:
            f.write(render(case))
        angles = FileModel(path).moving_frame_angles()
    finally:
        shutil.rmtree(d, ignore_errors=True)
    return "near_pi_joint_frame" if any(PI - a < NEAR_PI for a in angles) else None


# ------------------------------------------------------------------------------------------
# the grammar
# ------------------------------------------------------------------------------------------

# Flat draws (an integer selector plus raw floats, mapped) keep Hypothesis' per-case cost low; selector 0 is the
# simplest alternative so that shrinking ends in plain files.

_PI_DECIMALS = [3.14159, 3.1416, 3.141592, 3.1415926, 3.14159265, 3.141592653589793, 3.1415, 3.14,
                1.5708, 1.570796, 1.57079, 1.570796325, 1.5707963267948966, 1.57, 0.7854, 0.785398]
_EXACT = [0.0, PI / 2, -PI / 2, PI, -PI, PI / 4, -PI / 4, 3 * PI / 4, 2 * PI, -2 * PI]
_BAND = [1e-7, 5e-7, 1e-6, math.nextafter(1e-6, 0), math.nextafter(1e-6, 1), 1.5e-6, 2e-6, 1e-8, 1e-5]
_RPY_TABLE = {
    "plain": _EXACT,
    "special": _EXACT + _PI_DECIMALS + [-v for v in _PI_DECIMALS],
}


def rpy_component(pool):
    """selector < len(table): table entry (special: ~20 % of the draws); the next two selectors: a NearZero-band
    value (special pool only, ~1 %: the band regime compares loosely, so it gets little mass); otherwise generic
    in [-pi, pi] (2/3) or [-2pi, 2pi] (1/3)."""
    table = _RPY_TABLE[pool]
    n = len(table)
    nb = 2 if pool == "special" else 0
    top = 200 if pool == "special" else 40

    def build(t):
        k, x = t
        if k < n:
            return table[k]
        if k < n + nb:
            return math.copysign(_BAND[int(abs(x) * 1e6) % len(_BAND)], x)
        if abs(x) < 1e-5:                 # Hypothesis is fond of tiny floats; band values are drawn explicitly above
            return 0.0
        return PI * x if k % 3 else 2 * PI * x
    return st.tuples(st.integers(0, top), G.floats(-1.0, 1.0)).map(build)


def rpys(pool):
    c = rpy_component(pool)
    half = [PI / 2, -PI / 2] + ([1.5708, -1.5708, 1.570796325] if pool != "plain" else [])

    def build(t):
        kind, k, r, p, y = t
        if kind == 0:
            return [0.0, 0.0, 0.0]
        if kind <= 2:                      # a single non-zero component
            v = [0.0, 0.0, 0.0]
            v[k % 3] = (r, p, y)[k % 3]
            return v
        if kind == 3:                      # gimbal: pitch a quarter turn
            return [r, half[k % len(half)], y]
        return [r, p, y]
    return st.tuples(st.integers(0, 5), st.integers(0, 5), c, c, c).map(build)


def xyzs():
    def build(t):
        kind, x, y, z, e = t
        if kind == 0:
            return [0.0, 0.0, 0.0]
        if kind <= 3:                      # along one axis
            v = [0.0, 0.0, 0.0]
            v[kind - 1] = 10.0 * x
            return v
        scale = 10.0 ** (-3 * e) if kind == 4 else 1.0      # log-uniform magnitudes down to 1e-3 x 10
        return [10.0 * x * scale / math.sqrt(3), 10.0 * y * scale / math.sqrt(3), 10.0 * z * scale / math.sqrt(3)]
    return st.tuples(st.integers(0, 6), G.floats(-1, 1), G.floats(-1, 1), G.floats(-1, 1), G.floats(0, 1)).map(build)


def origins(pool, omit):
    """omit: 'never' | 'maybe' (each of <origin>, xyz, rpy independently omitted with probability 1/4)."""
    def build(t):
        m, xyz, rpy = t
        if omit == "maybe":
            if m % 4 == 0:
                return None
            return {"xyz": None if (m // 4) % 4 == 0 else xyz, "rpy": None if (m // 16) % 4 == 0 else rpy}
        return {"xyz": xyz, "rpy": rpy}
    return st.tuples(st.integers(0, 63).map(lambda m: 63 - m), xyzs(), rpys(pool)).map(build)


def axes():
    def build(t):
        k, z, a = t
        if k < 6:
            return [float(v) for v in G._AXES[k]]
        if k < 8:                          # in a coordinate plane
            v = [math.cos(a), math.sin(a)]
            v.insert(int((z + 1) * 1.4999), 0.0)
            return v
        r = math.sqrt(max(0.0, 1 - z * z))
        v = np.array([r * math.cos(a), r * math.sin(a), z])
        nrm = float(np.linalg.norm(v))
        return [float(x) for x in (v / nrm)] if nrm > 0 else [0.0, 0.0, 1.0]
    return st.tuples(st.integers(0, 11), G.floats(-1.0, 1.0), G.floats(-PI, PI)).map(build)


_BOUNDS = [PI, PI / 2, 2 * PI, 3.1416, 3.14159265, 6.2831853, 1.570796325, 6.9813, 0.5]
_EFFORT = [0.0, 10.0, 330.0, 1000.0]
_VELOCITY = [0.0, 1.0, 2.16, 6.2832]


def limits(jtype, spellings):
    """-> None | {lower, upper, effort, velocity} (lower/upper None: bounds not written)."""
    nb = len(_BOUNDS)

    def bound(k, x):
        return _BOUNDS[k] if k < nb else 0.05 + 6.95 * x

    def build(t):
        how, kind, k1, k2, x1, x2, ev = t
        out = {"effort": _EFFORT[ev % 4], "velocity": _VELOCITY[(ev // 4) % 4]}
        if jtype == "continuous":
            if how == 0:
                return None
            if how >= 2 and spellings and CONTINUOUS_LIMIT_WITHOUT_BOUNDS:
                return dict(out, lower=None, upper=None)
        if kind >= 8:                      # one bound exactly zero (a knee [0, hi] / an ankle [lo, 0]); "-0.0" too
            z = -0.0 if (ev // 16) % 2 else 0.0
            lo, hi = (z, bound(k2, x2)) if kind == 8 else (-bound(k1, x1), z)
            return dict(out, lower=float(lo), upper=float(hi))
        if not spellings:
            kind = kind % 3
        if kind <= 1:                      # symmetric
            lo, hi = -bound(k1, x1), bound(k1, x1)
        elif kind in (2, 7):               # asymmetric around zero
            lo, hi = -bound(k1, x1), bound(k2, x2)
        elif kind == 3:                    # strictly positive range
            lo = 0.01 + 2.99 * x1
            hi = lo + 0.01 + 3.99 * x2
        elif kind == 4:                    # strictly negative range
            hi = -(0.01 + 2.99 * x1)
            lo = hi - (0.01 + 3.99 * x2)
        elif kind == 5:                    # degenerate
            lo = hi = 6.0 * x1 - 3.0
        else:                              # wide
            lo, hi = -(7.0 + 43.0 * x1), 7.0 + 43.0 * x1
        return dict(out, lower=float(lo), upper=float(hi))
    return st.tuples(st.integers(0, 3), st.integers(0, 9), st.integers(0, 2 * nb), st.integers(0, 2 * nb),
                     G.floats(0.0, 1.0), G.floats(0.0, 1.0), st.integers(0, 31)).map(build)


def link_specs(inertial_mode, visuals):
    def build(t):
        has_i, ki, has_v, kv, order = t
        spec = {"inertial": 0, "visual": 0, "order": 0}
        if inertial_mode == "all" or (inertial_mode == "some" and has_i):
            spec["inertial"] = ki
        if visuals and has_v == 0:
            spec["visual"] = kv
            spec["order"] = order
        return spec
    return st.tuples(st.booleans(), st.integers(1, len(_INERTIALS) - 1), st.integers(0, 2),
                     st.integers(1, len(_VISUALS) - 1), st.integers(0, 5)).map(build)


_PLAIN_LINK = {"inertial": 0, "visual": 0, "order": 0}


def qvectors():
    return st.fixed_dictionaries({
        "u": st.lists(st.tuples(st.integers(0, 5), G.floats(0.0, 1.0)).map(
            lambda t: (0.0, 1.0, 0.5)[t[0]] if t[0] < 3 else t[1]), min_size=8, max_size=8),
        "abs": st.lists(st.sampled_from([0] * (9 * len(_QABS)) + list(range(1, len(_QABS)))), min_size=8, max_size=8)})


_B = st.booleans()
_I2, _I3, _I5, _I1000, _I1e6 = (st.integers(0, 2), st.integers(0, 3), st.integers(0, 5), st.integers(0, 1000),
                               st.integers(0, 10 ** 6))
_OMIT_WHAT = st.sampled_from(["origin", "xyz", "rpy", "axis"])
_INERTIAL_MODES = st.sampled_from(["none", "all", "some"])
_NUMFMT = st.sampled_from(["repr", "repr", "g", "f4", "e", "int"])
_SEP = st.sampled_from([0, 0, 1, 2])
_DISTRACTORS = st.lists(st.sampled_from(["material", "gazebo", "transmission"]), max_size=3, unique=True)
_STYLES = st.sampled_from(["std", "std", "ros", "overlap", "random", "random"])


def urdfs(rpy_pool="plain", omit="never", spellings=False, layout="plain", max_moving=8, max_fixed=4):
    rich = layout == "rich"
    s_nm = st.integers(1, max_moving)
    s_nf = st.integers(0, max_fixed)
    s_origin = origins(rpy_pool, omit)
    s_axis = axes()
    s_link = {m: link_specs(m, True) for m in ("none", "all", "some")}
    s_root = {m: link_specs(m, True) for m in ("none", "all", "some")}
    s_root_world = link_specs("none", False)
    s_limit = {"revolute": limits("revolute", spellings), "continuous": limits("continuous", spellings)}
    s_q = qvectors()
    s_key = G.floats(0.0, 1.0)

    @st.composite
    def build(draw):
        nm = draw(s_nm)
        nf = draw(s_nf)
        # positions of the fixed joints: sort keys (a fixed joint's key is drawn, moving joints keep their order)
        types = ["m"] * nm
        for _ in range(nf):
            types.insert(int(draw(s_key) * (len(types) + 1)) % (len(types) + 1), "f")
        inertial_mode = draw(_INERTIAL_MODES) if rich else "none"
        joints = []
        for t in types:
            jt = "fixed" if t == "f" else ("continuous" if draw(_I2) == 2 else "revolute")
            j = {"type": jt, "origin": draw(s_origin), "axis": None, "limit": None, "dynamics": False, "order": 0,
                 "child": draw(s_link[inertial_mode]) if rich else dict(_PLAIN_LINK)}
            if jt != "fixed":
                if not (omit == "maybe" and draw(_I3) == 3):
                    j["axis"] = draw(s_axis)
                j["limit"] = draw(s_limit[jt])
                if rich:
                    j["dynamics"] = draw(_B)
            if rich:
                j["order"] = draw(_I1000)
            joints.append(j)
        if omit == "maybe" and not any(j["origin"] is None or j["origin"]["xyz"] is None or j["origin"]["rpy"] is None
                                       or (j["type"] != "fixed" and j["axis"] is None) for j in joints):
            # by construction at least one optional is omitted in this profile
            k = draw(_I1000) % len(joints)
            what = draw(_OMIT_WHAT)
            if what == "axis":
                mv = [j for j in joints if j["type"] != "fixed"]
                mv[k % len(mv)]["axis"] = None
            elif what == "origin":
                joints[k]["origin"] = None
            else:
                joints[k]["origin"][what] = None
        world = draw(_B) if rich else False
        if not rich:
            root = dict(_PLAIN_LINK)
        else:
            root = dict(draw(s_root_world if world else s_root[inertial_mode]))
        root["world"] = world
        lay = {"perm": 0, "decl": False, "indent": False, "numfmt": "repr", "sep": 0, "distractors": []}
        names = None
        if rich:
            lay = {"perm": draw(_I1e6), "decl": draw(_B), "indent": draw(_B), "numfmt": draw(_NUMFMT),
                   "sep": draw(_SEP), "distractors": draw(_DISTRACTORS)}
            style = draw(_STYLES)
            if style != "std":
                names = {"style": style, "seed": draw(_I1e6) if style == "random" else 0}
        return {"root": root, "joints": joints, "names": names, "layout": lay, "qs": draw(s_q),
                "rewrite": draw(_I3) == 0}

    return build()


bundled_cases = st.fixed_dictionaries({"file": st.integers(0, len(BUNDLED) - 1), "qs": qvectors()})


CLAUSES = [
    Clause("fk_fully_specified", c_generated, urdfs(rpy_pool="special"), 260, 18000,
           region=near_pi_axis_region, shrink_quick=False,
           doc="every optional written; rpy incl. decimal truncations of pi and NearZero-band values"),
    Clause("optionals_take_defaults", c_generated, urdfs(omit="maybe"), 260, 18000, shrink_quick=False,
           doc="each of <origin>, xyz, rpy, <axis> independently omitted (>=1 omitted by construction)"),
    Clause("limit_spellings", c_generated, urdfs(spellings=True, max_moving=5, max_fixed=2), 160, 10000, shrink_quick=False,
           doc="limits not containing zero / degenerate / wide; continuous: no <limit>, effort+velocity only, bounds"),
    Clause("file_layout", c_generated, urdfs(layout="rich"), 180, 12000, region=near_pi_axis_region, shrink_quick=False,
           doc="shuffled order, world root, inertials, visuals, distractors, number formats, name styles"),
    Clause("everything_combined", c_generated,
           urdfs(rpy_pool="special", omit="maybe", spellings=True, layout="rich"), 200, 18000,
           region=near_pi_axis_region, shrink_quick=False),
    Clause("bundled_files", c_bundled, bundled_cases, 120, 4000),
]
