"""C12 -- wrenches and screws change frame as a group action and add as vectors.

Conventions read from the code (and confirmed by experiment), stated once:

* A frame is a ``tm`` giving the frame's pose in a common (global) frame; ``tm(taa)`` takes the
  six-vector ``[x y z rx ry rz]`` (translation, rotation vector).
* ``Screw`` / ``Twist`` data is a (6,1) column in Modern Robotics order **[angular; linear]**
  (``Screw.cross`` pairs ``data[0:3]`` with ``data[0:3]`` as the angular part, and ``changeFrame``
  multiplies by MR's ``Adjoint`` which is written for ``[w; v]``).
* ``Wrench`` data is **[moment; force]** (``getMoment() = data[0:3]``, ``getForce() = data[3:6]``,
  the constructor stores ``[p x f; f]``).
* ``Screw.changeFrame(new)``: ``S_b = Ad(T_ba) S_a`` with ``T_ba = T_b^-1 T_a``;
  ``Wrench.changeFrame(new)``: ``F_b = Ad(T_ab)^T F_a`` with ``T_ab = T_a^-1 T_b``.
* Binary operators return the result in the LEFT operand's frame; scalar operands fall through to
  raw (6,1) ndarray results, 6-arrays and objects give objects.
"""
import math

import numpy as np
from hypothesis import strategies as st

from vf import gen as G
from vf import oracle as O
from vf.core import Clause, Violation, sut

PROPERTY_ID = "C12"
RULE = ("Hypothesis-generated frame triples A,B,C as six-vectors [p; rotvec] (|p|<=10, angle<=pi-1e-3, boundary mass "
        "at angle 0 / around the 1e-6 NearZero cut-off / pi-1e-3, axis-aligned, planar and generic axes) in every "
        "relation: independent, bit-equal, within the 1e-8 equality shortcut, just over it, relative rotation inside "
        "the NearZero band, same rotation / same origin; 6-vectors (generic, pure angular, pure linear, unit, zero, "
        "|.| up to 1e3) as Screw, Twist and Wrench built from (6,) and (6,1) data; frame changes through the method, "
        "the method with explicit old frame and fsr.transformWrenchFrame; operands as int / float / np.float64 / "
        "np.int64 / (6,) / (6,1) / object in the same, a near or another frame, on either side of the operator. "
        "Non-trivial: frame clauses - the frames used are pairwise different (no shortcut) with non-parallel rotation "
        "axes and the data is non-zero; arithmetic clauses - the operand is non-zero (scalar s != 0) and, for object "
        "operands, lives in a different frame. Distinct by digest of the case.")
ASSUMPTIONS = [
    "oracle: vf/oracle.py (long-double Rodrigues, own Ad, own inverse); expected values are Ad(T_ba) S for "
    "Screw/Twist and Ad(T_ab)^T F for Wrench computed from the six-vectors, never from the library",
    "tolerance 1e-8 * scale (+1e-300), scale = |data| * prod over hops (1 + |p_i - p_j|) (and |a| + |b|(1+|p_a-p_b|) "
    "for sums); if any frame's own angle or any pairwise relative angle of the frames used lies in the open band "
    "(1e-9, 2e-6) the comparison is made at 5e-6*max(1,scale) (DESIGN 1.3, the library's NearZero cut-off)",
    "frames whose six-vectors agree to 1e-8 componentwise may be treated as identical by the library (documented "
    "shortcut of tm.__eq__): per such hop 4e-8*scale is added (2*sqrt(3)*1e-8 bounds |Ad(T)-I| for the skipped "
    "motion) and the recorded frame is compared with the target at 1e-8",
    "cases in which two frames used by one library frame change are relatively rotated by more than pi-2e-3 are "
    "skipped and counted: MatrixLog3 loses accuracy there (root cause = open finding C01-near-pi-log; measured "
    "relative error 1e-9 at pi-1e-3, 3e-8 at pi-2e-4, 1e-3 at pi-1e-6)",
    "|k| in [1e-3, 1e3] and |data| <= 1e3 so that k*a cannot overflow or underflow (float limits are not the library's)",
]

RTOL = 1e-8
LOOSE = 5e-6
ATOL = 1e-300
SKIP_ALLOW = 4e-8
EQ_ATOL = 1e-8 * (1 + 1e-6)      # the library's frame equality: |dTAA| <= 1e-8 componentwise
BAND_LO, BAND_HI = 1e-9, 2e-6
NEAR_PI = 2e-3
MAXANG = math.pi - 1e-3

_lib = None


class _Lib:
    pass


def L():
    global _lib
    if _lib is None:
        from basic_robotics.general import Screw, Twist, Wrench, fsr, tm
        l = _Lib()
        l.tm, l.Screw, l.Wrench, l.Twist, l.fsr = tm, Screw, Wrench, Twist, fsr
        _lib = l
    return _lib


def warm():
    l = L()
    A = l.tm(np.array([1.0, 2, 3, 0.1, 0.2, 0.3]))
    B = l.tm(np.array([0.0, 1, 0, 0.5, 0.0, 0.3]))
    d = np.arange(6.0)
    s = l.Screw(d.copy(), A.copy())
    s.changeFrame(B)
    w = l.Wrench(d.copy(), None, A.copy())
    w.changeFrame(B)
    (w + l.Wrench(d.copy(), None, A.copy())) - w
    l.fsr.transformWrenchFrame(w, B, A)
    l.fsr.makeWrench(A, 2.0, [0.0, 0.0, -1.0], B)
    l.Twist(d.copy(), A.copy()).changeFrame(B)


# ------------------------------------------------------------------------------------ helpers

def close(a, b, t, what):
    a = np.asarray(a, dtype=float)
    b = np.asarray(b, dtype=float)
    if a.shape != b.shape:
        raise Violation("%s: shape %s vs %s" % (what, a.shape, b.shape))
    if not np.all(np.isfinite(a)):
        raise Violation("%s: non-finite result %s" % (what, a))
    dlt = float(np.abs(a - b).max()) if a.size else 0.0
    if dlt > t:
        raise Violation("%s: max |diff| %.3g > tol %.3g (got %s, expected %s)" % (what, dlt, t, a, b))


def nrm(v):
    """Euclidean norm that does not underflow for tiny entries (Hypothesis likes 1e-200)."""
    v = np.asarray(v, dtype=float)
    m = float(np.abs(v).max()) if v.size else 0.0
    if m == 0.0 or not math.isfinite(m):
        return m
    return m * float(np.linalg.norm(v / m))


def move(kind, data, taa_from, taa_to):
    """ORACLE: coordinates in frame `to` of the twist-like / wrench `data` given in frame `from`."""
    Ta, Tb = O.pose_from_taa(taa_from), O.pose_from_taa(taa_to)
    data = np.asarray(data, dtype=float).reshape(6)
    if kind == "wrench":
        return O.Ad(O.inv(Ta) @ Tb).T @ data          # F_b = Ad(T_ab)^T F_a
    return O.Ad(O.inv(Tb) @ Ta) @ data                # S_b = Ad(T_ba) S_a


def may_shortcut(t1, t2):
    """True when the library's frame equality (allclose, atol 1e-8 on the six-vector) may hold."""
    return bool(np.all(np.abs(np.asarray(t1) - np.asarray(t2)) <= EQ_ATOL))


def rel_class(t1, t2):
    d = float(np.abs(np.asarray(t1) - np.asarray(t2)).max())
    if d == 0.0:
        return "bit-equal"
    if d <= EQ_ATOL:
        return "within 1e-8"
    if d <= 1e-5:
        return "just over 1e-8"
    return "different"


def axes_nonparallel(*taas):
    us = []
    for t in taas:
        a = nrm(t[3:])
        if a < BAND_HI:
            return False
        us.append(np.asarray(t[3:]) / a)
    for i in range(len(us)):
        for j in range(i + 1, len(us)):
            if nrm(np.cross(us[i], us[j])) < 1e-3:
                return False
    return True


class Budget:
    """Tolerance bookkeeping for the frames one case uses (DESIGN 1.3 + C12 '!')."""

    def __init__(self, ctx, taas):
        self.taas = [np.asarray(t, dtype=float) for t in taas]
        self.T = [O.pose_from_taa(t) for t in self.taas]
        angs = [nrm(t[3:]) for t in self.taas]
        n = len(self.taas)
        for i in range(n):
            for j in range(i + 1, n):
                ra = O.rot_angle_between(self.T[i][:3, :3], self.T[j][:3, :3])
                if math.pi - ra < NEAR_PI:
                    ctx.skip("relative rotation of two frames within 2e-3 of pi (MatrixLog3 accuracy, C01-near-pi-log)")
                angs.append(ra)
        self.band = any(BAND_LO < a < BAND_HI for a in angs)
        if self.band:
            ctx.label("NearZero band")

    def hop(self, i, j):
        return 1.0 + nrm(self.taas[i][:3] - self.taas[j][:3])

    def path_scale(self, path):
        s = 1.0
        for i, j in zip(path[:-1], path[1:]):
            s *= self.hop(i, j)
        return s

    def nskip(self, path):
        return sum(1 for i, j in zip(path[:-1], path[1:]) if may_shortcut(self.taas[i], self.taas[j]))

    def tol(self, scale, nskip=0):
        base = LOOSE * max(1.0, scale) if self.band else RTOL * scale
        return base + nskip * SKIP_ALLOW * scale + ATOL


def mk_tm(taa):
    return sut(L().tm, np.array(taa, dtype=float))


def _d(case):
    """The case's six numbers; whole numbers when the case says the data are typed in as integers."""
    d = np.asarray(case["d"], dtype=float)
    return np.round(d) if case.get("whole") else d


_WHOLE = [False]


def mk(kind, data, taa, dshape="6"):
    """Build the library object from copies of the inputs (constructor forms: (6,) and (6,1) data; integer-typed
    arrays when the case says the data are whole numbers typed in as such)."""
    d = np.array(data, dtype=float).reshape((6, 1) if dshape == "61" else (6,))
    if _WHOLE[0] and np.array_equal(d, np.round(d)):
        d = d.astype(np.int64)
    f = mk_tm(taa) if taa is not None else None
    l = L()
    if kind == "wrench":
        return sut(l.Wrench, d, None, f)
    if kind == "twist":
        return sut(l.Twist, d, f)
    return sut(l.Screw, d, f)


def val(r, what):
    """Six numbers of a result: object -> getData(); raw (6,) / (6,1) ndarray as is."""
    if isinstance(r, L().Screw):
        a = sut(r.getData)
    elif isinstance(r, np.ndarray):
        a = r
    else:
        raise Violation("%s: result is a %s, not a Screw/Wrench or a 6-array" % (what, type(r).__name__))
    a = np.asarray(a)
    if a.shape not in ((6,), (6, 1)):
        raise Violation("%s: result has shape %s, expected six numbers" % (what, a.shape))
    return a.astype(float).reshape(6)


def check_frame(obj, taa, what, nskip=0):
    """The object records `taa`.  A hop between frames that agree to 1e-8 may keep the old frame object
    (documented shortcut), so after `nskip` such hops the record may lag the target by nskip * 1e-8."""
    f = getattr(obj, "frame_applied", None)
    if not isinstance(f, L().tm):
        raise Violation("%s: frame_applied is %s" % (what, type(f).__name__))
    got = np.asarray(sut(f.gTAA), dtype=float).reshape(-1)
    if got.shape != (6,) or not np.all(np.isfinite(got)):
        raise Violation("%s: frame_applied six-vector %s" % (what, got))
    d = float(np.abs(got - np.asarray(taa)).max())
    lim = EQ_ATOL * max(1, nskip)
    if d > lim:
        raise Violation("%s: recorded frame %s differs from the target frame %s by %.3g (> %.3g)"
                        % (what, got, np.asarray(taa), d, lim))


def apply_hop(x, kind, via, cur_taa, new_taa):
    """One library frame change.  Returns (object to go on with, name of the route actually used)."""
    if via == "fsr" and kind == "wrench":
        r = sut(L().fsr.transformWrenchFrame, x, mk_tm(cur_taa), mk_tm(new_taa))
        if not isinstance(r, L().Wrench):
            raise Violation("transformWrenchFrame returned %s" % type(r).__name__)
        return r, "fsr.transformWrenchFrame"
    if via in ("fsr", "method_old"):
        sut(x.changeFrame, mk_tm(new_taa), mk_tm(cur_taa))
        return x, "changeFrame(new, old)"
    sut(x.changeFrame, mk_tm(new_taa))
    return x, "changeFrame(new)"


def walk(ctx, case, names, vias, bud, idx, check_each=True):
    """Build the object in frame A and lead it through the frames `names`; after every hop compare
    with the oracle (from the ORIGINAL data, never from the library's intermediate) and the recorded frame."""
    kind, d, fr = case["kind"], _d(case), case["fr"]
    _WHOLE[0] = bool(case.get("whole"))
    if _WHOLE[0]:
        ctx.label("data integer-typed")
    try:
        x = mk(kind, d, fr["A"], case["dshape"])
    finally:
        _WHOLE[0] = False
    path = [idx["A"]]
    cur = "A"
    for k, nm in enumerate(names):
        x, used = apply_hop(x, kind, vias[k % len(vias)], fr[cur], fr[nm])
        ctx.label(used)
        path.append(idx[nm])
        cur = nm
        if check_each:
            scale = nrm(d) * bud.path_scale(path)
            what = "%s A->%s" % (kind, "->".join(names[:k + 1]))
            close(val(x, what), move(kind, d, fr["A"], fr[nm]), bud.tol(scale, bud.nskip(path)), what + " vs oracle")
            check_frame(x, fr[nm], what, bud.nskip(path))
    return x, path


def frames_nt(ctx, fr, used, d, mark=True):
    ts = [fr[n] for n in used]
    for i in range(len(ts)):
        for j in range(i + 1, len(ts)):
            ctx.label("%s/%s %s" % (used[i], used[j], rel_class(ts[i], ts[j])))
    distinct = all(not may_shortcut(ts[i], ts[j]) for i in range(len(ts)) for j in range(i + 1, len(ts)))
    if mark:
        ctx.nontrivial(distinct and axes_nonparallel(*ts) and nrm(d) > 0)


def c_frame_history(case, ctx):
    """Frame changes inside an ordinary history of the same objects: a component written between two changes, the
    caller naming the frame the numbers are in on the way back, and frame objects shared between two objects and
    moved in place between their changes.  Every change is the oracle's for the numbers and poses AT THE TIME of
    the call."""
    fr, kind, d, mode = case["fr"], case["kind"], case["d"], case["mode"]
    ctx.label(kind)
    ctx.label("history=" + mode)
    bud = Budget(ctx, [fr["A"], fr["B"], fr["C"]])
    frames_nt(ctx, fr, ["A", "B", "C"], d)
    hopAB, hopBA, hopAC, hopCA = bud.hop(0, 1), bud.hop(1, 0), bud.hop(0, 2), bud.hop(2, 0)
    nAB, nAC = bud.nskip([0, 1]), bud.nskip([0, 2])      # hops between frames equal to 1e-8 may be skipped (documented)
    if mode == "edit_between":
        x = mk(kind, d, fr["A"], case["dshape"])
        sut(x.changeFrame, mk_tm(fr["B"]))
        dB = move(kind, d, fr["A"], fr["B"])
        close(val(x, "A->B"), dB, bud.tol(nrm(d) * hopAB, nAB), "%s A->B vs oracle" % kind)
        i, v = int(case["i"]), float(case["v"])
        sut(x.__setitem__, i, v)
        dB2 = dB.copy()
        dB2[i] = v
        sut(x.changeFrame, mk_tm(fr["A"]))
        scale = max(nrm(dB2), nrm(d) * hopAB) * hopBA
        close(val(x, "A->B, x[%d]=%g, ->A" % (i, v)), move(kind, dB2, fr["B"], fr["A"]), bud.tol(scale, 2 * nAB),
              "%s A->B, component %d written, ->A vs oracle of the edited numbers" % (kind, i))
        check_frame(x, fr["A"], "A->B, edit, ->A", 2 * nAB)
    elif mode == "explicit_old_back":
        x = mk(kind, d, fr["A"], case["dshape"])
        sut(x.changeFrame, mk_tm(fr["B"]))
        dB = move(kind, d, fr["A"], fr["B"])
        # the caller now states that the numbers are in C (explicit old frame) and asks for A
        sut(x.changeFrame, mk_tm(fr["A"]), mk_tm(fr["C"]))
        scale = nrm(d) * hopAB * hopCA
        close(val(x, "A->B then changeFrame(A, old=C)"), move(kind, dB, fr["C"], fr["A"]), bud.tol(scale, nAB + nAC),
              "%s A->B, then changeFrame(A, C) with the old frame named by the caller vs oracle C->A" % kind)
        check_frame(x, fr["A"], "A->B then changeFrame(A, C)", nAB + nAC)
    else:  # shared_frames
        d2 = case["d2"]
        fA = mk_tm(fr["A"])
        fT = mk_tm(fr["C"])
        l = L()
        dd = lambda v: np.array(v, dtype=float).reshape((6, 1) if case["dshape"] == "61" else (6,))
        if kind == "wrench":
            x1, x2 = sut(l.Wrench, dd(d), None, fA), sut(l.Wrench, dd(d2), None, fA)
        elif kind == "twist":
            x1, x2 = sut(l.Twist, dd(d), fA), sut(l.Twist, dd(d2), fA)
        else:
            x1, x2 = sut(l.Screw, dd(d), fA), sut(l.Screw, dd(d2), fA)
        sut(x1.changeFrame, fT)
        close(val(x1, "first object A->T"), move(kind, d, fr["A"], fr["C"]), bud.tol(nrm(d) * hopAC, nAC),
              "%s first object A->T (T at C) vs oracle" % kind)
        for k in range(6):                       # the target frame object is moved in place, component by component
            sut(fT.__setitem__, k, float(fr["B"][k]))
        got = np.asarray(sut(fT.gTAA), dtype=float).reshape(-1)
        if not np.array_equal(got, np.asarray(fr["B"], dtype=float)):
            ctx.skip("the frame object does not read back the written pose (C03's subject)")
        sut(x2.changeFrame, fT)
        close(val(x2, "second object A->T"), move(kind, d2, fr["A"], fr["B"]), bud.tol(nrm(d2) * hopAB, nAB),
              "%s second object (same frame objects; T moved in place to B in between) A->T vs oracle A->B" % kind)
        check_frame(x2, fr["B"], "second object A->T", nAB)


# ------------------------------------------------------------------------------------ frame clauses

def c_frame_oracle(case, ctx):
    """One frame change equals Ad(T_ba) S (Screw/Twist) resp. Ad(T_ab)^T F (Wrench); getters agree."""
    fr, kind, d = case["fr"], case["kind"], _d(case)
    ctx.label(kind)
    bud = Budget(ctx, [fr["A"], fr["B"]])
    frames_nt(ctx, fr, ["A", "B"], d)
    x, path = walk(ctx, case, ["B"], [case["via"]], bud, {"A": 0, "B": 1})
    if kind == "wrench":
        exp = move(kind, d, fr["A"], fr["B"])
        t = bud.tol(nrm(d) * bud.path_scale(path), bud.nskip(path))
        m, f = sut(x.getMoment), sut(x.getForce)
        close(np.asarray(m).reshape(-1), exp[:3], t, "getMoment() after A->B vs oracle")
        close(np.asarray(f).reshape(-1), exp[3:], t, "getForce() after A->B vs oracle")


def c_frame_roundtrip(case, ctx):
    """A->B->A (and A->B->C->A) gives back the original numbers and records A."""
    fr, kind, d = case["fr"], case["kind"], _d(case)
    ctx.label(kind)
    names = ["B", "A"] if case["short"] else ["B", "C", "A"]
    used = ["A", "B"] if case["short"] else ["A", "B", "C"]
    ctx.label("A->" + "->".join(names))
    bud = Budget(ctx, [fr[n] for n in used])
    frames_nt(ctx, fr, used, d)
    idx = {n: i for i, n in enumerate(used)}
    x, path = walk(ctx, case, names, case["vias"], bud, idx, check_each=False)
    scale = nrm(d) * bud.path_scale(path)
    close(val(x, "round trip"), np.asarray(d, dtype=float), bud.tol(scale, bud.nskip(path)),
          "%s A->%s is not the identity" % (kind, "->".join(names)))
    check_frame(x, fr["A"], "round trip", bud.nskip(path))


def c_frame_composition(case, ctx):
    """A->B->C equals A->C (library against library), and both equal the oracle."""
    fr, kind, d = case["fr"], case["kind"], _d(case)
    ctx.label(kind)
    bud = Budget(ctx, [fr["A"], fr["B"], fr["C"]])
    frames_nt(ctx, fr, ["A", "B", "C"], d)
    idx = {"A": 0, "B": 1, "C": 2}
    x, p1 = walk(ctx, case, ["B", "C"], case["vias"], bud, idx)
    y, p2 = walk(ctx, case, ["C"], case["vias"][-1:], bud, idx)
    s1, s2 = nrm(d) * bud.path_scale(p1), nrm(d) * bud.path_scale(p2)
    t = bud.tol(s1, bud.nskip(p1)) + bud.tol(s2, bud.nskip(p2))
    close(val(x, "A->B->C"), val(y, "A->C"), t, "%s A->B->C vs A->C" % kind)


def c_frame_recorded(case, ctx):
    """Along an arbitrary walk through A,B,C (repeats allowed) the object always records the frame it was
    last expressed in, and its numbers are the oracle's for that frame."""
    fr, kind, d = case["fr"], case["kind"], _d(case)
    ctx.label(kind)
    names = [n for n in case["walk"]]
    ctx.label("hops %d" % len(names))
    used = ["A"] + sorted(set(names) - {"A"})
    bud = Budget(ctx, [fr[n] for n in used])
    frames_nt(ctx, fr, used, d)
    walk(ctx, case, names, case["vias"], bud, {n: i for i, n in enumerate(used)})


def c_explicit_old(case, ctx):
    """changeFrame(new, old) / transformWrenchFrame(w, old, new) on an object whose recorded frame is not `old`
    (the caller states the frame the numbers are in, as tests/test_general_fsr.py does): numbers move old->new
    and the object records `new`."""
    fr, kind, d = case["fr"], case["kind"], _d(case)
    ctx.label(kind)
    rec = case["recorded"]
    ctx.label("recorded " + rec)
    bud = Budget(ctx, [fr["A"], fr["B"]])
    frames_nt(ctx, fr, ["A", "B"], d)
    x = mk(kind, d, fr["C"] if rec == "C" else None, case["dshape"])
    via = case["via"] if case["via"] != "method" else "method_old"
    x, used = apply_hop(x, kind, via, fr["A"], fr["B"])
    ctx.label(used)
    path = [0, 1]
    scale = nrm(d) * bud.path_scale(path)
    close(val(x, "explicit old"), move(kind, d, fr["A"], fr["B"]), bud.tol(scale, bud.nskip(path)),
          "%s %s with explicit old frame vs oracle" % (kind, used))
    check_frame(x, fr["B"], "%s %s with explicit old frame (recorded before: %s)" % (kind, used, rec))


def c_pairing(case, ctx):
    """wrench . twist (moment.angular + force.linear) is the same number in every frame."""
    fr, F, V = case["fr"], case["F"], case["V"]
    r1, r2 = list(case["route_w"]), list(case["route_t"])
    end = case["end"]
    r1.append(end)
    r2.append(end)
    used = sorted(set(["A"] + r1 + r2))
    bud = Budget(ctx, [fr[n] for n in used])
    idx = {n: i for i, n in enumerate(used)}
    ctx.label("wrench A->%s | twist A->%s" % ("->".join(r1), "->".join(r2)))
    tk = case["tkind"]
    ctx.label(tk)
    p0 = float(np.dot(F, V))
    w, pw = walk(ctx, {"kind": "wrench", "d": F, "fr": fr, "dshape": case["dshape"]}, r1, case["vias"], bud, idx,
                 check_each=False)
    t, pt = walk(ctx, {"kind": tk, "d": V, "fr": fr, "dshape": case["dshape"]}, r2, case["vias"][::-1], bud, idx,
                 check_each=False)
    fw, vt = val(w, "wrench"), val(t, "twist")
    p1 = float(np.dot(fw, vt))
    scale = nrm(F) * nrm(V) * bud.path_scale(pw) * bud.path_scale(pt)
    tol = bud.tol(scale, bud.nskip(pw) + bud.nskip(pt))
    frames_nt(ctx, fr, used, F, mark=False)
    distinct = all(not may_shortcut(fr[a], fr[b]) for a in used for b in used if a < b)
    ctx.nontrivial(distinct and axes_nonparallel(*[fr[n] for n in used]) and abs(p0) > 1e-6 * nrm(F) * nrm(V)
                   and nrm(F[:3]) > 0 and nrm(F[3:]) > 0 and nrm(V[:3]) > 0 and nrm(V[3:]) > 0)
    if not math.isfinite(p1) or abs(p1 - p0) > tol:
        raise Violation("pairing wrench.twist changed from %.17g (frame A) to %.17g (frame %s): |diff| %.3g > tol %.3g"
                        % (p0, p1, end, abs(p1 - p0), tol))
    # and it is the oracle's pairing in that frame (guards against both being moved by one wrong rule)
    close(fw, move("wrench", F, fr["A"], fr[end]), bud.tol(nrm(F) * bud.path_scale(pw), bud.nskip(pw)),
          "wrench in frame %s vs oracle" % end)
    close(vt, move(tk, V, fr["A"], fr[end]), bud.tol(nrm(V) * bud.path_scale(pt), bud.nskip(pt)),
          "twist in frame %s vs oracle" % end)


def c_force_at_point(case, ctx):
    """Wrench(f at p) in frame A: moment p x f, force f; zero moment in any frame whose origin is p."""
    A, p, f = case["A"], case["p"], case["f"]
    how = case["how"]
    ctx.label(how)
    l = L()
    pos = mk_tm(np.concatenate([p, case["wpos"]]))     # the application point as a tm; its rotation is irrelevant
    if how == "makeWrench default frame":
        A = np.zeros(6)
    if how in ("Wrench(array, frame_applied=A)", "Wrench(list, None, A)"):
        # the point left out: "If not specified, assumes acting on origin in frame applied"
        p = np.zeros(3)
    TA = O.pose_from_taa(A)
    P = np.concatenate([TA[:3, :3] @ p + TA[:3, 3], case["wP"]])   # a frame located at the application point
    if how == "Wrench(array, frame_applied=A)":
        w = sut(l.Wrench, np.array(f, dtype=float), frame_applied=mk_tm(A))
    elif how == "Wrench(list, None, A)":
        w = sut(l.Wrench, [float(v) for v in f], None, mk_tm(A))
    elif how == "Wrench(array)":
        w = sut(l.Wrench, np.array(f, dtype=float), pos, mk_tm(A))
    elif how == "Wrench(list)":
        w = sut(l.Wrench, [float(v) for v in f], pos, mk_tm(A))
    else:
        mag = case["mag"]
        dirv = np.array(f, dtype=float) / mag
        f = dirv * mag                                  # the force that was actually requested
        dv = [float(v) for v in dirv] if case["dir_list"] else dirv.copy()
        if how == "makeWrench default frame":
            w = sut(l.fsr.makeWrench, pos, mag, dv)
        else:
            w = sut(l.fsr.makeWrench, pos, mag, dv, mk_tm(A))
    if not isinstance(w, l.Wrench):
        raise Violation("%s returned %s" % (how, type(w).__name__))
    ctx.nontrivial((nrm(np.cross(p, f)) > 1e-9 * max(1.0, nrm(p) * nrm(f)) or not np.any(p)) and nrm(A[3:]) >= BAND_HI)
    s0 = nrm(f) * (1 + nrm(p))
    t0 = RTOL * s0 + ATOL
    close(np.asarray(sut(w.getMoment)).reshape(-1), np.cross(p, f), t0, "moment of a force at p vs p x f")
    close(np.asarray(sut(w.getForce)).reshape(-1), np.asarray(f, dtype=float), t0, "force component")
    close(val(w, "wrench"), np.concatenate([np.cross(p, f), f]), t0, "getData() vs [p x f; f]")
    check_frame(w, A, how)
    bud = Budget(ctx, [A, P])
    via = case["via"]
    w, used = apply_hop(w, "wrench", via, A, P)
    ctx.label(used)
    scale = s0 * bud.hop(0, 1)
    t1 = bud.tol(scale, bud.nskip([0, 1]))
    RP = O.pose_from_taa(P)[:3, :3]
    close(np.asarray(sut(w.getMoment)).reshape(-1), np.zeros(3), t1, "moment about the point of application")
    close(np.asarray(sut(w.getForce)).reshape(-1), RP.T @ TA[:3, :3] @ f, t1, "force in the frame at the point of application")
    check_frame(w, P, "wrench moved to its point of application", bud.nskip([0, 1]))


# ------------------------------------------------------------------------------------ arithmetic

SCALAR_FORMS = ("int", "float", "np.float64", "np.int64")
ARRAY_FORMS = ("arr6", "arr61")
OBJ_FORMS = ("obj_same", "obj_B")


def scalar_of(form, case):
    if form == "int":
        return int(case["si"])
    if form == "np.int64":
        return np.int64(case["si"])
    if form == "np.float64":
        return np.float64(case["sf"])
    return float(case["sf"])


class Opd:
    """The right/left operand `s` of an arithmetic law in the requested form, its negation in the same form,
    and (harness arithmetic) its six numbers in frame A and in its own frame."""

    def __init__(self, case, ctx, kind):
        form = case["form"]
        self.form = form
        A = case["A"]
        self.frame = None
        self.bud = None
        if form in SCALAR_FORMS:
            s = scalar_of(form, case)
            self.s, self.neg = s, -s
            self.own = float(s) * np.ones(6)
            self.inA = self.own
            self.nonzero = float(s) != 0.0
            self.hop, self.nsk = 1.0, 0
        else:
            sv = np.asarray(case["sv"], dtype=float)
            self.own = sv
            self.nonzero = nrm(sv) > 0
            if form == "arr6":
                self.s, self.neg = sv.copy(), -sv
                self.inA = sv
                self.hop, self.nsk = 1.0, 0
            elif form == "arr61":
                self.s, self.neg = sv.reshape(6, 1).copy(), -sv.reshape(6, 1)
                self.inA = sv
                self.hop, self.nsk = 1.0, 0
            else:
                B = A if form == "obj_same" else case["B"]
                self.frame = np.asarray(B, dtype=float)
                self.bud = Budget(ctx, [A, B])
                ctx.label("operand frame " + rel_class(A, B))
                self.s = mk(kind, sv, B, case["dshape"])
                self.neg = mk(kind, -sv, B, case["dshape"])
                self.inA = move(kind, sv, B, A)
                self.hop = self.bud.hop(0, 1)
                self.nsk = 2 if may_shortcut(A, B) else 0
                self.nonzero = self.nonzero and not may_shortcut(A, B)
        ctx.label("operand " + form)

    def tol(self, a_norm):
        scale = (a_norm + nrm(self.own) * self.hop) * self.hop
        if self.bud is not None:
            return self.bud.tol(scale, self.nsk)
        return RTOL * scale + ATOL


def result_frame(r, taa, what):
    if isinstance(r, L().Screw):
        check_frame(r, taa, what)


def c_add_sub_cancel(case, ctx):
    """(a+b)-b = a and (b+a)-b = a for b in every operand form."""
    kind, A, da = case["kind"], case["A"], np.asarray(case["d"], dtype=float)
    ctx.label(kind)
    b = Opd(case, ctx, kind)
    a = mk(kind, da, A, case["dshape"])
    left = case["order"] == "a+b"
    ctx.label(case["order"])
    ctx.nontrivial(b.nonzero and nrm(da) > 0)
    t = b.tol(nrm(da))
    if left or b.frame is None:
        r1 = sut(lambda: a + b.s) if left else sut(lambda: b.s + a)
        close(val(r1, case["order"]), da + b.inA, t, "%s %s with %s operand" % (kind, case["order"], b.form))
        result_frame(r1, A, case["order"])
        r = sut(lambda: r1 - b.s)
        close(val(r, "(%s)-b" % case["order"]), da, t, "%s (%s)-b vs a, %s operand" % (kind, case["order"], b.form))
        result_frame(r, A, "(%s)-b" % case["order"])
    else:
        # b is an object on the left: the sum lives in b's frame
        r1 = sut(lambda: b.s + a)
        aB = move(kind, da, A, b.frame)
        close(val(r1, "b+a"), b.own + aB, t, "%s b+a (b an object in another frame)" % kind)
        result_frame(r1, b.frame, "b+a")
        r = sut(lambda: r1 - b.s)
        close(val(r, "(b+a)-b"), aB, t, "%s (b+a)-b vs a expressed in b's frame" % kind)
        result_frame(r, b.frame, "(b+a)-b")


def c_sub_is_add_neg(case, ctx):
    """a-s = a+(-s) for s in every operand form (and both equal the harness' own a - s)."""
    kind, A, da = case["kind"], case["A"], np.asarray(case["d"], dtype=float)
    ctx.label(kind)
    s = Opd(case, ctx, kind)
    a = mk(kind, da, A, case["dshape"])
    ctx.nontrivial(s.nonzero)
    t = s.tol(nrm(da))
    lhs = sut(lambda: a - s.s)
    rhs = sut(lambda: a + s.neg)
    vl, vr = val(lhs, "a-s"), val(rhs, "a+(-s)")
    close(vl, vr, 2 * t, "%s a-s vs a+(-s), %s operand" % (kind, s.form))
    close(vl, da - s.inA, t, "%s a-s vs the difference of the numbers, %s operand" % (kind, s.form))
    result_frame(lhs, A, "a-s")
    result_frame(rhs, A, "a+(-s)")


def c_rsub_is_neg_sub(case, ctx):
    """s-a = -(a-s) for s in every operand form (negation taken on the numbers; for an object s in another
    frame the two sides are compared in s's frame)."""
    kind, A, da = case["kind"], case["A"], np.asarray(case["d"], dtype=float)
    ctx.label(kind)
    s = Opd(case, ctx, kind)
    a = mk(kind, da, A, case["dshape"])
    ctx.nontrivial(s.nonzero)
    t = s.tol(nrm(da))
    lhs = sut(lambda: s.s - a)
    rhs = sut(lambda: a - s.s)
    vl, vr = val(lhs, "s-a"), val(rhs, "a-s")
    if s.frame is None:
        close(vl, -vr, 2 * t, "%s s-a vs -(a-s), %s operand" % (kind, s.form))
        close(vl, s.inA - da, t, "%s s-a vs the difference of the numbers, %s operand" % (kind, s.form))
        result_frame(lhs, A, "s-a")
    else:
        close(vl, -move(kind, vr, A, s.frame), 2 * t, "%s s-a vs -(a-s) expressed in s's frame" % kind)
        close(vl, s.own - move(kind, da, A, s.frame), t, "%s s-a vs oracle (left operand's frame)" % kind)
        result_frame(lhs, s.frame, "s-a")
    result_frame(rhs, A, "a-s")


def c_scale_unscale(case, ctx):
    """(k*a)/k = a and (a*k)/k = a for every scalar form of k != 0."""
    kind, A, da = case["kind"], case["A"], np.asarray(case["d"], dtype=float)
    ctx.label(kind)
    form = case["form"]
    ctx.label("k " + form)
    ctx.label(case["order"])
    k = scalar_of(form, case)
    if float(k) == 0.0:
        ctx.skip("k = 0")
    a = mk(kind, da, A, case["dshape"])
    ctx.nontrivial(float(k) != 1.0 and nrm(da) > 0)
    r1 = sut(lambda: k * a) if case["order"] == "k*a" else sut(lambda: a * k)
    t1 = RTOL * abs(float(k)) * nrm(da) + ATOL
    close(val(r1, case["order"]), float(k) * da, t1, "%s %s, k %s" % (kind, case["order"], form))
    result_frame(r1, A, case["order"])
    r = sut(lambda: r1 / k)
    close(val(r, "(%s)/k" % case["order"]), da, RTOL * nrm(da) + ATOL, "%s (%s)/k vs a, k %s" % (kind, case["order"], form))
    result_frame(r, A, "(%s)/k" % case["order"])
    r2 = sut(lambda: a / k)
    close(val(r2, "a/k"), da / float(k), RTOL * nrm(da) / abs(float(k)) + ATOL, "%s a/k, k %s" % (kind, form))
    result_frame(r2, A, "a/k")


def c_cross_frame_sum(case, ctx):
    """a (+|-) b with a in frame A and b in frame B = the sum after expressing b in A; recorded frame A."""
    kind, A, B = case["kind"], case["A"], case["B"]
    da, db = np.asarray(case["d"], dtype=float), np.asarray(case["sv"], dtype=float)
    ctx.label(kind)
    op = case["op"]
    ctx.label("op " + op)
    ctx.label("frames " + rel_class(A, B))
    bud = Budget(ctx, [A, B])
    a = mk(kind, da, A, case["dshape"])
    b = mk(kind, db, B, case["dshape"])
    ctx.nontrivial(not may_shortcut(A, B) and axes_nonparallel(A, B) and nrm(da) > 0 and nrm(db) > 0)
    if op == "+":
        r = sut(lambda: a + b)
    elif op == "-":
        r = sut(lambda: a - b)
    elif op == "+=":
        def f():
            x = a
            x += b
            return x
        r = sut(f)
    else:
        def f():
            x = a
            x -= b
            return x
        r = sut(f)
    sign = 1.0 if op in ("+", "+=") else -1.0
    scale = nrm(da) + nrm(db) * bud.hop(0, 1)
    t = bud.tol(scale, 1 if may_shortcut(A, B) else 0)
    if not isinstance(r, L().Screw):
        raise Violation("%s %s %s returned %s" % (kind, op, kind, type(r).__name__))
    close(val(r, "a%sb" % op), da + sign * move(kind, db, B, A), t, "%s a %s b across frames vs oracle" % (kind, op))
    check_frame(r, A, "a %s b" % op)


KEEP_OPS = ("a+s", "s+a", "a-s", "s-a", "k*a", "a*k", "a/k")


def c_creeping_frames(case, ctx):
    """A long chain of frame changes, each frame a few 1e-9 further along one direction than the previous one (every
    single hop is inside the library's documented 1e-8 same-frame shortcut), then one change to a far frame C.
    Whatever the shortcut does per hop, the object must never be further than ONE shortcut width from the truth:
    the final coordinates equal the direct A -> C result (oracle) to 1e-8 relative + the allowance of one skipped
    hop, independently of the number of hops.  (A label that follows every sub-tolerance step while the numbers stay
    put drifts by hops x step.)"""
    kind, d = case["kind"], np.asarray(case["d"], dtype=float)
    A, C = np.asarray(case["A"], dtype=float), np.asarray(case["C"], dtype=float)
    u = np.asarray(case["dir"], dtype=float)
    step, hops = float(case["step"]), int(case["hops"])
    ctx.label(kind)
    ctx.label("hops %s" % ("<100" if hops < 100 else "<300" if hops < 300 else ">=300"))
    ctx.nontrivial(nrm(d) > 0 and hops * step > 5e-8)
    fr = Budget(ctx, [A, C])
    x = mk(kind, d, A, case["dshape"])
    cur = A.copy()
    for k in range(hops):
        nxt = cur.copy()
        nxt[:3] = nxt[:3] + step * u            # translation only: relative rotations below 1e-6 are dropped anyway
        sut(x.changeFrame, mk_tm(nxt))
        cur = nxt
    sut(x.changeFrame, mk_tm(C))
    got = val(x, "after the chain")
    want = move(kind, d, A, C)
    scale = nrm(d) * (1.0 + nrm(C[:3] - A[:3])) * (1.0 + hops * step)
    close(got, want, fr.tol(scale, nskip=1), "%d sub-tolerance hops (%.1e each) then -> C, vs the direct A -> C result"
          % (hops, step))
    check_frame(x, C, "after the chain", 1)


def c_result_keeps_kind(case, ctx):
    """Whatever object an arithmetic operator returns is again a wrench (resp. twist-like) in the left
    operand's frame: re-expressing THE RESULT in another frame follows the same oracle formula."""
    kind, A, C = case["kind"], case["A"], case["C"]
    da = np.asarray(case["d"], dtype=float)
    ctx.label(kind)
    op = case["op"]
    ctx.label(op)
    a = mk(kind, da, A, case["dshape"])
    if op in ("k*a", "a*k", "a/k"):
        k = scalar_of(case["kform"], case)
        if float(k) == 0.0:
            ctx.skip("k = 0")
        ctx.label("k " + case["kform"])
        if op == "a/k":
            r, ev = sut(lambda: a / k), da / float(k)
        else:
            r, ev = (sut(lambda: k * a) if op == "k*a" else sut(lambda: a * k)), float(k) * da
        F = np.asarray(A, dtype=float)
        frames = [A, C]
        extra = 1.0
        nsk = 0
    else:
        s = Opd(case, ctx, kind)
        if op == "a+s":
            r, ev, F = sut(lambda: a + s.s), da + s.inA, A
        elif op == "a-s":
            r, ev, F = sut(lambda: a - s.s), da - s.inA, A
        elif op == "s+a":
            r = sut(lambda: s.s + a)
            if s.frame is None:
                ev, F = s.inA + da, A
            else:
                ev, F = s.own + move(kind, da, A, s.frame), s.frame
        else:
            r = sut(lambda: s.s - a)
            if s.frame is None:
                ev, F = s.inA - da, A
            else:
                ev, F = s.own - move(kind, da, A, s.frame), s.frame
        frames = [A, C] + ([s.frame] if s.frame is not None else [])
        extra = s.hop * s.hop
        nsk = s.nsk
    if not isinstance(r, L().Screw):
        ctx.label("raw array result")
        val(r, op)
        return
    ctx.label("object result")
    bud = Budget(ctx, frames)
    F = np.asarray(F, dtype=float)
    iF = 0 if F is A or np.array_equal(F, np.asarray(A)) else 2
    check_frame(r, F, op)
    ctx.nontrivial(not may_shortcut(F, C) and nrm(ev) > 0 and axes_nonparallel(F, C))
    sut(r.changeFrame, mk_tm(C))
    scale = (nrm(da) + nrm(ev)) * extra * bud.hop(iF, 1)
    t = bud.tol(scale, nsk + (1 if may_shortcut(F, C) else 0))
    close(val(r, op), move(kind, ev, F, C), t,
          "%s: result of %s (a %s) re-expressed in another frame vs the %s rule" %
          (kind, op, type(r).__name__, "Ad(T_ab)^T F" if kind == "wrench" else "Ad(T_ba) S"))
    check_frame(r, C, "result of %s after changeFrame" % op)


# ------------------------------------------------------------------------------------ strategies

def _clip_frame(t):
    t = np.array(t, dtype=float)
    n = nrm(t[:3])
    if n > 10.0:
        t[:3] *= (10.0 / n) * (1 - 1e-12)
    a = nrm(t[3:])
    if a > MAXANG:
        t[3:] *= (MAXANG / a) * (1 - 1e-12)
    return t


# Lean re-statement of vf.gen.taas / positions / unit_vectors with the primitive strategies built once
# (building strategies inside a composite costs ~10 ms per case in validation alone).
_U11 = G.floats(-1.0, 1.0)
_AZ = G.floats(-math.pi, math.pi)
# rotation angles: ~80 % generic, the rest on the boundaries the library branches on (0, the 1e-6 NearZero cut-off
# from both sides, the 1e-9 / 2e-6 edges of the harness' band, the quantifier's maximum)
_GEN_ANG = G.floats(1e-3, MAXANG)
_ANG = st.one_of(
    _GEN_ANG, _GEN_ANG, _GEN_ANG, _GEN_ANG, _GEN_ANG, _GEN_ANG, _GEN_ANG, _GEN_ANG, G.floats(0.0, MAXANG),
    st.sampled_from([math.pi / 2, math.pi / 3, 1.0, MAXANG, MAXANG, 3.0]),
    st.sampled_from([0.0, 0.0, 0.0, 1e-9, 1e-7, 5e-7, math.nextafter(1e-6, 0), 1e-6, math.nextafter(1e-6, 1), 2e-6, 3e-6]),
    G.log_uniform(1e-10, 1e-4),
)
_AXIS = st.sampled_from([np.array(a, dtype=float) for a in G._AXES])
_UKIND = st.sampled_from(["axis", "plane", "generic", "generic", "generic"])
_PKIND = st.sampled_from(["zero", "unit", "unit", "log", "log", "axis"])
_I02 = st.integers(0, 2)
_SIGN = st.sampled_from([1.0, -1.0])


def _draw_unit(draw, kind=None):
    kind = kind or draw(_UKIND)
    if kind == "axis":
        return draw(_AXIS).copy()
    if kind == "plane":
        a = draw(_AZ)
        v = [math.cos(a), math.sin(a)]
        v.insert(draw(_I02), 0.0)
        return np.array(v, dtype=float)
    z = draw(_U11)
    a = draw(_AZ)
    r = math.sqrt(max(0.0, 1 - z * z))
    v = np.array([r * math.cos(a), r * math.sin(a), z], dtype=float)
    n = np.linalg.norm(v)
    return v / n if n > 0 else np.array([0.0, 0.0, 1.0])


def _draw_pos(draw, maxnorm, logmag):
    kind = draw(_PKIND)
    if kind == "zero":
        return np.zeros(3)
    if kind == "unit":
        return np.array([draw(_U11), draw(_U11), draw(_U11)]) * min(1.0, maxnorm)
    if kind == "axis":
        v = np.zeros(3)
        v[draw(_I02)] = draw(logmag) * draw(_SIGN)
        return v
    return _draw_unit(draw, "generic") * draw(logmag)


_LOG10 = G.log_uniform(1e-3, 10.0)
_LOG5 = G.log_uniform(1e-3, 5.0)


@st.composite
def _frames(draw, maxnorm=10.0):
    p = _draw_pos(draw, maxnorm, _LOG10 if maxnorm == 10.0 else _LOG5)
    w = draw(_ANG) * _draw_unit(draw)
    return np.concatenate([p, w])


@st.composite
def _plain_frames(draw, maxnorm=10.0):
    """Unexceptional frame: rotation angle in [1e-3, pi-1e-3], any axis class."""
    p = _draw_pos(draw, maxnorm, _LOG10 if maxnorm == 10.0 else _LOG5)
    w = draw(_GEN_ANG) * _draw_unit(draw)
    return np.concatenate([p, w])


_FRAMES10 = _frames(10.0)
_FRAMES5 = _frames(5.0)
_PLAIN10 = _plain_frames(10.0)
_ROTVEC = _FRAMES10.map(lambda t: t[3:])
_POS5 = _FRAMES5.map(lambda t: t[:3])
_POS10 = _FRAMES10.map(lambda t: t[:3])


_SMALL = [0.0, 1e-9, 5e-9, 9.9e-9]
_OVER = [1.01e-8, 2e-8, 1e-7, 1e-6]
_S_SMALL = st.sampled_from(_SMALL)
_S_OVER = st.sampled_from(_OVER)
_I05 = st.integers(0, 5)
_NEAR_MODE = st.sampled_from(["equal", "within", "within", "edge", "over", "close_rel", "close_rel", "band_rot",
                              "same_rot", "same_pos"])
_REL_MAG = G.log_uniform(1e-8, 1e-3)
_TINY_ANG = G.log_uniform(1e-10, 1e-5)
_BOOL = st.booleans()


def _draw_near(draw, A):
    """A frame in a chosen close relation to A (all inside the quantifier's domain)."""
    A = np.asarray(A, dtype=float)
    mode = draw(_NEAR_MODE)
    if mode == "equal":
        return A.copy()
    if mode in ("within", "over", "edge"):
        dl = np.zeros(6)
        for i in range(6):
            dl[i] = draw(_S_SMALL) * draw(_SIGN)
        if mode == "over":
            dl[draw(_I05)] = draw(_S_OVER) * draw(_SIGN)
        if mode == "edge":
            dl[draw(_I05)] = 1e-8 * draw(_SIGN)
        return _clip_frame(A + dl)
    if mode == "close_rel":
        # distinct frames that differ by a RELATIVELY small amount (1e-8..1e-3 of the coordinate) in one or two
        # coordinates: an equality test with a relative tolerance would wrongly merge them
        dl = np.zeros(6)
        for _ in range(draw(st.integers(1, 2))):
            i = draw(_I05)
            mag = abs(A[i]) if A[i] != 0 else 1.0
            dl[i] = mag * draw(_REL_MAG) * draw(_SIGN)
        return _clip_frame(A + dl)
    if mode == "band_rot":
        small = _draw_unit(draw) * draw(_TINY_ANG)
        w = O.log3(O.exp3(A[3:]) @ O.exp3(small))
        p = A[:3] if draw(_BOOL) else draw(_POS10)
        return _clip_frame(np.concatenate([p, w]))
    other = draw(_FRAMES10)
    if mode == "same_rot":
        return np.concatenate([other[:3], A[3:]])
    return np.concatenate([A[:3], other[3:]])


_I03 = st.integers(0, 3)
_I04 = st.integers(0, 4)


_FIX = [np.array([0.5, -0.25, 1.0, 0.3, -0.5, 0.7]), np.array([-1.0, 0.75, 0.25, -0.6, 0.2, 0.45])]


def _separate(F, others, k):
    """Hypothesis' mutator likes to repeat earlier draws, which makes 'unrelated' frames coincide or share
    an axis.  In the plain half of the mixture such a frame is composed with a fixed generic motion instead
    (a deterministic function of the draws, so replay/shrinking are unaffected)."""
    if all(not may_shortcut(F, o) and axes_nonparallel(F, o) for o in others):
        return F
    w = O.log3(O.exp3(F[3:]) @ O.exp3(_FIX[k][3:]))
    return _clip_frame(np.concatenate([F[:3] + _FIX[k][:3], w]))


def _draw_pair(draw):
    if draw(_BOOL):
        A = draw(_PLAIN10)
        return A, _separate(draw(_PLAIN10), [A], 0)
    A = draw(_FRAMES10)
    B = _draw_near(draw, A) if draw(_I02) == 0 else draw(_FRAMES10)
    return A, B


@st.composite
def frame_triples(draw):
    if draw(_BOOL):         # half of the cases: three unrelated, unexceptional frames
        A = draw(_PLAIN10)
        B = _separate(draw(_PLAIN10), [A], 0)
        return {"A": A, "B": B, "C": _separate(draw(_PLAIN10), [A, B], 1)}
    A = draw(_FRAMES10)
    B = _draw_near(draw, A) if draw(_I03) == 0 else draw(_FRAMES10)
    k = draw(_I04)
    C = _draw_near(draw, A) if k == 0 else (_draw_near(draw, B) if k == 1 else draw(_FRAMES10))
    return {"A": A, "B": B, "C": C}


_E6 = [np.eye(6)[i] for i in range(6)]


def _six_vectors():
    return st.one_of(
        G.vec6(1.0), G.vec6(10.0), G.vec6(1e3),
        G.twists(vmax=1e2, ang=G.angles_below(3.0)),
        G.vec(3, -10, 10).map(lambda v: np.concatenate([v, np.zeros(3)])),
        G.vec(3, -10, 10).map(lambda v: np.concatenate([np.zeros(3), v])),
        st.sampled_from(_E6 + [np.zeros(6), np.ones(6), np.arange(1.0, 7.0)]),
    )


_SIX = _six_vectors()
_SIX_FULL = st.one_of(G.vec6(1.0), G.vec6(10.0), G.vec6(1e3), G.twists(vmax=1e2, ang=G.angles_below(3.0)), _SIX)


def six_vectors():
    return _SIX


KINDS = st.sampled_from(["screw", "wrench", "wrench", "twist"])
VIAS = st.sampled_from(["method", "method", "method_old", "fsr"])
DSHAPE = st.sampled_from(["6", "61"])
SCAL_F = st.one_of(G.floats(-1e3, 1e3), G.signed_log_uniform(1e-3, 1e3), st.sampled_from([0.0, 1.0, -1.0, 0.5, 2.0]))
SCAL_I = st.one_of(st.integers(-10, 10), st.integers(-1000, 1000))
K_F = st.one_of(G.signed_log_uniform(1e-3, 1e3), st.sampled_from([1.0, -1.0, 0.5, 2.0, 3.0, 0.1]))
K_I = st.one_of(st.integers(1, 10), st.integers(-10, -1), st.integers(1, 1000))


def _frame_case(**extra):
    base = {"kind": KINDS, "dshape": DSHAPE, "fr": frame_triples(), "d": six_vectors(),
            "whole": st.sampled_from([False, False, False, True])}
    base.update(extra)
    return st.fixed_dictionaries(base)


def _draw_close_pair(draw):
    """Frame pairs for the cross-frame clauses: half of them in a CLOSE relation (equal / within / just over the
    1e-8 shortcut / relatively close / band), because that is where an operator decides whether to reconcile."""
    if draw(_BOOL):
        return _draw_pair(draw)
    A = draw(_FRAMES10)
    return A, _draw_near(draw, A)


def _arith_case(forms, extra=None, close=False):
    s_forms = st.sampled_from(forms)
    extra = dict(extra or {})

    @st.composite
    def build(draw):
        A, B = _draw_close_pair(draw) if close else _draw_pair(draw)
        case = {"kind": draw(KINDS), "dshape": draw(DSHAPE), "A": A, "B": B, "d": draw(_SIX),
                "form": draw(s_forms), "sf": draw(SCAL_F), "si": draw(SCAL_I), "sv": draw(_SIX)}
        for k, v in extra.items():
            case[k] = draw(v)
        return case
    return build()


ALL_FORMS = SCALAR_FORMS + ARRAY_FORMS + OBJ_FORMS + ("float", "arr6", "obj_B")

S_FRAME_ORACLE = _frame_case(via=VIAS)
S_ROUNDTRIP = _frame_case(vias=st.lists(VIAS, min_size=1, max_size=3), short=st.booleans())
S_COMPOSITION = _frame_case(vias=st.lists(VIAS, min_size=1, max_size=2))
S_RECORDED = _frame_case(vias=st.lists(VIAS, min_size=1, max_size=3),
                         walk=st.lists(st.sampled_from(["A", "B", "C"]), min_size=1, max_size=5))
@st.composite
def _plain_triples(draw):
    A = draw(_PLAIN10)
    B = _separate(draw(_PLAIN10), [A], 0)
    return {"A": A, "B": B, "C": _separate(draw(_PLAIN10), [A, B], 1)}


S_HISTORY = st.fixed_dictionaries({
    "kind": KINDS, "dshape": DSHAPE, "fr": st.one_of(_plain_triples(), frame_triples()), "d": six_vectors(), "d2": six_vectors(),
    "mode": st.sampled_from(["edit_between", "explicit_old_back", "shared_frames", "shared_frames"]),
    "i": st.integers(0, 5), "v": st.one_of(G.floats(-10.0, 10.0), st.sampled_from([0.0, 1.0, -2.5]))})
S_EXPLICIT = _frame_case(via=st.sampled_from(["method_old", "fsr"]), recorded=st.sampled_from(["identity", "C"]))
S_PAIRING = st.fixed_dictionaries({
    "fr": frame_triples(), "F": _SIX_FULL, "V": _SIX_FULL, "dshape": DSHAPE,
    "tkind": st.sampled_from(["twist", "screw"]), "end": st.sampled_from(["B", "C"]),
    "route_w": st.sampled_from([[], ["C"], ["B"], ["B", "A"], ["C", "B"]]),
    "route_t": st.sampled_from([[], ["B"], ["C"], ["C", "A"], ["B", "C"]]),
    "vias": st.lists(VIAS, min_size=1, max_size=3)})


_FORCE = st.one_of(G.vec(3, -1, 1), G.vec(3, -1e3, 1e3), _ROTVEC.map(lambda w: w / nrm(w) if nrm(w) > 0 else w),
                   st.sampled_from([np.array([0.0, 0.0, -9.81]), np.array([0.0, 0.0, 1.0])]))
_HOW = st.sampled_from(["Wrench(array)", "Wrench(list)", "makeWrench", "makeWrench", "makeWrench default frame",
                        "Wrench(array, frame_applied=A)", "Wrench(list, None, A)"])
_MAG = st.one_of(G.signed_log_uniform(1e-2, 1e2), st.sampled_from([1.0, 5.0, 20.0]))


@st.composite
def _force_case(draw):
    return {"A": draw(_FRAMES5), "p": draw(_POS5), "f": draw(_FORCE), "how": draw(_HOW), "mag": draw(_MAG),
            "dir_list": draw(_BOOL), "wpos": draw(_ROTVEC), "wP": draw(_ROTVEC), "via": draw(VIAS)}


_KEEP_BASE = _arith_case(ARRAY_FORMS + OBJ_FORMS + ("arr6", "obj_B"))
_S_KEEP_OPS = st.sampled_from(KEEP_OPS)
_S_KFORM = st.sampled_from(SCALAR_FORMS)


@st.composite
def _keep_case(draw):
    case = draw(_KEEP_BASE)
    case["op"] = draw(_S_KEEP_OPS)
    case["kform"] = draw(_S_KFORM)
    case["C"] = _draw_near(draw, case["A"]) if draw(_I02) == 0 else draw(_FRAMES10)
    if case["op"] in ("k*a", "a*k", "a/k"):
        case["sf"] = draw(K_F)
        case["si"] = draw(K_I)
    return case


CLAUSES = [
    Clause("frame_change_matches_oracle", c_frame_oracle, S_FRAME_ORACLE, 1200, 8000),
    Clause("frame_roundtrip_identity", c_frame_roundtrip, S_ROUNDTRIP, 1000, 8000),
    Clause("frame_composition", c_frame_composition, S_COMPOSITION, 1000, 8000),
    Clause("frame_recorded_is_target", c_frame_recorded, S_RECORDED, 1000, 8000),
    Clause("explicit_old_frame", c_explicit_old, S_EXPLICIT, 800, 6000),
    Clause("frame_change_in_object_history", c_frame_history, S_HISTORY, 1200, 8000),
    Clause("pairing_invariant", c_pairing, S_PAIRING, 1000, 8000),
    Clause("force_at_point", c_force_at_point, _force_case(), 1000, 8000),
    Clause("cross_frame_sum", c_cross_frame_sum,
           _arith_case(("obj_B",), {"op": st.sampled_from(["+", "-", "+=", "-="])}, close=True), 3000, 12000),
    Clause("add_sub_cancel", c_add_sub_cancel,
           _arith_case(ALL_FORMS, {"order": st.sampled_from(["a+b", "b+a"])}), 1200, 8000),
    Clause("sub_is_add_neg", c_sub_is_add_neg, _arith_case(ALL_FORMS), 1200, 8000),
    Clause("rsub_is_neg_sub", c_rsub_is_neg_sub, _arith_case(ALL_FORMS), 1200, 8000),
    Clause("scale_unscale", c_scale_unscale,
           _arith_case(SCALAR_FORMS, {"order": st.sampled_from(["k*a", "a*k"]), "sf": K_F, "si": K_I}), 1000, 8000),
    Clause("arith_result_keeps_kind", c_result_keeps_kind, _keep_case(), 1200, 8000),
    Clause("creeping_frames_do_not_drift", c_creeping_frames, st.fixed_dictionaries({
        "kind": KINDS, "dshape": DSHAPE, "A": _FRAMES10, "C": _FRAMES10, "d": _SIX,
        "dir": G.generic_unit_vectors(), "step": G.floats(2e-9, 9e-9), "hops": st.integers(20, 400)}), 150, 2000),
]
