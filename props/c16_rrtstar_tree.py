"""C16 -- RRT* builds a collision-free, cost-consistent tree and returns a path in it.

Code under test: RRTStar.findPath(goal) and RRTStar.findPathGeneral(lambda: rrt.generalGenerateTree(gen, dist, coll), goal).

How the run is observed (no hook in the library):
  * general API: the three callbacks are harness functions that wrap the defaults (or harness-defined variants) and
    record every call; findPath: the same recorders are installed as *instance* attributes randomPos / distance /
    obstruction of the planner (generateTree looks them up on the instance at call time).
  * the tree is read through r6_tree_graph.getAll() / getCount(), nodes through getPosition()/getParent()/getCost().

The spatial index stores *pickled copies*: every object handed out by the index is a fresh deep copy of the node
and of its whole ancestor chain.  So nodes are identified by the exact value of their six-vector (pickling keeps it
bit for bit), never by identity; "the tree" is the map  pose -> (parent pose, cost)  read from getAll().

Insertion-time clauses are decided by replaying the recorded insertion order (generated samples that ended up in
the tree, in generation order) against a brute-force nearest-neighbour search with the index's metric (measured:
rtree orders by Euclidean distance over the six coordinates [x y z rx ry rz]); ties are tolerated.
"""
import contextlib
import io
import math
import os
import random
import signal
import sys

import numpy as np
from hypothesis import strategies as st

from vf import gen as G
from vf.core import Clause, Inconclusive, Violation, sut

PROPERTY_ID = "C16"
RULE = ("Hypothesis-generated planner runs: {random seed, start, goal, bounds (position half-width 1..10, rotation bounds "
        "default/narrow/zero), 0..12 boxes not containing the start and covering < 1/3 of the bounds or generateTerrain, "
        "iterations 1..400 (quick <= 120), distance mode 0/1, neighbour limit 1..20, min/max connection distance, API "
        "findPath | findPathGeneral(generalGenerateTree) with generator / distance / collision callbacks wrapping the "
        "defaults or harness variants}. Non-trivial: >= 20 iterations, >= 1 box and >= 1 node attached to a parent other "
        "than its then-nearest node; distinct by digest of the case.")
ASSUMPTIONS = [
    "the index's nearest-neighbour metric is Euclidean distance over the six pose coordinates (measured on rtree 1.4.1: "
    "300/300 7-nearest queries equal the brute-force L2 order, L1/Linf do not); near-ties (relative 1e-12 in squared "
    "distance) are tolerated in both directions",
    "nodes are identified by the exact value of their six-vector; a run whose generator produced the same six-vector "
    "twice is skipped (probability ~0 with the default generator)",
    "the distance / collision functions are the ones supplied to the planner (library defaults or harness variants); "
    "they are pure, so the check re-evaluates them (memoised per ordered pair of poses)",
    "a run that uses more than 20 s of CPU time (rejection sampling that does not terminate) is counted inconclusive",
    "stored costs are compared at 1e-9 * max(1, cost)",
]
SHARDS = {"quick": 4, "thorough": 16}

GUARD_S = 20.0
RTOL = 1e-9
TIE = 1e-12

_lib = {}


def lib():
    if not _lib:
        from basic_robotics.general import tm
        from basic_robotics.path_planning import PathNode, RRTStar
        _lib.update(tm=tm, PathNode=PathNode, RRTStar=RRTStar)
    return _lib


def warm():
    L = lib()
    r = L["RRTStar"](L["tm"]([0.0, 0, 0, 0, 0, 0]))
    r.addObstruction([1, 1, 1], [2, 2, 2])
    r.iterations = 3
    for dm in (0, 1):
        r.dmode = dm
        with contextlib.redirect_stdout(io.StringIO()):
            r.distance(L["tm"]([0.0, 0, 0, 0.1, 0, 0]), L["tm"]([1.0, 0, 0, 0, 0.2, 0]))


class _Guard:
    """Runaway guard on the process's own CPU time (ITIMER_VIRTUAL), so that a loaded machine cannot turn a normal
    run into an inconclusive one.  Unlike a one-shot alarm it keeps firing every 50 ms, because the library swallows
    exceptions in a bare `except:` (fsr.distance) and a single signal landing there would be lost."""

    def __init__(self, seconds):
        self.seconds = seconds

    def _fire(self, signum, frame):
        raise Inconclusive("guard %ss of CPU time" % self.seconds)

    def __enter__(self):
        self.old = signal.signal(signal.SIGVTALRM, self._fire)
        signal.setitimer(signal.ITIMER_VIRTUAL, self.seconds, 0.05)
        return self

    def __exit__(self, *a):
        signal.setitimer(signal.ITIMER_VIRTUAL, 0, 0)
        signal.signal(signal.SIGVTALRM, self.old)
        return False


# ------------------------------------------------------------------------------------------------
# helpers
# ------------------------------------------------------------------------------------------------

def vec6(pose):
    v = np.asarray(pose.gTAA(), dtype=float).reshape(-1)
    if v.shape != (6,):
        raise Violation("pose six-vector has shape %s" % (v.shape,))
    return v


def key(pose):
    return vec6(pose).tobytes()


def scalar(x, what):
    a = np.asarray(x, dtype=float).reshape(-1)
    if a.size != 1:
        raise Violation("%s is not a scalar: shape %s" % (what, np.asarray(x).shape))
    v = float(a[0])
    if not math.isfinite(v):
        raise Violation("%s is not finite: %r" % (what, v))
    return v


def seg_box_float(p, q, lo, hi):
    """Plain float slab clipping (harness-supplied detector variant; any pure detector will do)."""
    t0, t1 = 0.0, 1.0
    for i in range(3):
        d = q[i] - p[i]
        if d == 0.0:
            if p[i] < lo[i] or p[i] > hi[i]:
                return False
            continue
        ta = (lo[i] - p[i]) / d
        tb = (hi[i] - p[i]) / d
        if ta > tb:
            ta, tb = tb, ta
        t0 = max(t0, ta)
        t1 = min(t1, tb)
        if t0 > t1:
            return False
    return True


class Recorder:
    """Harness callbacks: wrap an underlying generator / distance / detector, record and memoise."""

    def __init__(self):
        self.generated = []          # PathNode originals in generation order
        self.dist_calls = 0
        self.coll_calls = 0
        self.dist_memo = {}
        self.coll_memo = {}
        self.gen_fn = self.dist_fn = self.coll_fn = None

    def gen(self):
        n = self.gen_fn()
        self.generated.append(n)
        return n

    def dist(self, p1, p2):
        self.dist_calls += 1
        k = (key(p1), key(p2))
        if k not in self.dist_memo:
            self.dist_memo[k] = self.dist_fn(p1, p2)
        return self.dist_memo[k]

    def coll(self, n1, n2):
        self.coll_calls += 1
        k = (key(n1.getPosition()), key(n2.getPosition()))
        if k not in self.coll_memo:
            self.coll_memo[k] = self.coll_fn(n1, n2)
        return self.coll_memo[k]


def build(case):
    """Planner + recorder from the case.  random must already be seeded (generateTerrain draws from it)."""
    L = lib()
    tm, PathNode, RRTStar = L["tm"], L["PathNode"], L["RRTStar"]
    start = [float(v) for v in case["start"]]
    rrt = sut(RRTStar, tm(start))
    rrt.bounds = [[float(a), float(b)] for a, b in case["bounds"]]
    rrt.iterations = int(case["iterations"])
    rrt.dmode = int(case["dmode"])
    rrt.nearest_neighbors_limit = int(case["knn"])
    rrt.minimum_distance = float(case["dmin"])
    rrt.maximum_distance = float(case["dmax"])
    if case["terrain"] is not None:
        sut(rrt.generateTerrain, *[float(v) for v in case["terrain"]])
    for lo, hi in case["boxes"]:
        sut(rrt.addObstruction, [float(v) for v in lo], [float(v) for v in hi])
    boxes = []
    for ob in rrt.obstructions:
        lo = [float(ob[0][i]) for i in range(3)]
        hi = [float(ob[1][i]) for i in range(3)]
        boxes.append((lo, hi))

    rec = Recorder()
    lib_random_pos, lib_distance, lib_obstruction = rrt.randomPos, rrt.distance, rrt.obstruction
    goal = [float(v) for v in case["goal"]]
    b = rrt.bounds

    # generator variants
    if case["gen_cb"] == "default":
        rec.gen_fn = lib_random_pos
    elif case["gen_cb"] == "position_only":
        rec.gen_fn = lambda: PathNode(tm([random.uniform(b[0][0], b[0][1]), random.uniform(b[1][0], b[1][1]),
                                          random.uniform(b[2][0], b[2][1]), 0.0, 0.0, 0.0]))
    elif case["gen_cb"] == "goal_bias":
        def gen_goal_bias():
            if random.random() < 0.15:
                return PathNode(tm([goal[i] + random.uniform(-0.05, 0.05) for i in range(6)]))
            return lib_random_pos()
        rec.gen_fn = gen_goal_bias
    elif case["gen_cb"] == "pool":
        # samples drawn WITH replacement from a finite roadmap of poses (twice as many as the budget), as a lattice /
        # roadmap / goal-biased sampler does: the same pose comes up again and again.  (Each draw is displaced by a
        # nanometre times its serial number so that the harness can tell draws apart by value; to the planner - whose
        # node equality has a 1e-4 tolerance and whose minimum distance is far larger - they are repeats.)
        K = max(20, 2 * int(case["iterations"]))
        pool = [[random.uniform(b[i][0], b[i][1]) for i in range(6)] for _ in range(K)]
        serial = [0]

        def gen_pool():
            serial[0] += 1
            v = list(pool[random.randrange(K)])
            v[0] += 1e-9 * serial[0]
            return PathNode(tm(v))
        rec.gen_fn = gen_pool
    else:
        raise ValueError(case["gen_cb"])

    # distance variants
    if case["dist_cb"] == "default":
        rec.dist_fn = lib_distance
    elif case["dist_cb"] == "scaled":
        rec.dist_fn = lambda x, y: 2.5 * lib_distance(x, y)
    elif case["dist_cb"] == "weighted6":
        def dist_w6(x, y):
            d = vec6(x) - vec6(y)
            return math.sqrt(float(d[0] ** 2 + d[1] ** 2 + d[2] ** 2 + 0.1 * (d[3] ** 2 + d[4] ** 2 + d[5] ** 2)))
        rec.dist_fn = dist_w6
    elif case["dist_cb"] == "climb":
        # a cost of travel that depends on the direction (going up costs more than going down): "the distance to its
        # parent" is the supplied function of (node, parent), in that order, as the library passes them
        def dist_climb(x, y):
            a, c = vec6(x), vec6(y)
            d = a - c
            return math.sqrt(float(d[0] ** 2 + d[1] ** 2 + d[2] ** 2)) + 0.75 * max(0.0, float(c[2] - a[2]))
        rec.dist_fn = dist_climb
    else:
        raise ValueError(case["dist_cb"])

    # detector variants
    if case["coll_cb"] == "default":
        rec.coll_fn = lib_obstruction
    elif case["coll_cb"] == "own_margin":
        m = 0.05
        grown = [([l - m for l in lo], [h + m for h in hi]) for lo, hi in boxes]

        def coll_own(n1, n2):
            p = vec6(n1.getPosition())[:3]
            q = vec6(n2.getPosition())[:3]
            return any(seg_box_float(p, q, lo, hi) for lo, hi in grown)
        rec.coll_fn = coll_own
    elif case["coll_cb"] == "own_numpy":
        # the same kind of detector written with numpy: its verdict is a numpy.bool_ (truthy / falsy like any bool,
        # but not the singletons True / False)
        m = 0.05
        glo = np.array([[l - m for l in lo] for lo, hi in boxes], dtype=float).reshape(-1, 3)
        ghi = np.array([[h + m for h in hi] for lo, hi in boxes], dtype=float).reshape(-1, 3)

        def coll_np(n1, n2):
            p = vec6(n1.getPosition())[:3]
            q = vec6(n2.getPosition())[:3]
            hits = np.array([seg_box_float(p, q, glo[i], ghi[i]) for i in range(len(glo))], dtype=bool)
            return np.any(hits)
        rec.coll_fn = coll_np
    else:
        raise ValueError(case["coll_cb"])
    return rrt, rec, boxes


def inside_any(p, boxes, margin):
    return any(all(lo[i] - margin <= p[i] <= hi[i] + margin for i in range(3)) for lo, hi in boxes)


# ------------------------------------------------------------------------------------------------
# the check
# ------------------------------------------------------------------------------------------------

def check_run(case, ctx):
    L = lib()
    tm, PathNode = L["tm"], L["PathNode"]
    state = random.getstate()
    try:
        random.seed(int(case["seed"]))
        _check_run(case, ctx, tm, PathNode)
    finally:
        random.setstate(state)


def _check_run(case, ctx, tm, PathNode):
    iterations = int(case["iterations"])
    knn = int(case["knn"])
    dmin, dmax = float(case["dmin"]), float(case["dmax"])
    rrt, rec, boxes = build(case)
    start_key = np.asarray([float(v) for v in case["start"]], dtype=float).tobytes()
    margin = 0.06 if case["coll_cb"] in ("own_margin", "own_numpy") else 1e-9
    if inside_any([float(v) for v in case["start"]][:3], boxes, margin):
        ctx.skip("start pose inside an obstruction (no edge can leave it)")
    goal = tm([float(v) for v in case["goal"]])

    ctx.label("api=%s" % case["api"])
    ctx.label("dmode=%d" % case["dmode"])
    ctx.label("callbacks=%s/%s/%s" % (case["gen_cb"], case["dist_cb"], case["coll_cb"]))
    ctx.label("iterations %s" % ("1" if iterations == 1 else "2-19" if iterations < 20 else "20-120" if iterations <= 120 else ">120"))
    ctx.label("boxes %s" % ("0" if not boxes else "1-3" if len(boxes) <= 3 else "4-12" if len(boxes) <= 12 else ">12"))
    ctx.label("terrain" if case["terrain"] is not None else "explicit boxes")

    # ---- run the planner -------------------------------------------------------------------------
    sink = io.StringIO()
    with _Guard(GUARD_S), contextlib.redirect_stdout(sink):
        if case["api"] == "findPath":
            rrt.randomPos = rec.gen           # instance attributes: generateTree's lambdas look them up at call time
            rrt.distance = rec.dist
            rrt.obstruction = rec.coll
            path = sut(rrt.findPath, goal)
        else:
            path = sut(rrt.findPathGeneral,
                       lambda: rrt.generalGenerateTree(rec.gen, rec.dist, rec.coll), goal)
    del sink

    # ---- read the tree ---------------------------------------------------------------------------
    graph = rrt.r6_tree_graph
    count = sut(graph.getCount)
    items = sut(graph.getAll)
    if count != iterations + 1:
        raise Violation("getCount() = %d after %d iterations (expected iterations + 1)" % (count, iterations))
    if len(items) != iterations + 1:
        raise Violation("getAll() returns %d nodes after %d iterations (expected iterations + 1)" % (len(items), iterations))
    node_of, parent_of, cost_of = {}, {}, {}
    for it in items:
        n = it.object
        k = key(sut(n.getPosition))
        if k in node_of:
            ctx.skip("two tree nodes with the same six-vector (identity by value impossible)")
        node_of[k] = n
        par = sut(n.getParent)
        parent_of[k] = None if par is None else key(sut(par.getPosition))
        cost_of[k] = scalar(sut(n.getCost), "stored cost")

    # ---- root, reachability, acyclicity ----------------------------------------------------------
    roots = [k for k, p in parent_of.items() if p is None]
    if start_key not in node_of:
        raise Violation("the start pose is not a node of the tree")
    if roots != [start_key]:
        raise Violation("%d parentless nodes; the only one must be the start pose (start parentless: %s)"
                        % (len(roots), parent_of[start_key] is None))
    if cost_of[start_key] != 0:
        raise Violation("root cost %r != 0" % cost_of[start_key])
    depth = {start_key: 0}
    for k in parent_of:
        chain = []
        x = k
        while x not in depth:
            chain.append(x)
            if len(chain) > len(parent_of):
                raise Violation("cycle in parent links")
            x = parent_of[x]
            if x not in parent_of:
                raise Violation("a parent link leaves the tree (parent pose is not a tree node)")
        d = depth[x]
        for y in reversed(chain):
            d += 1
            depth[y] = d
    ctx.label("max depth %s" % _bucket(max(depth.values()), [1, 2, 4, 8, 16, 32]))

    # ---- cost bookkeeping and edge validity ------------------------------------------------------
    def D(a, b):            # supplied distance between two tree/sample nodes
        return scalar(rec.dist(a.getPosition(), b.getPosition()), "distance")

    def blocked(a, b):
        return bool(rec.coll(a, b))

    for k, pk in parent_of.items():
        if pk is None:
            continue
        child, parent = node_of[k], node_of[pk]
        exp = cost_of[pk] + D(child, parent)
        if abs(cost_of[k] - exp) > RTOL * max(1.0, abs(exp)):
            raise Violation("stored cost %.17g != parent's cost %.17g + distance to parent %.17g"
                            % (cost_of[k], cost_of[pk], exp - cost_of[pk]))
        # the copy's own parent object must carry the same cost as the tree's node of that pose
        pc = scalar(child.getParent().getCost(), "parent cost")
        if pc != cost_of[pk]:
            raise Violation("node's parent object has cost %.17g, the tree node of the same pose has %.17g" % (pc, cost_of[pk]))
        if blocked(child, parent):
            raise Violation("parent link is obstructed under the supplied detector: child %s parent %s"
                            % (vec6(child.getPosition())[:3], vec6(parent.getPosition())[:3]))

    # ---- insertion order -------------------------------------------------------------------------
    gen_keys = [key(n.getPosition()) for n in rec.generated]
    if len(set(gen_keys)) != len(gen_keys):
        ctx.skip("the generator produced the same six-vector twice")
    accepted = [(k, n) for k, n in zip(gen_keys, rec.generated) if k in node_of and k != start_key]
    if len(accepted) != iterations:
        raise Violation("%d of the tree's %d non-root nodes were produced by the supplied generator"
                        % (len(accepted), iterations))
    ctx.label("samples per accepted node %s" % _bucket(len(gen_keys) / max(1, iterations), [1.0, 1.5, 3, 10, 100]))

    # ---- replay against brute force --------------------------------------------------------------
    tree_keys = [start_key]
    P = np.empty((iterations + 1, 6))
    P[0] = np.frombuffer(start_key, dtype=float)
    reparented = 0
    ties = 0
    for t, (k, s) in enumerate(accepted, start=1):
        q = np.frombuffer(k, dtype=float)
        d2 = ((P[:t] - q) ** 2).sum(axis=1)
        order = np.argsort(d2, kind="stable")
        dmin2 = d2[order[0]]
        near = [int(i) for i in order if d2[i] <= dmin2 * (1 + TIE) + 1e-300]
        if len(near) > 1:
            ties += 1
        # (5) the sample was in range of, and visible from, its then-nearest node
        valid_near = []
        for i in near:
            n = node_of[tree_keys[i]]
            dist = D(s, n)
            if dmin <= dist <= dmax and not blocked(s, n):
                valid_near.append(i)
        if not valid_near:
            n = node_of[tree_keys[near[0]]]
            dist = D(s, n)
            raise Violation("accepted sample #%d: distance %.17g to its then-nearest node (allowed [%g, %g]), edge "
                            "obstructed: %s" % (t, dist, dmin, dmax, blocked(s, n)))
        # (6) cheapest collision-free candidate among {nearest} + the k nearest
        if t <= knn:
            certain, maybe = list(range(t)), []
        else:
            kth = d2[order[knn - 1]]
            band = [int(i) for i in range(t) if kth * (1 - TIE) <= d2[i] <= kth * (1 + TIE) + 1e-300]
            if len(band) == 1:                   # no tie at the k-th place: the k nearest are determined
                certain, maybe = [int(i) for i in order[:knn]], []
            else:
                certain = [int(i) for i in order[:knn] if d2[i] < kth * (1 - TIE)]
                maybe = band
                ties += 1

        def cand_cost(i):
            n = node_of[tree_keys[i]]
            return cost_of[tree_keys[i]] + D(s, n)

        free_certain = [i for i in certain if not blocked(s, node_of[tree_keys[i]])]
        free_maybe = [i for i in maybe if not blocked(s, node_of[tree_keys[i]])]
        hi_set = set(valid_near if len(near) == 1 else []) | set(free_certain)
        lo_set = set(valid_near) | set(free_certain) | set(free_maybe)
        lo_val = min(cand_cost(i) for i in lo_set)
        got = cost_of[k]
        tol = RTOL * max(1.0, abs(got))
        if got < lo_val - tol:
            raise Violation("sample #%d: stored cost %.17g is below the cheapest candidate %.17g" % (t, got, lo_val))
        if hi_set:
            hi_val = min(cand_cost(i) for i in hi_set)
            if got > hi_val + tol:
                best = min(hi_set, key=cand_cost)
                raise Violation("sample #%d attached at cost %.17g although a collision-free candidate among the "
                                "%d nearest offers %.17g (candidate #%d, parent chosen #%s)"
                                % (t, got, knn, hi_val, best,
                                   tree_keys.index(parent_of[k]) if parent_of[k] in tree_keys else "?"))
        pk = parent_of[k]
        if pk not in tree_keys:
            raise Violation("sample #%d is attached to a node that was inserted later (or never)" % t)
        pi = tree_keys.index(pk)
        if pi not in lo_set:
            raise Violation("sample #%d is attached to node #%d, which is neither its nearest node nor a collision-free "
                            "member of its %d nearest" % (t, pi, knn))
        if pi not in near:
            reparented += 1
        tree_keys.append(k)
        P[t] = q

    ctx.label("re-parented nodes %s" % _bucket(reparented, [0, 1, 5, 20]))
    if ties:
        ctx.label("near-ties in the index order")

    # ---- the path --------------------------------------------------------------------------------
    if not isinstance(path, list) or len(path) < 2:
        raise Violation("path is %s of length %s" % (type(path).__name__, len(path) if hasattr(path, "__len__") else "?"))
    pk = [key(p) for p in path]
    if pk[0] != start_key:
        raise Violation("path does not start at the start pose: %s" % vec6(path[0]))
    if pk[-1] != key(goal):
        raise Violation("path does not end with the goal")
    for i in range(1, len(path) - 1):
        if pk[i] not in parent_of:
            raise Violation("path entry %d is not a tree node" % i)
        if parent_of[pk[i]] != pk[i - 1]:
            raise Violation("path entry %d is not a child of entry %d in the tree" % (i, i - 1))
    ctx.label("path tree nodes %s" % _bucket(len(path) - 1, [1, 2, 4, 8, 16]))
    ctx.nontrivial(iterations >= 20 and len(boxes) >= 1 and reparented >= 1)
    ctx.note("reparented", reparented)
    ctx.note("generated", len(gen_keys))
    ctx.note("dist_calls", rec.dist_calls)
    ctx.note("coll_calls", rec.coll_calls)


def _bucket(v, edges):
    prev = None
    for e in edges:
        if v <= e:
            return ("<=%g" % e) if prev is None else ("(%g, %g]" % (prev, e))
        prev = e
    return ">%g" % edges[-1]


# ------------------------------------------------------------------------------------------------
# generator
# ------------------------------------------------------------------------------------------------

TWO_PI = 2 * math.pi


@st.composite
def runs(draw, max_iter):
    seed = draw(st.integers(0, 2 ** 32 - 1))
    b = draw(st.sampled_from([1.0, 2.0, 5.0, 10.0, 10.0]))            # position half-width
    c = [draw(st.sampled_from([0.0, 0.0, 1.0, -3.0])) for _ in range(3)]
    rot = draw(st.sampled_from(["default", "default", "narrow", "zero"]))
    rb = {"default": TWO_PI, "narrow": 0.5, "zero": 0.0}[rot]
    bounds = [[c[i] - b, c[i] + b] for i in range(3)] + [[-rb, rb]] * 3
    terrain = None
    boxes = []
    layout = draw(st.sampled_from(["boxes"] * 5 + ["terrain", "terrain", "none"]))

    def pos_in(frac=1.0):
        return [c[i] + frac * b * draw(G.floats(-1.0, 1.0)) for i in range(3)]

    start = pos_in(0.9)
    if layout == "terrain":
        nx = draw(st.integers(1, 4))
        ny = draw(st.integers(1, 4))
        xc = 2 * b / 4 * draw(st.sampled_from([0.5, 1.0]))
        yc = 2 * b / 4 * draw(st.sampled_from([0.5, 1.0]))
        zvar = b * draw(G.floats(0.1, 0.8))
        # xd/xc must truncate to nx: keep clear of the integer boundary
        terrain = [xc * (nx + 0.5), yc * (ny + 0.5), xc, yc, zvar, c[0] - b, c[1] - b]
        bounds[2] = [0.0, zvar + 0.1 + b]
        start[2] = zvar + 0.2 + 0.8 * b * draw(G.floats(0.0, 1.0))      # above every terrain block
    elif layout == "boxes":
        for _ in range(draw(st.one_of(st.integers(1, 12), st.integers(4, 12), st.integers(0, 2)))):
            half = [b * draw(G.floats(0.02, 0.3)) for _ in range(3)]     # <= 2.7 % of the volume each
            ctr = pos_in(1.0)
            lo = [ctr[i] - half[i] for i in range(3)]
            hi = [ctr[i] + half[i] for i in range(3)]
            if all(lo[i] - 0.1 * b <= start[i] <= hi[i] + 0.1 * b for i in range(3)):
                # would contain (or hug) the start: move it clear along x
                sh = (start[0] + 0.1 * b + 1e-6) - lo[0] + 0.01 * b
                lo[0] += sh
                hi[0] += sh
            boxes.append([lo, hi])
    goal = pos_in(1.0)
    if terrain is not None:
        goal[2] = bounds[2][0] + (bounds[2][1] - bounds[2][0]) * draw(G.floats(0.0, 1.0))
    dmode = draw(st.sampled_from([0, 0, 1]))
    api = draw(st.sampled_from(["findPath", "general", "general"]))
    if api == "general":
        gen_cb = draw(st.sampled_from(["default", "default", "position_only", "goal_bias", "pool"]))
        dist_cb = draw(st.sampled_from(["default", "default", "scaled", "weighted6", "climb"]))
        coll_cb = draw(st.sampled_from(["default", "default", "own_margin", "own_numpy"]))
    else:
        gen_cb = dist_cb = coll_cb = "default"
    # a position-only generator plans in 3-D: the start carries no rotation either (otherwise, under a metric that
    # includes rotation, no sample may ever be within range of the root and the library's sampling loop cannot end)
    flat = rot == "zero" or gen_cb == "position_only"
    srot = [0.0, 0.0, 0.0] if flat or draw(st.booleans()) else [rb * draw(G.floats(-1, 1)) for _ in range(3)]
    grot = [0.0, 0.0, 0.0] if flat or draw(st.booleans()) else [rb * draw(G.floats(-1, 1)) for _ in range(3)]
    # connection distances in units of the typical distance between samples under the supplied metric
    if dist_cb == "weighted6":
        typical = b + (0.0 if flat else 0.3 * rb)
    elif dmode == 1:
        typical = b + (0.0 if flat else min(rb, math.pi))       # arc distance: the rotation part is at most pi
    else:
        typical = b
    if dist_cb == "scaled":
        typical *= 2.5
    if dist_cb == "climb":
        typical *= 1.4
    iterations = draw(st.one_of(st.integers(20, max_iter), st.integers(20, max_iter), st.integers(max(20, max_iter // 2), max_iter),
                                st.integers(1, 19), st.sampled_from([1, 2, 3])))
    fl = 0.35 if typical <= 2.5 * b else 0.5        # metrics with a rotation part: keep the first acceptances likely
    dmax = draw(st.one_of(st.just(100.0), G.floats(fl, 0.8).map(lambda f: f * typical),
                          G.floats(0.8, 2.5).map(lambda f: f * typical)))
    # minimum distance: the rejection loop cannot terminate once the region is packed with nodes that far apart
    # (random sequential packing jams at ~0.73 (2b/dmin)^3 nodes in the worst case, a position-only generator);
    # stay below ~1/4 of that for the iteration budget, and well below dmax so the accepting shell is not thin
    pos_scale = b * (2.5 if dist_cb == "scaled" else 1.0)
    fmax = min(0.3, 2.0 * (0.2 / (iterations + 1)) ** (1.0 / 3.0))
    dmin = draw(st.one_of(st.just(min(0.1, fmax * pos_scale)), st.just(0.0), G.floats(0.1, 1.0).map(lambda f: f * fmax * pos_scale),
                          G.floats(0.5, 1.0).map(lambda f: f * fmax * pos_scale)))
    dmin = min(dmin, 0.4 * dmax)
    if dmode == 0 and dist_cb == "default" and flat and draw(st.integers(0, 19)) == 0:
        # a NARROW connection window: only ~1-2 samples in a thousand are within range of the tree, so single
        # iterations reject a thousand and more draws in a row before one is accepted (the budget is kept small so
        # the run still takes about a second).  Whatever the library does about long rejection streaks, every node it
        # finally attaches must still satisfy the window and the collision clause.
        dmax = draw(G.floats(0.11, 0.16)) * b
        dmin = 0.0
        iterations = draw(st.integers(3, 8))
    knn = draw(st.one_of(st.integers(2, 20), st.integers(5, 20), st.integers(1, 20), st.sampled_from([1, 2, 15, 20])))
    if gen_cb == "pool":
        # a finite pool: keep the window wide open so that the budget can always be met from the unused half of the pool
        dmax = 100.0
        dmin = min(dmin, 0.05 * pos_scale)
        iterations = min(iterations, 150)
    elif (not flat) and dist_cb in ("default", "scaled", "climb") and dmode == 0 and draw(st.integers(0, 5)) == 0:
        # a LARGE minimum distance (0.3..0.45 of the half-width) under a positional metric while the index orders
        # neighbours by all six coordinates: the then-nearest node is that far away, other examined neighbours need
        # not be (nothing in the statement says they are)
        dmin = draw(G.floats(0.3, 0.45)) * pos_scale
        dmax = 100.0
        iterations = min(iterations, 60)       # (the rejection loop slows down as the region fills up)
        knn = max(knn, 8)
    return {"seed": seed, "start": [float(v) for v in start + srot], "goal": [float(v) for v in goal + grot],
            "bounds": [[float(a), float(bb)] for a, bb in bounds], "boxes": [[[float(v) for v in lo], [float(v) for v in hi]]
                                                                             for lo, hi in boxes],
            "terrain": None if terrain is None else [float(v) for v in terrain], "iterations": int(iterations),
            "dmode": dmode, "knn": int(knn), "dmin": float(dmin), "dmax": float(dmax), "api": api,
            "gen_cb": gen_cb, "dist_cb": dist_cb, "coll_cb": coll_cb}


def _tier():
    """The strategy depends on the tier (quick: iterations <= 120); resolve it the way the runner does."""
    av = sys.argv
    for i, a in enumerate(av):
        if a == "--tier" and i + 1 < len(av):
            return av[i + 1]
        if a.startswith("--tier="):
            return a.split("=", 1)[1]
    return os.environ.get("VERIF_TIER") or "quick"


_STRATEGY = runs(120) if _tier() != "thorough" else st.one_of(runs(120), runs(400))

CLAUSES = [
    Clause("tree_and_path_invariants", check_run, _STRATEGY, 320, 8000, shrink_quick=False,
           doc="all invariants of the statement on one planner run (quick: iterations <= 120; thorough: <= 400)"),
]
