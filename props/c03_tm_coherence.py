"""C03 -- a transform object's 4x4 matrix and six-vector always describe the same pose (class tm).

Two clauses, one interpreter.  A *history* is a list of operation dicts executed on fresh objects; the
interpreter keeps, next to every live library object, a reference model (T, v): the pose matrix and the
six-vector the object must hold according to what was WRITTEN, computed with vf/oracle.py only.

* vector-side writes (constructors from 3/6-vectors, sTAA, set, t[i]=x, t[a:b]=v, +, -, *k, /k, //k, abs, copy)
  prescribe the six-vector itself; the matrix must then be the oracle's exp of it.
* matrix-side writes (4x4, quaternion, rpy, sTM, setQuat, inv, @, //tm, localToGlobal, globalToLocal,
  one-element array of tm) prescribe only the pose; WHICH logarithm the object holds is not prescribed: the
  observed rotation vector is adopted after it has been verified to exponentiate to the prescribed rotation.
* angleMod ("truncate excessive rotation", helper doc: "cut angles such that they don't exceed 2pi absolute")
  prescribes: position untouched, every rotation component changed by an integer multiple of 2pi and left
  with |x| <= 2pi.

After EVERY step every live object is observed through gTM(), gTAA() and t[...] and must be (a) a 4x4 float
SE(3) element and a 6x1 float column, (b) coherent (matrix == pose of the six-vector), (c) equal to its model.
Objects the step was not supposed to write must be unchanged (that is how a shared-buffer copy shows up).
After a successful step the model adopts the observed numbers, so the library's documented NearZero cut-off
(|w|<1e-6 -> identity, < 1e-6 per step) cannot accumulate into a false alarm over a long history.
"""
import math

import numpy as np
from hypothesis import strategies as st

from vf import gen as G
from vf import oracle as O
from vf.core import Clause, HarnessError, Skip, Violation, sut

PROPERTY_ID = "C03"
RULE = ("(a) exhaustive: every sequence of length <=2 (quick) / <=3 (thorough) over a fixed alphabet of 128 concrete "
        "operations (constructors from 3/6/7-vectors as list/array/column, rpy flag, 4x4, tm, 1-element array of tm; "
        "sTM, sTAA, set, t[i]=x, t[a:b]=v, setQuat, angleMod, copy, inv, @, +, -, *k, /k, //, abs, localToGlobal, "
        "globalToLocal) on the palette angles {0,1e-7,1,pi-1e-3,2pi+0.5} per axis and translations {0,1,-2.5}, starting "
        "from tm(); distinct by construction (the case IS the op-index tuple). (b) random: Hypothesis op lists of "
        "length <=12 with continuous values (boundary mass at 0, the 1e-6 cut-off, >2pi components), several live "
        "objects. Non-trivial: the history contains >=1 vector-side write AND >=1 matrix-side write (each is then read "
        "back through the other representation); random cases distinct by digest.")
ASSUMPTIONS = [
    "oracle: vf/oracle.py (long-double Rodrigues, scipy Rotation for logs/angles, own quaternion->matrix); rpy=True "
    "means R = Rx(a) Ry(b) Rz(c) as the property text says (verified against the code and the suite's example)",
    "tolerance 5e-6*max(1,|p| of operands and result) for everything (the property's number); the model re-synchronises "
    "to the observed object after each verified step",
    "matrix-side results whose rotation lies within 1e-4 of a half turn are excluded and counted (log inaccuracy there is "
    "the open known finding C01-near-pi-log); histories whose rotation vector grows beyond 1e6 rad are outside the domain",
    "only C-contiguous float64 arrays (fresh copies) are handed to the library; tm*matrix, T() and ndarray@tm are not in "
    "the alphabet",
]
SHARDS = {"quick": 4, "thorough": 16}

PI = math.pi
TWO_PI = 2 * math.pi
TOL = 5e-6
NEAR_PI = 1e-4          # derived matrices are orthonormal to ~1e-14 only and the logarithm amplifies that by 1/(pi-angle)^2: 1.4e-5 measured at pi-2.2e-5 (sweep #13)
WMAX = 1e6

_lib = {}


def lib():
    if not _lib:
        from basic_robotics.general import fsr, tm
        _lib["tm"] = tm
        _lib["fsr"] = fsr
    return _lib


def warm():
    L = lib()
    tm, fsr = L["tm"], L["fsr"]
    a = tm([1.0, 2.0, 3.0, 0.1, 0.2, 0.3])
    b = a.inv() @ a
    fsr.localToGlobal(a, b)
    fsr.globalToLocal(a, b)
    a.setQuat(a.getQuat())
    a.sTM(b.gTM())
    (a // b).angleMod()
    tm([0.1, 0.2, 0.3], True)


# ----------------------------------------------------------------------------------- model helpers

def _pose(v):
    return O.pose_from_taa(v)


def _quat(w, s):
    """(x,y,z,w) quaternion of rotation vector w, scaled by s (sign / norm are free)."""
    return np.asarray(O.rotvec_to_quat(w), dtype=float) * float(s)


def _rxyz(e):
    return O.rotx(e[0]) @ O.roty(e[1]) @ O.rotz(e[2])


_HANDED = [False]      # set by the operation that hands the library an exact half turn itself (not a derived result)


def _near_pi(R):
    if R[0, 0] + R[1, 1] + R[2, 2] > -0.99:
        return False
    if _HANDED[0] and _exact_half_turn(R):
        return False
    return PI - O.angle(R) < NEAR_PI


def _exact_half_turn(R):
    """An exact half turn whose entries are all -1, 0 or 1 (about a coordinate axis, or about a face diagonal such as
    (1,1,0)/sqrt2 - the UR arms' tool frames) HANDED to the library as such (4x4 matrix, sTM, axis quaternion): the
    matrix it takes the logarithm of is this very matrix, its trace is exactly -1, so the exact-half-turn branch is
    taken, which is accurate (C01 enforces that branch too).  Not part of the open near-pi finding, hence not
    skipped.  A half turn that the library COMPUTES (a product, an inverse) carries rounding in its entries, may take
    the generic branch, and stays under the near-pi rule."""
    R = np.asarray(R, dtype=float)
    return bool(np.all((R == 0.0) | (R == 1.0) | (R == -1.0)) and R[0, 0] + R[1, 1] + R[2, 2] == -1.0
                and np.array_equal(R, R.T) and abs(_det3(R) - 1.0) < 1e-12)


# exact half turns: rotation blocks and the matching (x, y, z, w) quaternions of the three coordinate-axis ones
_HALF_R = [np.diag([1.0, -1.0, -1.0]), np.diag([-1.0, 1.0, -1.0]), np.diag([-1.0, -1.0, 1.0]),
           np.array([[0.0, 1, 0], [1, 0, 0], [0, 0, -1]]), np.array([[0.0, 0, 1], [0, -1, 0], [1, 0, 0]]),
           np.array([[-1.0, 0, 0], [0, 0, 1], [0, 1, 0]])]
_HALF_Q = [np.array([1.0, 0, 0, 0]), np.array([0.0, 1, 0, 0]), np.array([0.0, 0, 1, 0])]


def _pn(x):
    x = np.asarray(x, dtype=float).reshape(-1)
    return math.sqrt(float(x[0]) ** 2 + float(x[1]) ** 2 + float(x[2]) ** 2)


_I3 = np.eye(3)
_LAST = np.array([0.0, 0.0, 0.0, 1.0])


def _det3(R):
    return (R[0, 0] * (R[1, 1] * R[2, 2] - R[1, 2] * R[2, 1]) - R[0, 1] * (R[1, 0] * R[2, 2] - R[1, 2] * R[2, 0])
            + R[0, 2] * (R[1, 0] * R[2, 1] - R[1, 1] * R[2, 0]))


def _maxabs(a):
    return float(np.abs(a).max())


class _Obj:
    __slots__ = ("t", "T", "v", "bTM", "bTAA")

    def __init__(self, t):
        self.t = t
        self.T = None
        self.v = None
        self.bTM = None
        self.bTAA = None


class _State:
    def __init__(self, ctx):
        self.objs = []
        self.ctx = ctx
        self.vec_writes = 0
        self.mat_writes = 0
        self.band = False
        self.arrs = []      # float64 arrays the harness has handed to array constructors (kept alive on purpose)

    def pick(self, i):
        """live object #i counted from the most recent one (0 = current, 1 = previous, ...), modulo."""
        return self.objs[-1 - (int(i) % len(self.objs))]


def _observe(t, what):
    TM = sut(t.gTM)
    TAA = sut(t.gTAA)
    if not isinstance(TM, np.ndarray) or TM.shape != (4, 4):
        raise Violation("%s: gTM() is not a 4x4 array (%s)" % (what, getattr(TM, "shape", type(TM))))
    if not isinstance(TAA, np.ndarray) or TAA.shape != (6, 1):
        raise Violation("%s: gTAA() is not a 6x1 column (%s)" % (what, getattr(TAA, "shape", type(TAA))))
    if not (np.issubdtype(TM.dtype, np.floating) and np.issubdtype(TAA.dtype, np.floating)):
        raise Violation("%s: dtype gTM %s gTAA %s (float expected)" % (what, TM.dtype, TAA.dtype))
    if not (np.isfinite(TM).all() and np.isfinite(TAA).all()):
        raise Violation("%s: non-finite entries" % what)
    return TM, TAA


def _coherent(t, TM, TAA, what, E=None):
    """matrix is SE(3), equals the pose of the six-vector (E = Exp of its rotation part, computed by the
    oracle, may be handed in), and t[...] reads the six-vector."""
    p = TAA[:3, 0]
    s = max(1.0, _pn(p))
    if _maxabs(TM[3] - _LAST) > TOL:
        raise Violation("%s: last row of the matrix is %s" % (what, TM[3]))
    R = TM[:3, :3]
    e = _maxabs(R.T @ R - _I3)
    if not (e <= TOL and abs(_det3(R) - 1.0) <= TOL):
        raise Violation("%s: rotation block not in SO(3) (|R^T R-I|=%.3g, det=%.9g)" % (what, e, _det3(R)))
    d = _maxabs(TM[:3, 3] - p)
    if not d <= TOL * s:
        raise Violation("%s: matrix translation %s != six-vector translation %s (diff %.3g)" % (what, TM[:3, 3], p, d))
    if E is None:
        E = O.exp3(TAA[3:, 0])
    d = _maxabs(E - R)
    if not d <= TOL:
        raise Violation("%s: Exp(six-vector rotation %s) differs from the matrix rotation by %.3g"
                        % (what, TAA[3:, 0], d))
    for i in range(6):
        x = sut(t.__getitem__, i)
        if not abs(float(x) - TAA[i, 0]) <= TOL * s:
            raise Violation("%s: t[%d] reads %r, gTAA()[%d] is %r" % (what, i, x, i, TAA[i, 0]))
    for sl in (slice(0, 3), slice(3, 6)):
        x = np.asarray(sut(t.__getitem__, sl), dtype=float)
        if x.shape != (3, 1) or not _maxabs(x - TAA[sl]) <= TOL * s:
            raise Violation("%s: t[%d:%d] reads %s" % (what, sl.start, sl.stop, x.ravel()))


def _adopt(S, o, TM, TAA):
    o.T = TM
    o.v = TAA[:, 0].copy()
    o.bTM = TM.tobytes()
    o.bTAA = TAA.tobytes()
    th = float(np.linalg.norm(o.v[3:]))
    if 1e-9 < th < 2e-6:
        S.band = True


def _expect_vec(S, o, v, ps, what):
    """vector-side write: the object must hold six-vector v and the pose of v."""
    v = np.asarray(v, dtype=float).reshape(6)
    if float(np.abs(v[3:]).max()) > WMAX:
        raise Skip("rotation vector beyond 1e6 rad")
    TM, TAA = _observe(o.t, what)
    s = max([1.0, _pn(v)] + list(ps))
    d = np.abs(TAA[:, 0] - v).max()
    if not d <= TOL * s:
        raise Violation("%s: six-vector reads %s, written %s (diff %.3g > %.3g)" % (what, TAA[:, 0], v, d, TOL * s))
    Ev = O.exp3(v[3:])
    d = np.abs(TM[:3, :3] - Ev).max()
    if not d <= TOL:
        raise Violation("%s: matrix rotation differs from Exp(written rotation vector %s) by %.3g" % (what, v[3:], d))
    d = np.abs(TM[:3, 3] - v[:3]).max()
    if not d <= TOL * s:
        raise Violation("%s: matrix translation %s, written %s" % (what, TM[:3, 3], v[:3]))
    _coherent(o.t, TM, TAA, what, Ev if np.array_equal(TAA[3:, 0], v[3:]) else None)
    _adopt(S, o, TM, TAA)
    S.vec_writes += 1


def _expect_mat(S, o, T, ps, what):
    """matrix-side write: the object must hold pose T; the logarithm branch is not prescribed."""
    T = np.asarray(T, dtype=float)
    if _near_pi(T[:3, :3]):
        raise Skip("matrix-side result within 1e-4 of a half turn (C01-near-pi-log)")
    TM, TAA = _observe(o.t, what)
    s = max([1.0, _pn(T[:3, 3])] + list(ps))
    d = np.abs(TM[:3, :3] - T[:3, :3]).max()
    if not d <= TOL:
        raise Violation("%s: matrix rotation differs from the written rotation by %.3g" % (what, d))
    d = np.abs(TM[:3, 3] - T[:3, 3]).max()
    if not d <= TOL * s:
        raise Violation("%s: matrix translation %s, written %s (diff %.3g > %.3g)" % (what, TM[:3, 3], T[:3, 3], d, TOL * s))
    d = np.abs(TAA[:3, 0] - T[:3, 3]).max()
    if not d <= TOL * s:
        raise Violation("%s: six-vector translation %s, written %s" % (what, TAA[:3, 0], T[:3, 3]))
    E = O.exp3(TAA[3:, 0])
    d = np.abs(E - T[:3, :3]).max()
    if not d <= TOL:
        raise Violation("%s: Exp(six-vector rotation %s) differs from the written rotation by %.3g" % (what, TAA[3:, 0], d))
    _coherent(o.t, TM, TAA, what, E)
    _adopt(S, o, TM, TAA)
    S.mat_writes += 1


def _expect_copy(S, o, src, what):
    TM, TAA = _observe(o.t, what)
    s = max(1.0, _pn(src.v))
    if not np.abs(TAA[:, 0] - src.v).max() <= TOL * s:
        raise Violation("%s: copy holds six-vector %s, source %s" % (what, TAA[:, 0], src.v))
    if not (np.abs(TM[:3, :3] - src.T[:3, :3]).max() <= TOL and np.abs(TM[:, 3] - src.T[:, 3]).max() <= TOL * s):
        raise Violation("%s: copy holds a different matrix than its source" % what)
    _coherent(o.t, TM, TAA, what)
    _adopt(S, o, TM, TAA)


def _expect_anglemod(S, o, what):
    v = o.v
    TM, TAA = _observe(o.t, what)
    s = max(1.0, _pn(v))
    if not np.abs(TAA[:3, 0] - v[:3]).max() <= TOL * s:
        raise Violation("%s: angleMod changed the translation %s -> %s" % (what, v[:3], TAA[:3, 0]))
    for i in range(3, 6):
        x = float(TAA[i, 0])
        k = (x - v[i]) / TWO_PI
        if abs(k - round(k)) * TWO_PI > TOL:
            raise Violation("%s: angleMod changed rotation component %d from %.17g to %.17g, not by a multiple of 2pi"
                            % (what, i, v[i], x))
        if abs(x) > TWO_PI + TOL:
            raise Violation("%s: angleMod left |component %d| = %.17g > 2pi" % (what, i, abs(x)))
    _coherent(o.t, TM, TAA, what)
    if float(np.abs(v[3:]).max()) > TWO_PI:
        S.vec_writes += 1
        S.ctx.label("angleMod reduces")
    _adopt(S, o, TM, TAA)


def _check_untouched(S, skip_obj, what):
    for k, o in enumerate(S.objs):
        if o is skip_obj:
            continue
        w = "%s: bystander object #%d" % (what, k)
        TM, TAA = _observe(o.t, w)
        if TM.tobytes() == o.bTM and TAA.tobytes() == o.bTAA:
            continue
        s = max(1.0, _pn(o.v))
        if not (np.abs(TAA[:, 0] - o.v).max() <= TOL * s and np.abs(TM - o.T).max() <= TOL * s):
            _coherent(o.t, TM, TAA, w)
            raise Violation("%s changed although nothing was written to it: six-vector %s -> %s"
                            % (w, o.v, TAA[:, 0]))
        _coherent(o.t, TM, TAA, w)
        _adopt(S, o, TM, TAA)


# ----------------------------------------------------------------------------------- the operations
# every handler performs the library call(s) and returns (object written/created, expectation tuple)

def _f6(v):
    return np.array(v, dtype=float).reshape(6)


def _new(S, t):
    o = _Obj(t)
    S.objs.append(o)
    return o


def _as_shape(v, shape):
    a = np.array(v, dtype=float)
    return a.reshape((-1, 1)) if shape == "col" else a.reshape(-1)


def _step(S, op, what):
    L = lib()
    tm, fsr = L["tm"], L["fsr"]
    name = op["op"]
    vec, mat = "vec", "mat"
    _HANDED[0] = False

    # ---- constructors
    if name == "c_default":
        o = _new(S, sut(tm))
        return o, (mat, np.eye(4), [])
    if name in ("c_list6", "c_arr6", "c_arr61"):
        v = _f6(op["v"])
        arg = [float(x) for x in v] if name == "c_list6" else _as_shape(v, "col" if name == "c_arr61" else "flat")
        if op.get("whole"):
            # a pose typed by hand in whole numbers: a list of Python ints / an integer-typed array.  The object
            # built from it is an ordinary transform (later fractional writes are stored as written)
            v = np.round(v)
            arg = [int(x) for x in v] if name == "c_list6" else _as_shape(v, "col" if name == "c_arr61" else "flat").astype(np.int64)
            S.ctx.label("constructed from whole numbers (int-typed)")
        if name != "c_list6":
            S.arrs.append(arg)
        return _new(S, sut(tm, arg)), (vec, v, [])
    if name == "c_arr6_again":
        # a second transform built from the SAME array object an earlier constructor was given (or, if there is
        # none yet, from a fresh one): two objects described by one caller-owned array must stay independent
        if S.arrs:
            arg = S.arrs[-1 - (int(op["b"]) % len(S.arrs))]
            S.ctx.label("constructed twice from one array object")
        else:
            arg = _as_shape(_f6(op["v"]), "flat")
            S.arrs.append(arg)
        return _new(S, sut(tm, arg)), (vec, np.array(arg, dtype=float).reshape(6).copy(), [])
    if name == "c_from_slice":
        # built from the full slice t[0:6] of a live object (a NumPy-style view of its six-vector)
        src = S.pick(op["b"])
        return _new(S, sut(tm, src.t[0:6])), (vec, np.array(src.v, dtype=float).reshape(6).copy(), [])
    if name in ("c_list3", "c_arr3", "c_arr31"):
        w = np.array(op["w"], dtype=float).reshape(3)
        arg = [float(x) for x in w] if name == "c_list3" else _as_shape(w, "col" if name == "c_arr31" else "flat")
        if op.get("whole"):
            w = np.round(w)
            arg = [int(x) for x in w] if name == "c_list3" else _as_shape(w, "col" if name == "c_arr31" else "flat").astype(np.int64)
            S.ctx.label("constructed from whole numbers (int-typed)")
        return _new(S, sut(tm, arg)), (vec, np.concatenate([np.zeros(3), w]), [])
    if name in ("c_quat_list", "c_quat_arr"):
        v = _f6(op["v"])
        q = _quat(v[3:], op["s"])
        if op.get("half") is not None:
            q = _HALF_Q[int(op["half"]) % 3] * (1.0 if float(op["s"]) > 0 else -1.0)   # unit length exactly
            S.ctx.label("exact half turn written"); _HANDED[0] = True
        arg = np.concatenate([v[:3], q])
        arg = [float(x) for x in arg] if name == "c_quat_list" else arg
        return _new(S, sut(tm, arg)), (mat, O.rp(O.quat_to_R(q), v[:3]), [])
    if name in ("c_rpy_list3", "c_rpy_arr3"):
        e = np.array(op["e"], dtype=float).reshape(3)
        arg = [float(x) for x in e] if name == "c_rpy_list3" else e.copy()
        return _new(S, sut(tm, arg, True)), (mat, O.rp(_rxyz(e), np.zeros(3)), [])
    if name in ("c_rpy_list6", "c_rpy_arr6"):
        v = _f6(op["v"])
        arg = [float(x) for x in v] if name == "c_rpy_list6" else v.copy()
        return _new(S, sut(tm, arg, True)), (mat, O.rp(_rxyz(v[3:]), v[:3]), [])
    if name == "c_mat":
        T = np.ascontiguousarray(_pose(_f6(op["v"])))
        if op.get("half") is not None:
            T[:3, :3] = _HALF_R[int(op["half"]) % 6]
            S.ctx.label("exact half turn written"); _HANDED[0] = True
        return _new(S, sut(tm, T.copy())), (mat, T, [])
    if name == "c_tm":
        src = S.pick(op["b"])
        return _new(S, sut(tm, src.t)), ("copy", src)
    if name == "c_arr_of_tm":
        src = S.pick(op["b"])
        arr = np.empty(1, dtype=object)
        arr[0] = src.t
        return _new(S, sut(tm, arr)), (mat, src.T, [])

    # ---- everything else works on live objects
    a = S.pick(op.get("a", 0))
    b = S.pick(op.get("b", 1))
    pa, pb = _pn(a.v), _pn(b.v)

    if name == "swap":
        if len(S.objs) > 1:
            S.objs[-1], S.objs[-2] = S.objs[-2], S.objs[-1]
        return None, ("none",)

    # ---- setters (in place)
    if name == "sTM":
        T = np.ascontiguousarray(_pose(_f6(op["v"])))
        if op.get("half") is not None:
            T[:3, :3] = _HALF_R[int(op["half"]) % 6]
            S.ctx.label("exact half turn written"); _HANDED[0] = True
        sut(a.t.sTM, T.copy())
        return a, (mat, T, [])
    if name == "sTM_from":
        sut(a.t.sTM, sut(b.t.gTM))
        return a, (mat, b.T, [])
    if name == "sTAA":
        v = _f6(op["v"])
        arg = _as_shape(v, op["shape"])
        if op.get("whole"):
            # whole numbers handed over as an integer-typed array (tests/test_general_transform.py does exactly that)
            v = np.round(v)
            arg = _as_shape(v, op["shape"]).astype(np.int64)
            S.ctx.label("sTAA with an integer-typed array")
        sut(a.t.sTAA, arg)
        return a, (vec, v, [])
    if name == "sTAA_from":
        sut(a.t.sTAA, sut(b.t.gTAA))
        return a, (vec, b.v, [])
    if name in ("set", "setitem"):
        i, x = int(op["i"]) % 6, float(op["x"])
        if op.get("rel") is not None:
            # a NUDGE of the stored value (a servo trimming a coordinate by parts in 1e8..1e4): what is written is what
            # is read back and what the matrix shows, however small the change
            if abs(float(a.v[i])) < 0.5 and float(np.abs(a.v).max()) >= 0.5:
                i = int(np.abs(a.v[3:]).argmax()) + 3 if float(np.abs(a.v[3:]).max()) >= 0.5 else int(np.abs(a.v).argmax())
            cur = float(a.v[i])
            x = cur * (1.0 + float(op["rel"])) if cur != 0.0 else float(op["rel"])
            S.ctx.label("entry nudged by a small relative amount")
        v = a.v.copy()
        v[i] = x
        # the same entry addressed NumPy-style from the end (t[-1] is the z rotation component)
        ii = i - 6 if op.get("neg") else i
        if name == "set":
            sut(a.t.set, ii, x)
        else:
            sut(a.t.__setitem__, ii, x)
        return a, (vec, v, [pa])
    if name == "setslice":
        lo, hi = int(op["lo"]), int(op["hi"])
        vals = np.array(op["vals"], dtype=float).reshape(-1)
        if not (0 <= lo < hi <= 6 and vals.size == hi - lo) or (op["form"] == "col" and hi - lo != 3):
            raise HarnessError("bad setslice op %r" % (op,))
        v = a.v.copy()
        v[lo:hi] = vals
        arg = [float(x) for x in vals] if op["form"] == "list" else _as_shape(vals, op["form"])
        sl = slice(lo - 6, None if hi == 6 else hi - 6) if op.get("neg") else slice(lo, hi)
        sut(a.t.__setitem__, sl, arg)
        return a, (vec, v, [pa])
    if name == "setQuat":
        q = _quat(np.array(op["w"], dtype=float), op["s"])
        if op.get("half") is not None:
            q = _HALF_Q[int(op["half"]) % 3] * (1.0 if float(op["s"]) > 0 else -1.0)   # unit length exactly
            S.ctx.label("exact half turn written"); _HANDED[0] = True
        sut(a.t.setQuat, [float(x) for x in q] if op.get("aslist") else q.copy())
        return a, (mat, O.rp(O.quat_to_R(q), a.T[:3, 3]), [pa])
    if name == "setQuat_get":
        q = np.asarray(sut(b.t.getQuat), dtype=float)
        if q.shape != (4,) or not np.all(np.isfinite(q)) or not np.linalg.norm(q) > 0:
            raise Violation("%s: getQuat() returned %r" % (what, q))
        sut(a.t.setQuat, q.copy())
        return a, (mat, O.rp(O.quat_to_R(q), a.T[:3, 3]), [pa])
    if name == "angleMod":
        sut(a.t.angleMod)
        return a, ("amod",)
    if name == "angleMod_fsr":
        sut(fsr.angleMod, a.t)
        return a, ("amod",)

    # ---- producers (fresh object)
    def fresh(r):
        # (if the library handed back one of its operands instead of a fresh object, the next write through
        # either handle shows up as a changed bystander; identity itself is not demanded here)
        if not isinstance(r, tm):
            raise Violation("%s: result is %s, not a tm" % (what, type(r).__name__))
        return _new(S, r)

    if name == "copy":
        return fresh(sut(a.t.copy)), ("copy", a)
    if name == "inv":
        return fresh(sut(a.t.inv)), (mat, O.inv(a.T), [pa])
    if name == "abs":
        return fresh(sut(abs, a.t)), (vec, np.abs(a.v), [pa])
    if name == "matmul":
        return fresh(sut(lambda: a.t @ b.t)), (mat, a.T @ b.T, [pa, pb])
    if name == "matmul_raw":
        T = np.ascontiguousarray(_pose(_f6(op["v"])))
        return fresh(sut(lambda: a.t @ T.copy())), (mat, a.T @ T, [pa, _pn(T[:3, 3])])
    if name == "add":
        return fresh(sut(lambda: a.t + b.t)), (vec, a.v + b.v, [pa, pb])
    if name == "sub":
        return fresh(sut(lambda: a.t - b.t)), (vec, a.v - b.v, [pa, pb])
    if name in ("add_arr", "sub_arr"):
        v = _f6(op["v"])
        arg = _as_shape(v, op["shape"])
        if name == "add_arr":
            return fresh(sut(lambda: a.t + arg)), (vec, a.v + v, [pa, _pn(v)])
        return fresh(sut(lambda: a.t - arg)), (vec, a.v - v, [pa, _pn(v)])
    if name in ("add_scalar", "sub_scalar", "mul", "rmul", "div", "floordiv_scalar"):
        k = float(op["k"])
        if name in ("div", "floordiv_scalar") and k == 0.0:
            raise HarnessError("division by zero generated")
        if name == "add_scalar":
            return fresh(sut(lambda: a.t + k)), (vec, a.v + k, [pa, abs(k)])
        if name == "sub_scalar":
            return fresh(sut(lambda: a.t - k)), (vec, a.v - k, [pa, abs(k)])
        if name == "mul":
            return fresh(sut(lambda: a.t * k)), (vec, a.v * k, [pa])
        if name == "rmul":
            return fresh(sut(lambda: k * a.t)), (vec, k * a.v, [pa])
        if name == "div":
            return fresh(sut(lambda: a.t / k)), (vec, a.v / k, [pa])
        return fresh(sut(lambda: a.t // k)), (vec, np.floor_divide(a.v, k), [pa])
    if name == "floordiv":
        return fresh(sut(lambda: a.t // b.t)), (mat, a.T @ O.inv(b.T), [pa, pb])
    if name == "floordiv_raw":
        T = np.ascontiguousarray(_pose(_f6(op["v"])))
        return fresh(sut(lambda: a.t // T.copy())), (mat, a.T @ O.inv(T), [pa, _pn(T[:3, 3])])
    if name == "l2g":
        return fresh(sut(fsr.localToGlobal, a.t, b.t)), (mat, _pose(a.v) @ _pose(b.v), [pa, pb])
    if name == "g2l":
        return fresh(sut(fsr.globalToLocal, a.t, b.t)), (mat, O.inv(_pose(a.v)) @ _pose(b.v), [pa, pb])
    raise HarnessError("unknown op %r" % (name,))


def _light(S, o, exp, what):
    """prefix step of an exhaustively enumerated history: the prefix is itself a member of the enumeration and
    is verified in full there, so here the step is only executed and the model synchronised (the domain
    exclusions -- near-pi results, runaway rotation vectors -- still apply)."""
    kind = exp[0]
    if kind == "none":
        return
    if kind == "vec":
        if float(np.abs(np.asarray(exp[1], dtype=float)[3:]).max()) > WMAX:
            raise Skip("rotation vector beyond 1e6 rad")
        S.vec_writes += 1
    elif kind == "mat":
        if _near_pi(np.asarray(exp[1], dtype=float)[:3, :3]):
            raise Skip("matrix-side result within 1e-4 of a half turn (C01-near-pi-log)")
        S.mat_writes += 1
    elif kind == "amod":
        if float(np.abs(o.v[3:]).max()) > TWO_PI:
            S.vec_writes += 1
            S.ctx.label("angleMod reduces")
    TM, TAA = _observe(o.t, what)
    _adopt(S, o, TM, TAA)


def run_history(ops, ctx, label_ops=True, verify_from=0):
    """verify_from > 0 is used by the bulk enumeration only: steps before it are executed without the
    invariant check because the prefix is verified as its own (shorter) member of the same enumeration.
    Replays and the random clause always verify every step."""
    S = _State(ctx)
    # every history starts from the default-constructed identity
    o0, exp = _step(S, {"op": "c_default"}, "tm()")
    if verify_from > 0:
        _light(S, o0, exp, "tm()")
    else:
        _expect_mat(S, o0, exp[1], exp[2], "tm()")
    S.mat_writes = 0
    for n, op in enumerate(ops):
        what = "step %d %s" % (n, op["op"])
        if label_ops:
            ctx.label("op:" + op["op"])
        o, exp = _step(S, op, what)
        if n < verify_from:
            _light(S, o, exp, what)
            continue
        kind = exp[0]
        if kind == "vec":
            _expect_vec(S, o, exp[1], exp[2], what)
        elif kind == "mat":
            _expect_mat(S, o, exp[1], exp[2], what)
        elif kind == "copy":
            _expect_copy(S, o, exp[1], what)
        elif kind == "amod":
            _expect_anglemod(S, o, what)
        _check_untouched(S, o, what)
    mixed = S.vec_writes > 0 and S.mat_writes > 0
    ctx.label("mixed writes" if mixed else ("vector-side only" if S.vec_writes else
                                           ("matrix-side only" if S.mat_writes else "no write")))
    if S.band:
        ctx.label("NearZero band entered")
    ctx.nontrivial(mixed)
    return S


# ----------------------------------------------------------------------------------- (a) the enumeration

P_ANG = [0.0, 1e-7, 1.0, PI - 1e-3, TWO_PI + 0.5]
_A1, _AP, _AB = 1.0, PI - 1e-3, TWO_PI + 0.5
P_POS = [(0.0, 0.0, 0.0), (1.0, 0.0, -2.5), (-2.5, 1.0, 1.0)]
P_POSE = [
    P_POS[0] + (0.0, 0.0, 0.0),
    P_POS[1] + (_A1, 0.0, 0.0),
    P_POS[2] + (0.0, _AP, 0.0),
    P_POS[0] + (0.0, 0.0, _AB),
    P_POS[1] + (0.0, 1e-7, 0.0),
    P_POS[2] + (0.0, 0.0, _A1),
    P_POS[1] + (_A1, _AP, 0.0),
    P_POS[2] + (_AB, 1e-7, _A1),
]


def _build_alphabet():
    A = []

    def add(name, **kw):
        d = {"op": name}
        d.update(kw)
        A.append(d)

    P = [list(p) for p in P_POSE]
    for k in range(8):
        add("c_list6", v=P[k])
    for k in (1, 3, 6):
        add("c_arr6", v=P[k])
    for k in (2, 5, 7):
        add("c_arr61", v=P[k])
    for k in (1, 2, 7):
        add("c_list3", w=P[k][3:])
    add("c_arr3", w=P[3][3:])
    add("c_arr31", w=P[6][3:])
    add("c_quat_list", v=P[1], s=1.0)
    add("c_quat_list", v=P[2], s=-1.0)
    add("c_quat_list", v=P[5], s=2.0)
    add("c_quat_arr", v=P[3], s=1.0)
    add("c_rpy_list3", e=[_A1, _A1, _A1])
    add("c_rpy_list3", e=[_AB, _AP, 1e-7])
    add("c_rpy_arr3", e=[_A1, 0.0, _AP])
    add("c_rpy_list6", v=list(P_POS[1]) + [_A1, _AP, _AB])
    add("c_rpy_list6", v=list(P_POS[2]) + [0.0, 1e-7, _A1])
    add("c_rpy_arr6", v=list(P_POS[1]) + [_A1, _A1, 0.0])
    for k in (1, 2, 5, 7):
        add("c_mat", v=P[k])
    add("c_tm", b=0)
    add("c_tm", b=1)
    add("c_arr_of_tm", b=0)
    add("c_default")
    # setters on the current object (a=0, the default), second operand the previous one (b=1, the default)
    for k in (1, 2, 6):
        add("sTM", v=P[k])
    add("sTM_from")
    add("sTAA", v=P[3], shape="flat")
    add("sTAA", v=P[5], shape="flat")
    add("sTAA", v=P[4], shape="col")
    add("sTAA", v=P[6], shape="col")
    add("sTAA_from")
    for i, x in ((0, 1.0), (0, -2.5), (1, 1.0), (2, 0.0), (3, 0.0)):
        add("set", i=i, x=x)
    for i in (3, 4, 5):
        for x in P_ANG[1:]:
            add("set", i=i, x=x)
    for i, x in ((0, -2.5), (1, 1.0), (2, 1.0), (3, _A1), (3, 0.0), (4, _AB), (4, 1e-7), (5, _AP), (5, _A1)):
        add("setitem", i=i, x=x)
    add("setslice", lo=0, hi=3, vals=list(P_POS[1]), form="list")
    add("setslice", lo=0, hi=3, vals=list(P_POS[2]), form="flat")
    add("setslice", lo=0, hi=3, vals=list(P_POS[1]), form="col")
    add("setslice", lo=3, hi=6, vals=[_A1, 0.0, 0.0], form="list")
    add("setslice", lo=3, hi=6, vals=[0.0, _AP, 0.0], form="flat")
    add("setslice", lo=3, hi=6, vals=[0.0, 0.0, _AB], form="col")
    add("setslice", lo=3, hi=6, vals=[_A1, _AP, 0.0], form="list")
    add("setslice", lo=3, hi=6, vals=[0.0, 0.0, 0.0], form="col")
    add("setslice", lo=0, hi=6, vals=P[5], form="flat")
    add("setslice", lo=2, hi=5, vals=[_A1, _A1, 1e-7], form="list")
    add("setQuat", w=P[1][3:], s=1.0)
    add("setQuat", w=P[2][3:], s=-1.0, aslist=True)
    add("setQuat", w=P[7][3:], s=0.5)
    add("setQuat", w=P[0][3:], s=1.0)
    add("setQuat_get", a=0, b=0)
    add("setQuat_get", a=0, b=1)
    add("angleMod")
    add("angleMod_fsr")
    # producers
    add("copy")
    add("inv")
    add("abs")
    add("matmul", a=0, b=1)
    add("matmul", a=1, b=0)
    add("matmul", a=0, b=0)
    for k in (1, 2, 5):
        add("matmul_raw", v=P[k])
    add("add", a=0, b=1)
    add("add_arr", v=P[1], shape="flat")
    add("add_arr", v=P[3], shape="col")
    add("add_scalar", k=1.0)
    add("add_scalar", k=-2.5)
    add("sub", a=0, b=1)
    add("sub", a=1, b=0)
    add("sub_arr", v=P[1], shape="flat")
    add("sub_arr", v=P[3], shape="col")
    add("sub_scalar", k=1.0)
    for k in (2.0, -1.0, 0.5, 0.0):
        add("mul", k=k)
    add("rmul", k=2.0)
    add("rmul", k=-1.0)
    add("div", k=2.0)
    add("div", k=-4.0)
    add("floordiv_scalar", k=2.0)
    add("floordiv", a=0, b=1)
    add("floordiv", a=1, b=0)
    add("floordiv_raw", v=P[2])
    for nm in ("l2g", "g2l"):
        add(nm, a=0, b=1)
        add(nm, a=1, b=0)
        add(nm, a=0, b=0)
    add("swap")
    return A


ALPHABET = _build_alphabet()
NA = len(ALPHABET)


def _opname(i):
    d = ALPHABET[i]
    return d["op"] + "(" + ",".join("%s=%s" % (k, d[k]) for k in sorted(d) if k != "op") + ")"


def enum_maxlen(tier):
    return 2 if tier == "quick" else 3


def enum_size(tier):
    return sum(NA ** L for L in range(1, enum_maxlen(tier) + 1))


def enum_indices(i, tier):
    for L in range(1, enum_maxlen(tier) + 1):
        if i < NA ** L:
            idx = []
            for _ in range(L):
                idx.append(i % NA)
                i //= NA
            return idx[::-1]
        i -= NA ** L
    raise HarnessError("enumeration index out of range")


def enum_case(idx):
    return {"idx": [int(k) for k in idx], "names": [_opname(k) for k in idx]}


def enum_case_at(i, tier):
    return enum_case(enum_indices(i, tier))


def c_enum(case, ctx, last_only=False):
    idx = [int(k) for k in case["idx"]]
    if any(not 0 <= k < NA for k in idx) or [_opname(k) for k in idx] != list(case["names"]):
        raise HarnessError("replay case does not match the current operation alphabet: %r" % (case,))
    run_history([ALPHABET[k] for k in idx], ctx, label_ops=False, verify_from=len(idx) - 1 if last_only else 0)
    ctx.label("len=%d" % len(idx))


class _LightCtx:
    __slots__ = ("labels", "nontrivial_flag")

    def __init__(self):
        self.labels = []
        self.nontrivial_flag = False

    def label(self, name):
        self.labels.append(name)

    def nontrivial(self, flag=True):
        if flag:
            self.nontrivial_flag = True

    def skip(self, reason):
        raise Skip(reason)

    def note(self, k, v):
        pass


def _fails(idx):
    try:
        c_enum(enum_case(idx), _LightCtx())
    except Skip:
        return None
    except Violation as v:
        return str(v)
    return None


def _shrink(idx, msg):
    """delete operations while the history still fails (bounded delta debugging)."""
    idx = list(idx)
    changed = True
    while changed and len(idx) > 1:
        changed = False
        for k in range(len(idx)):
            cand = idx[:k] + idx[k + 1:]
            m = _fails(cand)
            if m is not None:
                idx, msg, changed = cand, m, True
                break
    return idx, msg


def enum_run_range(lo, hi, tier, stats):
    from vf import ser
    for i in range(lo, hi):
        idx = enum_indices(i, tier)
        case = enum_case(idx)
        ctx = _LightCtx()
        try:
            c_enum(case, ctx, last_only=True)
        except Skip as s:
            stats.skipped[s.reason] += 1
            continue
        except Violation as v:
            # confirm with the plain predicate (every step verified), then shrink with it
            msg = _fails(idx)
            if msg is None:
                raise HarnessError("enumeration failure not confirmed by the full check: %r: %s" % (case, v))
            sidx, msg = _shrink(idx, msg)
            stats.failure = (ser.to_jsonable(enum_case(sidx)), msg)
            break
        stats.evals += 1
        for l in ctx.labels:
            stats.labels[l] += 1
        if ctx.nontrivial_flag:
            stats.nontrivial_bulk += 1
            if len(stats.samples) < stats.MAX_SAMPLES and i % 997 == 0:
                stats.samples.append({"case": ser.to_jsonable(case), "labels": list(ctx.labels)})
    stats.exhaustive = stats.failure is None
    stats.extra["alphabet_size"] = NA if lo == 0 else 0
    stats.extra["max_length"] = enum_maxlen(tier) if lo == 0 else 0


# ----------------------------------------------------------------------------------- (b) random histories

_ROT_SPECIAL = [0.0, 1e-7, -1e-7, 1e-6, math.nextafter(1e-6, 0), math.nextafter(1e-6, 1), 2e-6, 1.0, -1.0, PI - 1e-3,
                -(PI - 1e-3), PI / 2, TWO_PI + 0.5, -(TWO_PI + 0.5), TWO_PI, -TWO_PI, math.nextafter(TWO_PI, 7), 7.0, -7.0,
                10.0, -10.0, 4 * PI + 1.0, -13.0]
_POS_SPECIAL = [0.0, 1.0, -2.5, 10.0]


def _rotcomp():
    return st.one_of(G.floats(-4.0, 4.0), G.floats(-20.0, 20.0), st.sampled_from(_ROT_SPECIAL),
                     G.signed_log_uniform(1e-9, 1e-4))


def _poscomp():
    return st.one_of(G.floats(-10.0, 10.0), st.sampled_from(_POS_SPECIAL))


def _v6():
    wild = st.tuples(_poscomp(), _poscomp(), _poscomp(), _rotcomp(), _rotcomp(), _rotcomp()).map(
        lambda t: np.array(t, dtype=float))
    return st.one_of(G.taas(maxnorm=10.0, maxang=PI - 1e-3), wild)


def _w3():
    return _v6().map(lambda v: v[3:].copy())


_ROTC = _rotcomp()
_POSC = _poscomp()
_IDX = st.integers(0, 7)
_QS = st.sampled_from([1.0, -1.0, 2.0, -0.5, 1e-3, -1e3])
_KMUL = st.one_of(st.sampled_from([2.0, -1.0, 0.5, 0.0, 3.0, 1.0]), G.floats(-3.0, 3.0))
_KDIV = st.one_of(st.sampled_from([2.0, -4.0, 0.5, -1.0]), G.floats(0.25, 4.0), G.floats(-4.0, -0.25))
_KADD = st.one_of(st.sampled_from([1.0, -2.5, TWO_PI, 1e-7]), G.floats(-10.0, 10.0))
_SHAPE = st.sampled_from(["flat", "col"])


def _fd(name, **kw):
    d = {"op": st.just(name)}
    d.update(kw)
    return st.fixed_dictionaries(d)


_SLICES = st.sampled_from([(0, 3), (3, 6), (0, 6), (2, 5), (1, 2), (4, 6), (0, 1), (3, 6), (0, 3)])
_FORMS = st.sampled_from(["list", "flat"])
_FORMS3 = st.sampled_from(["list", "flat", "col", "col"])
_I6 = st.integers(0, 5)
_NEG = st.sampled_from([False, False, False, True])      # index / slice bounds written as negative numbers
_SETNAME = st.sampled_from(["set", "setitem"])
_WHOLE = st.sampled_from([False, False, False, True])
_REL = st.one_of(st.none(), st.none(), st.none(), G.signed_log_uniform(1e-8, 1e-4), G.signed_log_uniform(2e-6, 1e-5))
_HALF = st.sampled_from([None, None, None, None, None, 0, 1, 2, 3, 4, 5])


@st.composite
def _setslice(draw):
    lo, hi = draw(_SLICES)
    vals = [draw(_POSC if k < 3 else _ROTC) for k in range(lo, hi)]
    return {"op": "setslice", "a": draw(_IDX), "lo": lo, "hi": hi, "vals": vals,
            "form": draw(_FORMS3 if hi - lo == 3 else _FORMS), "neg": draw(_NEG)}


@st.composite
def _setone(draw):
    i = draw(_I6)
    return {"op": draw(_SETNAME), "a": draw(_IDX), "i": i, "x": draw(_POSC if i < 3 else _ROTC), "neg": draw(_NEG),
            "rel": draw(_REL)}


def _constructors():
    return st.one_of(
        _fd("c_list6", v=_v6(), whole=_WHOLE), _fd("c_arr6", v=_v6(), whole=_WHOLE), _fd("c_arr61", v=_v6(), whole=_WHOLE),
        _fd("c_list3", w=_w3(), whole=_WHOLE), _fd("c_arr3", w=_w3(), whole=_WHOLE), _fd("c_arr31", w=_w3(), whole=_WHOLE),
        _fd("c_quat_list", v=_v6(), s=_QS, half=_HALF), _fd("c_quat_arr", v=_v6(), s=_QS, half=_HALF),
        _fd("c_rpy_list3", e=_w3()), _fd("c_rpy_arr3", e=_w3()),
        _fd("c_rpy_list6", v=_v6()), _fd("c_rpy_arr6", v=_v6()),
        _fd("c_mat", v=_v6(), half=_HALF), _fd("c_tm", b=_IDX), _fd("c_arr_of_tm", b=_IDX), _fd("c_default"),
        _fd("c_arr6_again", b=_IDX, v=_v6()), _fd("c_from_slice", b=_IDX))


def _setters():
    return st.one_of(
        _fd("sTM", a=_IDX, v=_v6(), half=_HALF), _fd("sTM_from", a=_IDX, b=_IDX),
        _fd("sTAA", a=_IDX, v=_v6(), shape=_SHAPE, whole=_WHOLE), _fd("sTAA_from", a=_IDX, b=_IDX),
        _setone(), _setone(), _setslice(), _setslice(),
        _fd("setQuat", a=_IDX, w=_w3(), s=_QS, aslist=st.booleans(), half=_HALF), _fd("setQuat_get", a=_IDX, b=_IDX),
        _fd("angleMod", a=_IDX), _fd("angleMod_fsr", a=_IDX))


def _producers():
    return st.one_of(
        _fd("copy", a=_IDX), _fd("inv", a=_IDX), _fd("abs", a=_IDX),
        _fd("matmul", a=_IDX, b=_IDX), _fd("matmul_raw", a=_IDX, v=_v6()),
        _fd("add", a=_IDX, b=_IDX), _fd("sub", a=_IDX, b=_IDX),
        _fd("add_arr", a=_IDX, v=_v6(), shape=_SHAPE), _fd("sub_arr", a=_IDX, v=_v6(), shape=_SHAPE),
        _fd("add_scalar", a=_IDX, k=_KADD), _fd("sub_scalar", a=_IDX, k=_KADD),
        _fd("mul", a=_IDX, k=_KMUL), _fd("rmul", a=_IDX, k=_KMUL), _fd("div", a=_IDX, k=_KDIV),
        _fd("floordiv_scalar", a=_IDX, k=_KDIV), _fd("floordiv", a=_IDX, b=_IDX),
        _fd("floordiv_raw", a=_IDX, v=_v6()), _fd("l2g", a=_IDX, b=_IDX), _fd("g2l", a=_IDX, b=_IDX))


def _histories():
    op = st.one_of(_constructors(), _setters(), _setters(), _producers(), _producers())
    return st.fixed_dictionaries({"ops": st.lists(op, min_size=1, max_size=12)})


def c_random(case, ctx):
    ops = case["ops"]
    S = run_history(ops, ctx)
    ctx.label("len %d-%d" % ((len(ops) - 1) // 4 * 4 + 1, (len(ops) - 1) // 4 * 4 + 4))
    ctx.label("live objects %d" % min(len(S.objs), 6))


CLAUSES = [
    Clause("coherent_all_short_histories", c_enum, kind="enum", size=enum_size, case_at=enum_case_at,
           run_range=enum_run_range,
           doc="exhaustive over the palette alphabet; the case is the op-index list (+ op names as a guard)"),
    Clause("coherent_random_histories", c_random, _histories(), 4000, 64000),
]
