"""C02 -- the Numba port computes what the reference Modern Robotics library computes.

Differential check of basic_robotics.modern_robotics_numba.modern_high_performance against the pinned,
vendored copy of modern_robotics 1.1.1 (/verif/vendor/modern_robotics_ref): one clause per shared function,
plus two clauses per iterative IK solver.  The site-packages copy of modern_robotics is never imported.
"""
import copy
import hashlib
import math
import os
import warnings

import numpy as np
from hypothesis import strategies as st

from vf import gen as G
from vf import oracle as O
from vf.core import Clause, HarnessError, Violation, sut

PROPERTY_ID = "C02"

# The 47 functions the property names ("for each of the 47 functions common to ... and modern_robotics").
# The intersection of the public callables of the two modules is computed at run time and must be exactly
# this set, otherwise the run is a harness error (a function dropped from the port must not go unnoticed).
EXPECTED = (
    "NearZero", "Normalize", "RotInv", "VecToso3", "so3ToVec", "AxisAng3", "MatrixExp3", "MatrixLog3",
    "RpToTrans", "TransToRp", "TransInv", "VecTose3", "se3ToVec", "Adjoint", "ScrewToAxis", "AxisAng6",
    "MatrixExp6", "MatrixLog6", "ProjectToSO3", "ProjectToSE3", "DistanceToSO3", "DistanceToSE3",
    "TestIfSO3", "TestIfSE3", "FKinBody", "FKinSpace", "JacobianBody", "JacobianSpace", "IKinBody",
    "IKinSpace", "ad", "InverseDynamics", "MassMatrix", "VelQuadraticForces", "GravityForces",
    "EndEffectorForces", "ForwardDynamics", "EulerStep", "InverseDynamicsTrajectory",
    "ForwardDynamicsTrajectory", "CubicTimeScaling", "QuinticTimeScaling", "JointTrajectory",
    "ScrewTrajectory", "CartesianTrajectory", "ComputedTorque", "SimulateControl",
)
assert len(EXPECTED) == 47 and len(set(EXPECTED)) == 47

RULE = (
    "One Hypothesis clause per shared function (47; list = run-time intersection of the public callables of the "
    "port and of the vendored reference, harness error if it is not the 47 named in the property) plus two clauses "
    "per IK solver. Arguments: float64 C-contiguous arrays and Python floats/ints only; chains of 1..7 unit "
    "revolute (some with pitch) or prismatic screws, link frames in SE(3) built without the library (identity, "
    "cube rotations, half turns, quaternions, rotation vectors of every angle; |p|<=2), SPD spatial inertias "
    "Ad^T diag(Ic,m) Ad with Ic eigenvalues 0.01..5 and m 0.1..50, joint values in [-2pi,2pi] with 12 % on "
    "0, +-pi/2, +-pi,... and 4 % on/inside the 1e-6 NearZero cut-off, rates/accelerations |.|<=10, torques "
    "|.|<=20, gravity |g_i|<=12, tip wrenches |.|<=20, trajectories N=2..12, method 3/5, Tf log-uniform "
    "1e-2..1e2; matrices within 0.1 of SO(3)/SE(3) incl. det<0 and perturbations on both sides of the 1e-3 "
    "TestIf threshold. Integrated trajectories are bounded by (N-1)*intRes*n*(n+3) <= 160 "
    "(ForwardDynamicsTrajectory) / 120 (SimulateControl), dt in [1e-3, 2e-2], initial rates <= 3 (cost and "
    "conditioning of the integration). MatrixLog3/6 take rotations of every angle incl. pi-10^-k and exact half "
    "turns about axes selecting each sub-branch (same bits in => same branch in both libraries; measured: they "
    "agree to < 1e-12 there on 40 000 samples at pi-10^-k). Screw/CartesianTrajectory take Xstart,Xend whose "
    "RELATIVE rotation is <= pi-1e-2: the logarithm of a computed product amplifies the 1e-16 difference between "
    "numpy's and Numba's matrix product by 1/(pi-theta)^2, which exceeds 1e-9 within ~3e-4 of pi although both "
    "are equally right (and equally wrong: known finding C01-near-pi-log); pi-1e-2 leaves a factor 1000; IK cases whose START lies within 2e-5 of a half turn from "
    "the goal are skipped for the same reason. Non-trivial: n>=2, or a non-default branch (prismatic joint, some "
    "|theta_i|>pi/2, method 5, N>=3, det<0, non-zero perturbation), or for the rigid-body functions a rotation "
    "angle >= 1e-6 / non-zero argument; IK: a reported success / both solvers converging from a start that is "
    "not the solution; distinct by digest of the arguments."
)
ASSUMPTIONS = [
    "the reference is the vendored, hash-checked modern_robotics 1.1.1 core.py; it defines the domain: arguments "
    "for which it raises ZeroDivisionError/FloatingPointError/LinAlgError/ValueError or returns NaN/inf are skipped "
    "(counted)",
    "agreement: same container kind and length, same array shapes, max|port-ref| <= 1e-9*max(1,max|ref|) per "
    "returned array (1e-7 for ForwardDynamicsTrajectory and SimulateControl); booleans equal",
    "the NearZero cut-off is a discontinuity: when a rotation angle entering an exponential lies within 1e-12 "
    "relative of 1e-6 the two libraries' norm routines may round to different sides of it.  Such a case is first "
    "compared normally; on mismatch the port must equal, at the same tolerance, the reference evaluated with the "
    "straddling angles moved to one side or the other by a factor 1+-1e-11 (all <=16 assignments are tried); "
    "labelled 'cutoff-straddle: same branch / other branch'.  No tolerance is loosened",
    "TestIfSO3/SE3: a boolean mismatch is skipped only if the reference distance is within 1e-12 of the 1e-3 "
    "threshold",
    "ForwardDynamics, ForwardDynamicsTrajectory, SimulateControl (they invert the mass matrix) and the IK "
    "same-solution clauses: a mismatch is reported only where the reference itself is determined to the tolerance; "
    "if perturbing its float arguments by 1e-14 (twice, opposite sign patterns, zeros included) moves the REFERENCE "
    "result by more than the tolerance (1e-7 for IK), the case is skipped as ill-conditioned (counted).  This test "
    "never looks at the port.  It is deliberately NOT applied to the logarithms, where it would hide wrong branches",
    "IK success is measured with vf/oracle.py (product of exponentials + log in long double / scipy): the angular "
    "and linear parts of the solver's own error twist (body twist for IKinBody, space twist for IKinSpace) must be "
    "<= eomg, ev up to 1e-7*max(1,|p|) for rounding (5e-6*k*max(1,|p|) when k returned joint angles lie in the "
    "NearZero band 1e-9..2e-6, where the library's FK drops the rotation); eomg, ev in [1e-6, 1e-1]",
    "IK flags are not required to agree (the property does not say so); the four combinations are labelled",
]

VERIF = os.path.dirname(os.path.dirname(os.path.abspath(__file__)))
PI = math.pi
TIGHT = 1e-9
INTEGRATED = 1e-7
LOOSE = 5e-6
CUTOFF = 1e-6

# ----------------------------------------------------------------------------------------------
# the two libraries
# ----------------------------------------------------------------------------------------------

_LIBS = None


def _public_callables(mod):
    return {k for k, v in vars(mod).items() if not k.startswith("_") and callable(v)}


def libs():
    """(port module, reference module); verifies the pin and the 47-name intersection once."""
    global _LIBS
    if _LIBS is None:
        from basic_robotics.modern_robotics_numba import modern_high_performance as port
        import vendor.modern_robotics_ref as refpkg
        from vendor.modern_robotics_ref import core as ref
        vend = os.path.realpath(os.path.join(VERIF, "vendor", "modern_robotics_ref")) + os.sep
        if not os.path.realpath(ref.__file__).startswith(vend):
            raise HarnessError("reference imported from %s, not from the vendored copy" % ref.__file__)
        with open(ref.__file__, "rb") as f:
            sha = hashlib.sha256(f.read()).hexdigest()
        if sha != refpkg.CORE_SHA256:
            raise HarnessError("vendored reference core.py changed (sha256 %s)" % sha)
        shared = _public_callables(port) & _public_callables(ref)
        if shared != set(EXPECTED):
            raise HarnessError("functions shared by port and reference are not the 47 of the property: "
                               "missing %s, unexpected %s" % (sorted(set(EXPECTED) - shared),
                                                             sorted(shared - set(EXPECTED))))
        _LIBS = (port, ref)
    return _LIBS


def _close_figures():
    import sys
    if "matplotlib.pyplot" in sys.modules:
        sys.modules["matplotlib.pyplot"].close("all")


# exceptions of the REFERENCE that mean "not a valid argument" (anything else is a bug in this harness)
_REF_DOMAIN_ERRORS = (ZeroDivisionError, FloatingPointError, np.linalg.LinAlgError, ValueError)


def call_ref(name, args):
    """Reference result on a deep copy of args; (ok, value-or-reason)."""
    _, ref = libs()
    try:
        with np.errstate(all="ignore"), warnings.catch_warnings():
            warnings.simplefilter("ignore")
            out = getattr(ref, name)(*copy.deepcopy(args))
    except _REF_DOMAIN_ERRORS as e:
        return False, "reference raises %s" % type(e).__name__
    finally:
        _close_figures()
    if not _all_finite(out):
        return False, "reference yields NaN/inf"
    return True, out


def call_port(name, args):
    port, _ = libs()
    try:
        with warnings.catch_warnings():
            warnings.simplefilter("ignore")
            return sut(getattr(port, name), *copy.deepcopy(args))
    finally:
        _close_figures()


# ----------------------------------------------------------------------------------------------
# structural comparison
# ----------------------------------------------------------------------------------------------

def _is_seq(x):
    return isinstance(x, (tuple, list))


def _is_bool(x):
    return isinstance(x, (bool, np.bool_))


def _all_finite(x):
    if _is_seq(x):
        return all(_all_finite(e) for e in x)
    if x is None:
        return False
    a = np.asarray(x)
    if a.dtype == object:
        return False
    if a.dtype.kind in "fc":
        return bool(np.all(np.isfinite(a)))
    return True


def mismatch(p, r, rtol, what, worst=None):
    """None if port result p agrees with reference result r, else a message.  worst (a 1-element list)
    collects the largest |port-ref| / tolerance seen over the returned arrays."""
    if _is_seq(r):
        if not _is_seq(p):
            return "%s: reference returns a %s, port returns %s" % (what, type(r).__name__, type(p).__name__)
        if isinstance(r, tuple) != isinstance(p, tuple):
            return "%s: container %s vs reference %s" % (what, type(p).__name__, type(r).__name__)
        if len(p) != len(r):
            return "%s: length %d vs reference %d" % (what, len(p), len(r))
        for i, (pe, re_) in enumerate(zip(p, r)):
            m = mismatch(pe, re_, rtol, "%s[%d]" % (what, i), worst)
            if m:
                return m
        return None
    if _is_seq(p) or p is None:
        return "%s: port returns %s, reference an array/scalar" % (what, type(p).__name__)
    if _is_bool(r):
        if not _is_bool(p):
            return "%s: reference returns a bool, port %s" % (what, type(p).__name__)
        return None if bool(p) == bool(r) else "%s: %s vs reference %s" % (what, bool(p), bool(r))
    pa = np.asarray(p)
    ra = np.asarray(r)
    if pa.dtype == object or pa.dtype.kind not in "fiub":
        return "%s: port returns dtype %s" % (what, pa.dtype)
    if pa.shape != ra.shape:
        return "%s: shape %s vs reference %s" % (what, pa.shape, ra.shape)
    pa = pa.astype(float)
    ra = ra.astype(float)
    if not np.all(np.isfinite(pa)):
        return "%s: port result has NaN/inf where the reference is finite" % what
    if ra.size == 0:
        return None
    d = float(np.abs(pa - ra).max())
    t = rtol * max(1.0, float(np.abs(ra).max()))
    if worst is not None:
        worst[0] = max(worst[0], d / t)
    if d > t:
        return "%s: max|port-ref| = %.3g > %.3g (rtol %g)" % (what, d, t, rtol)
    return None


def margin_label(ctx, worst):
    """How close to the tolerance the agreement was (measured, goes into the evidence histogram)."""
    w = worst[0]
    ctx.label("diff = 0" if w == 0 else "diff < 1e-4 tol" if w < 1e-4 else "diff < 1e-2 tol" if w < 1e-2
              else "diff < tol")


def _perturb(x, flip):
    """Every entry of every float array moved by +-1e-14 * max|array| (alternating signs, deterministic; zeros
    move too, so exact structure such as planar chains is broken the way rounding breaks it); floats by 1e-14
    relative."""
    if isinstance(x, np.ndarray):
        if x.dtype.kind != "f" or x.size == 0:
            return x.copy()
        sg = np.where((np.arange(x.size) + flip) % 2 == 0, 1.0, -1.0).reshape(x.shape)
        return np.ascontiguousarray(x + 1e-14 * float(np.abs(x).max()) * sg)
    if isinstance(x, float):
        return x * (1.0 + (1e-14 if flip == 0 else -1e-14))
    if _is_seq(x):
        return type(x)(_perturb(e, flip) for e in x)
    return x


def _rel_change(a, b):
    if _is_seq(a):
        if not _is_seq(b) or len(a) != len(b):
            return math.inf
        return max([0.0] + [_rel_change(x, y) for x, y in zip(a, b)])
    if _is_bool(a):
        return 0.0 if bool(a) == bool(b) else math.inf
    a = np.asarray(a, dtype=float)
    b = np.asarray(b, dtype=float)
    if a.shape != b.shape:
        return math.inf
    if a.size == 0:
        return 0.0
    return float(np.abs(a - b).max()) / max(1.0, float(np.abs(a).max()))


def ref_sensitivity(name, args, r0, perturb_idx):
    """How well the REFERENCE result is determined by its arguments: the largest relative change of any
    returned array under two 1e-14 perturbations (opposite sign patterns) of the arguments listed in
    perturb_idx.  inf if the perturbed reference leaves its domain or changes shape/branch."""
    worst = 0.0
    for flip in (0, 1):
        a2 = list(copy.deepcopy(args))
        for i in perturb_idx:
            a2[i] = _perturb(a2[i], flip)
        ok, r1 = call_ref(name, tuple(a2))
        if not ok:
            return math.inf
        worst = max(worst, _rel_change(r0, r1))
    return worst


def _other_branch_agrees(name, args, p, rtol, straddle):
    """The NearZero cut-off is a discontinuity: for an angle within rounding of 1e-6 the two libraries' norm
    routines may land on different sides of it.  The port is then right iff it equals the reference evaluated
    with the straddling angles moved clearly to one side (factor 1 +- 1e-11, which changes a continuous result
    by 1e-11 relative, far below the tolerance).  True if some assignment of sides reproduces the port's
    result, False if none does, None if there are more than 4 such angles (16 assignments)."""
    import itertools
    pos, mask, kind = straddle
    mask = np.asarray(mask, dtype=bool)
    groups = [np.nonzero(mask)] if kind == "whole" else [tuple(np.array([j]) for j in ij)
                                                         for ij in np.argwhere(mask)]
    if len(groups) > 4:
        return None
    for signs in itertools.product((1.0, -1.0), repeat=len(groups)):
        a2 = list(copy.deepcopy(args))
        arr = np.array(a2[pos], dtype=float)
        for g, sg in zip(groups, signs):
            arr[g] = arr[g] * (1.0 + sg * 1e-11)
        a2[pos] = np.ascontiguousarray(arr)
        ok, r2 = call_ref(name, tuple(a2))
        if ok and mismatch(p, r2, rtol, name) is None:
            return True
    return False


def differential(name, args, ctx, rtol=TIGHT, straddle=None, cond_idx=None):
    """Reference first (it defines the domain), then the port through sut(); compare.
    straddle = (position of the argument holding rotation angles, boolean mask of its entries whose angle is
    within 1e-12 relative of the 1e-6 cut-off, "each" entry its own angle | the "whole" mask one angle) or None."""
    ok, r = call_ref(name, args)
    if not ok:
        ctx.skip(r)
    p = call_port(name, args)          # LibError (a Violation) if the port raises where the reference returned
    worst = [0.0]
    m = mismatch(p, r, rtol, name, worst)
    if straddle is not None and np.any(straddle[1]):
        if m:
            res = _other_branch_agrees(name, args, p, rtol, straddle)
            if res is None:
                ctx.skip("more than 4 rotation angles sit on the 1e-6 cut-off")
            if res:
                ctx.label("cutoff-straddle: other branch")
                return p, r
        else:
            ctx.label("cutoff-straddle: same branch")
    if m:
        if cond_idx is not None:
            s = ref_sensitivity(name, args, r, cond_idx)
            if s > rtol:
                ctx.skip("ill-conditioned: reference moves by more than the tolerance under a 1e-14 relative "
                         "perturbation of its arguments")
        raise Violation(m)
    margin_label(ctx, worst)
    return p, r


# ----------------------------------------------------------------------------------------------
# strategies.  Every strategy object is built once at import (Hypothesis re-validates strategies that are
# created inside a composite on every draw, which made a 7-joint dynamic model cost 40 ms to generate);
# values are assembled from tuples/lists by plain functions.
# ----------------------------------------------------------------------------------------------

def on_cutoff(a):
    """Rotation angle within 1e-12 relative of the library's 1e-6 NearZero cut-off (norm routines differ by
    ~1e-16 relative, so outside this zone both libraries take the same branch)."""
    return abs(abs(a) - CUTOFF) <= CUTOFF * 1e-12


def joint_straddle(pos, S, q):
    """straddle descriptor for a joint vector (or N x n matrix of joint values) at argument position pos."""
    wn = np.linalg.norm(S[:3], axis=0)
    q = np.asarray(q, dtype=float)
    ang = np.abs(q) * wn
    return (pos, np.abs(ang - CUTOFF) <= CUTOFF * 1e-12, "each")


def whole_straddle(size, th):
    """straddle descriptor for an so(3) (size 3) or se(3) (size 4) matrix argument of rotation angle th."""
    mask = np.zeros((size, size), dtype=bool)
    mask[:3, :3] = on_cutoff(th)
    return (0, mask, "whole")


def carr(a):
    return np.ascontiguousarray(np.asarray(a, dtype=float))


_F11 = G.floats(-1.0, 1.0)
_F22 = G.floats(-2.0, 2.0)
_FPI = G.floats(-PI, PI)
_AXES = [(1, 0, 0), (-1, 0, 0), (0, 1, 0), (0, -1, 0), (0, 0, 1), (0, 0, -1)]


def _unit_from(t):
    kind, k, a, z = t
    if kind == "axis":
        return np.array(_AXES[k], dtype=float)
    if kind == "plane":
        v = [math.cos(a), math.sin(a)]
        v.insert(k % 3, 0.0)
        return np.array(v, dtype=float)
    r = math.sqrt(max(0.0, 1 - z * z))
    v = np.array([r * math.cos(a), r * math.sin(a), z], dtype=float)
    nv = np.linalg.norm(v)
    return v / nv if nv > 0 else np.array([0.0, 0.0, 1.0])


UNIT = st.tuples(st.sampled_from(["axis", "plane", "generic", "generic"]), st.integers(0, 5), _FPI, _F11).map(
    _unit_from)


def _cube_rotations():
    import itertools
    out = []
    for perm in itertools.permutations(range(3)):
        for signs in itertools.product((1.0, -1.0), repeat=3):
            R = np.zeros((3, 3))
            for i in range(3):
                R[i, perm[i]] = signs[i]
            if np.linalg.det(R) > 0:
                out.append(R)
    return out


_CUBE = _cube_rotations()          # the 24 rotations with entries in {0, +-1} (as in the docstring examples)
_ANGLES = G.angles_full()


def _rot_from(t):
    kind, u, ang, q, k = t
    if kind == "identity":
        return np.eye(3)
    if kind == "halfturn":
        return 2 * np.outer(u, u) - np.eye(3)
    if kind == "cube":
        return _CUBE[k].copy()
    if kind == "quat":
        q = np.array(q)
        if np.linalg.norm(q) < 1e-3:
            q = np.array([0.0, 0.0, 0.0, 1.0])
        return O.quat_to_R(q / np.linalg.norm(q))
    return O.exp3(ang * u)


ROT = st.tuples(st.sampled_from(["identity", "halfturn", "cube", "rotvec", "rotvec", "quat", "quat"]), UNIT, _ANGLES,
                st.lists(_F11, min_size=4, max_size=4), st.integers(0, 23)).map(_rot_from)


def _pos_from(scale):
    def f(t):
        kind, v, k = t
        if kind == "zero":
            return np.zeros(3)
        if kind == "axis":
            p = np.zeros(3)
            p[k] = v[0] * scale
            return p
        return np.array(v) * scale
    return f


def pos_strategy(scale):
    return st.tuples(st.sampled_from(["zero", "axis", "box", "box"]), st.lists(_F11, min_size=3, max_size=3),
                     st.integers(0, 2)).map(_pos_from(scale))


def frame_strategy(scale):
    return st.tuples(ROT, pos_strategy(scale)).map(lambda t: carr(O.rp(t[0], t[1])))


FRAME2 = frame_strategy(2.0)       # link frames
FRAME5 = frame_strategy(5.0)       # home / goal configurations
FRAME10 = frame_strategy(10.0)


def _screw_from(t):
    k, u, q, h = t
    if k == 0:
        return np.concatenate([np.zeros(3), u])
    q = np.array(q)
    return np.concatenate([u, np.cross(q, u) + h * u])


SCREW = st.tuples(st.integers(0, 5), UNIT, st.lists(_F22, min_size=3, max_size=3),
                  st.sampled_from([0.0, 0.0, 0.0, 0.1, -0.5])).map(_screw_from)


def _inertia_from(t):
    m, a, Rp, displaced, Rc, c = t
    Ic = Rp @ np.diag(a) @ Rp.T
    G0 = np.zeros((6, 6))
    G0[:3, :3] = (Ic + Ic.T) / 2
    G0[3:, 3:] = m * np.eye(3)
    if not displaced:
        return G0
    A = O.Ad(O.rp(Rc, np.array(c)))
    Gm = A.T @ G0 @ A
    return (Gm + Gm.T) / 2


# G = Ad(Tc)^T diag(Ic, m 1) Ad(Tc): SPD Ic (eigenvalues 0.01..5), mass 0.1..50, COM offset <= 0.5 per axis
INERTIA = st.tuples(G.floats(0.1, 50.0), st.lists(G.floats(0.01, 5.0), min_size=3, max_size=3), ROT, st.booleans(),
                    ROT, st.lists(G.floats(-0.5, 0.5), min_size=3, max_size=3)).map(_inertia_from)

_JOINT_COMMON = st.sampled_from([0.0, 0.0, PI / 2, -PI / 2, PI, -PI, 2.0, -2.5, 1.0, 3.0])
_JOINT_BAND = st.sampled_from([CUTOFF, -CUTOFF, math.nextafter(CUTOFF, 0), math.nextafter(CUTOFF, 1), 1e-7, -3e-7,
                               1.5e-6])
# ~80 % generic in [-pi,pi] or [-2pi,2pi], 12 % a common special value, 4 % on / inside the NearZero cut-off.
# The selector avoids 0 and the end points, which Hypothesis over-samples.
JOINT = st.tuples(st.integers(0, 49), _FPI, G.floats(-2 * PI, 2 * PI), _JOINT_COMMON, _JOINT_BAND).map(
    lambda t: t[4] if t[0] in (23, 24) else t[3] if 10 <= t[0] <= 15 else t[2] if 30 <= t[0] <= 37 else t[1])


def fvec(n, elem):
    return st.lists(elem, min_size=n, max_size=n).map(lambda l: np.array(l, dtype=float))


def fmat(N, n, elem):
    return st.lists(elem, min_size=N * n, max_size=N * n).map(lambda l: carr(np.array(l, dtype=float).reshape(N, n)))


def joint_vec(n):
    return fvec(n, JOINT)


# Integrated trajectories: a joint coordinate is a real number, not an angle in a principal range -- a spinning axis
# or a prismatic joint passes +-2*pi during a run, so starts next to (and beyond) one revolution are ordinary inputs
_JOINT_WIDE = st.one_of(JOINT, JOINT, G.floats(-10.0, 10.0),
                        st.sampled_from([6.2, 6.28, 6.3, -6.2, -6.28, -6.3, 7.0, -7.0, 2 * PI, -2 * PI]))


def joint_vec_wide(n):
    return fvec(n, _JOINT_WIDE)


_F10 = G.floats(-10.0, 10.0)
_F20 = G.floats(-20.0, 20.0)
_F3 = G.floats(-3.0, 3.0)

GRAVITY = st.one_of(
    st.sampled_from([(0.0, 0.0, -9.81), (0.0, 0.0, -9.8), (0.0, 0.0, 0.0), (0.0, -9.81, 0.0)]).map(
        lambda t: np.array(t, dtype=float)),
    fvec(3, G.floats(-12.0, 12.0)),
)
FTIP = st.one_of(fvec(6, _F20), fvec(6, _F20), st.just(np.zeros(6)))
GAIN = st.one_of(G.floats(0.0, 30.0), st.sampled_from([0.0, 1.3, 20.0]))
DT = st.one_of(G.floats(1e-3, 2e-2), st.sampled_from([0.01, 0.001]))

NONZERO_VEC3 = st.tuples(st.sampled_from(["generic", "box", "generic", "generic", "box", "generic", "generic", "box",
                                          "generic", "zero"]), UNIT,
                         G.log_uniform(1e-6, 1e3), st.lists(G.floats(-1e3, 1e3), min_size=3, max_size=3)).map(
    lambda t: np.zeros(3) if t[0] == "zero" else np.array(t[3]) if t[0] == "box" else t[1] * t[2])


def chain_strategy(n):
    return st.lists(SCREW, min_size=n, max_size=n).map(lambda l: carr(np.stack(l, axis=1)))


def model_strategy(n):
    """Open chain with dynamics: Slist 6xn, Mlist (n+1)x4x4, Glist nx6x6 (ndarrays, as in the docstrings)."""
    return st.tuples(chain_strategy(n), st.lists(FRAME2, min_size=n + 1, max_size=n + 1),
                     st.lists(INERTIA, min_size=n, max_size=n)).map(
        lambda t: {"Slist": t[0], "Mlist": carr(np.stack(t[1])), "Glist": carr(np.stack(t[2]))})


def per_n(lo, hi, build):
    """integers(lo,hi).flatmap(build) with the per-n strategies built (and validated) only once."""
    table = {n: build(n) for n in range(lo, hi + 1)}
    return st.integers(lo, hi).flatmap(table.__getitem__)


def chain_labels(ctx, S, q=None):
    n = S.shape[1]
    ctx.label("n=%d" % n)
    pris = bool(np.any(np.all(S[:3] == 0, axis=0)))
    if pris:
        ctx.label("has prismatic")
    big = q is not None and bool(np.any(np.abs(q) > PI / 2))
    if big:
        ctx.label("some |theta|>pi/2")
    return n >= 2 or pris or big


def joint_angles(S, q):
    """Rotation angles |theta_i|*|w_i| entering the library's exponentials."""
    return [abs(float(q[i])) * float(np.linalg.norm(S[:3, i])) for i in range(len(q))]


def _near_so3_from(t):
    R, kind, lsc, psc, E, col = t
    if kind in ("exact", "det<0"):
        A = R.copy()
    else:
        sc = {"tiny": 10.0 ** (-12 + 7 * lsc), "threshold": 10.0 ** (-4 + 2 * lsc)}.get(kind, psc)
        A = R + sc * np.array(E).reshape(3, 3)
    if kind.startswith("det<0"):
        A[:, col] *= -1.0
    return {"mat": carr(A), "kind": kind}


# matrices within 0.1 (per entry) of SO(3): exact, perturbed by 1e-12..1e-5, by 1e-4..1e-2 (around the 1e-3
# threshold of TestIf*), by 0.01..0.1; and the same reflected (det<0)
NEAR_SO3 = st.tuples(ROT, st.sampled_from(["pert", "det<0 pert", "threshold", "det<0", "tiny", "pert", "det<0 pert",
                                           "exact"]),
                     G.floats(0.0, 1.0), G.floats(0.01, 0.1), st.lists(_F11, min_size=9, max_size=9),
                     st.integers(0, 2)).map(_near_so3_from)


def _near_se3_from(t):
    d, p, row, e = t
    T = np.eye(4)
    T[:3, :3] = d["mat"]
    T[:3, 3] = p
    if row != "exact":
        T[3] += {"tiny": 1e-9, "threshold": 1e-3, "pert": 0.1}[row] * np.array(e)
    return {"mat": carr(T), "kind": d["kind"] + ("" if row == "exact" else " row:" + row)}


NEAR_SE3 = st.tuples(NEAR_SO3, pos_strategy(10.0), st.sampled_from(["exact", "exact", "tiny", "threshold", "pert"]),
                     st.lists(_F11, min_size=4, max_size=4)).map(_near_se3_from)

TF = st.one_of(G.log_uniform(1e-2, 1e2), st.sampled_from([1.0, 2.0, 5.0, 0.5]))
METHOD = st.sampled_from([3, 5])
NSAMPLES = st.one_of(st.integers(3, 12), st.integers(2, 12))
RELMAX = PI - 1e-2


def _relative_from(t):
    Xs, kind, u, ang, small, p = t
    if kind in ("same", "pure translation"):
        w = np.zeros(3)
    elif kind == "tiny":
        w = u * small
    elif kind == "max":
        w = u * RELMAX
    else:
        w = u * ang
    if kind == "same":
        p = np.zeros(3)
    Xe = Xs @ O.rp(O.exp3(w), p)
    return {"Xstart": carr(Xs), "Xend": carr(Xe), "rel": kind, "relang": float(np.linalg.norm(w))}


# Xstart, Xend in SE(3) whose RELATIVE rotation angle is at most pi-1e-2 (see RULE)
RELATIVE_POSES = st.tuples(FRAME10, st.sampled_from(["generic", "generic", "generic", "same", "pure translation",
                                                     "tiny", "max"]),
                           UNIT, G.floats(1e-3, RELMAX), G.log_uniform(1e-9, 1e-4), pos_strategy(10.0)).map(
    _relative_from)


def cap_sim(n, N, intRes, cap):
    """Bound (N-1)*intRes*n*(n+3) (number of joint-level Newton-Euler passes) by lowering intRes and N."""
    while (N - 1) * intRes * n * (n + 3) > cap:
        if intRes > 1 and (N <= 3 or intRes >= N - 1):
            intRes -= 1
        elif N > 2:
            N -= 1
        else:
            break
    return N, intRes


# ----------------------------------------------------------------------------------------------
# clause bodies: rigid-body algebra
# ----------------------------------------------------------------------------------------------

def _ang_label(ctx, th):
    if th == 0:
        ctx.label("ang=0")
    elif th < CUTOFF:
        ctx.label("ang<1e-6")
    elif th < 2e-6:
        ctx.label("ang~1e-6+")
    elif abs(th - PI) < 2e-5:
        ctx.label("ang~pi")
    elif th < PI:
        ctx.label("ang generic<pi")
    else:
        ctx.label("ang>pi")


def c_NearZero(case, ctx):
    z = case["z"]
    ctx.label("|z|<1e-6" if abs(z) < 1e-6 else "|z|>=1e-6")
    ctx.nontrivial(z != 0)
    differential("NearZero", (z,), ctx)


def c_Normalize(case, ctx):
    v = case["V"]
    ctx.nontrivial(np.any(v != 0))
    differential("Normalize", (v,), ctx)


def c_RotInv(case, ctx):
    R = carr(case["T"][:3, :3])
    th = O.angle(R)
    _ang_label(ctx, th)
    ctx.nontrivial(th >= 1e-6)
    differential("RotInv", (R,), ctx)


def c_VecToso3(case, ctx):
    ctx.nontrivial(np.any(case["omg"] != 0))
    differential("VecToso3", (case["omg"],), ctx)


def c_so3ToVec(case, ctx):
    ctx.nontrivial(np.any(case["omg"] != 0))
    differential("so3ToVec", (carr(O.hat3(case["omg"])),), ctx)


def c_AxisAng3(case, ctx):
    w = case["w"]
    th = float(np.linalg.norm(w))
    _ang_label(ctx, th)
    ctx.nontrivial(th >= 1e-6)
    differential("AxisAng3", (w,), ctx)


def c_MatrixExp3(case, ctx):
    w = case["w"]
    th = float(np.linalg.norm(w))
    _ang_label(ctx, th)
    ctx.nontrivial(th >= 1e-6)
    differential("MatrixExp3", (carr(O.hat3(w)),), ctx, straddle=whole_straddle(3, th))


def _log_branch_label(ctx, R):
    """Which branch of the library's logarithm the input selects (measured from the input, MR's own tests)."""
    ac = (R[0, 0] + R[1, 1] + R[2, 2] - 1) / 2.0
    if ac >= 1:
        ctx.label("log branch: identity")
    elif ac <= -1:
        ctx.label("log branch: half turn via " + ("R22" if abs(1 + R[2, 2]) >= 1e-6 else
                                                  "R11" if abs(1 + R[1, 1]) >= 1e-6 else "R00"))
    else:
        ctx.label("log branch: generic")


def c_MatrixLog3(case, ctx):
    R = carr(case["T"][:3, :3])
    th = O.angle(R)
    _ang_label(ctx, th)
    _log_branch_label(ctx, R)
    ctx.nontrivial(th >= 1e-6)
    differential("MatrixLog3", (R,), ctx)


def c_RpToTrans(case, ctx):
    T = case["T"]
    ctx.nontrivial(O.angle(T[:3, :3]) >= 1e-6 and np.any(T[:3, 3] != 0))
    differential("RpToTrans", (carr(T[:3, :3]), carr(T[:3, 3])), ctx)


def c_TransToRp(case, ctx):
    T = case["T"]
    ctx.nontrivial(O.angle(T[:3, :3]) >= 1e-6 and np.any(T[:3, 3] != 0))
    differential("TransToRp", (T,), ctx)


def c_TransInv(case, ctx):
    T = case["T"]
    ctx.nontrivial(O.angle(T[:3, :3]) >= 1e-6 and np.any(T[:3, 3] != 0))
    differential("TransInv", (T,), ctx)


def c_VecTose3(case, ctx):
    ctx.nontrivial(np.count_nonzero(case["V"]) >= 2)
    differential("VecTose3", (case["V"],), ctx)


def c_se3ToVec(case, ctx):
    ctx.nontrivial(np.count_nonzero(case["V"]) >= 2)
    differential("se3ToVec", (carr(O.hat6(case["V"])),), ctx)


def c_Adjoint(case, ctx):
    T = case["T"]
    ctx.nontrivial(O.angle(T[:3, :3]) >= 1e-6 and np.any(T[:3, 3] != 0))
    differential("Adjoint", (T,), ctx)


def c_ScrewToAxis(case, ctx):
    ctx.label("h=0" if case["h"] == 0 else "h!=0")
    ctx.nontrivial(np.any(case["q"] != 0))
    differential("ScrewToAxis", (case["q"], case["s"], case["h"]), ctx)


def c_AxisAng6(case, ctx):
    V = case["V"]
    th = float(np.linalg.norm(V[:3]))
    _ang_label(ctx, th)
    ctx.nontrivial(th >= 1e-6 or np.any(V[3:] != 0))
    mask = np.zeros(6, dtype=bool)
    mask[:3] = on_cutoff(th)          # |w| on the cut-off: normalised by |w| or by |v|
    differential("AxisAng6", (V,), ctx, straddle=(0, mask, "whole"))


def c_MatrixExp6(case, ctx):
    V = case["V"]
    th = float(np.linalg.norm(V[:3]))
    _ang_label(ctx, th)
    ctx.nontrivial(th >= 1e-6)
    differential("MatrixExp6", (carr(O.hat6(V)),), ctx, straddle=whole_straddle(4, th))


def c_MatrixLog6(case, ctx):
    T = case["T"]
    th = O.angle(T[:3, :3])
    _ang_label(ctx, th)
    _log_branch_label(ctx, T[:3, :3])
    ctx.nontrivial(th >= 1e-6)
    differential("MatrixLog6", (T,), ctx)


def _mat_case(name):
    def check(case, ctx):
        A = case["mat"]
        ctx.label(case["kind"])
        ctx.nontrivial(case["kind"] != "exact")
        if name.startswith("TestIf"):
            ok, r = call_ref(name, (A,))
            if not ok:
                ctx.skip(r)
            p = call_port(name, (A,))
            ctx.label("ref=%s" % bool(r))
            m = mismatch(p, r, TIGHT, name)
            if m:
                _, ref = libs()
                d = getattr(ref, "DistanceTo" + name[6:])(A.copy())
                if abs(d - 1e-3) <= 1e-12:
                    ctx.skip("distance within 1e-12 of the 1e-3 threshold: the boolean is not determined")
                raise Violation(m)
        else:
            differential(name, (A,), ctx)
    return check


# ----------------------------------------------------------------------------------------------
# kinematics
# ----------------------------------------------------------------------------------------------

def c_FKinBody(case, ctx):
    S, q, M = case["Blist"], case["q"], case["M"]
    ctx.nontrivial(chain_labels(ctx, S, q))
    differential("FKinBody", (M, S, q), ctx, straddle=joint_straddle(2, S, q))


def c_FKinSpace(case, ctx):
    S, q, M = case["Slist"], case["q"], case["M"]
    ctx.nontrivial(chain_labels(ctx, S, q))
    differential("FKinSpace", (M, S, q), ctx, straddle=joint_straddle(2, S, q))


def c_JacobianBody(case, ctx):
    S, q = case["Blist"], case["q"]
    ctx.nontrivial(chain_labels(ctx, S, q))
    differential("JacobianBody", (S, q), ctx, straddle=joint_straddle(1, S, q))


def c_JacobianSpace(case, ctx):
    S, q = case["Slist"], case["q"]
    ctx.nontrivial(chain_labels(ctx, S, q))
    differential("JacobianSpace", (S, q), ctx, straddle=joint_straddle(1, S, q))


def c_ad(case, ctx):
    ctx.nontrivial(np.count_nonzero(case["V"]) >= 2)
    differential("ad", (case["V"],), ctx)


# ---- inverse kinematics ---------------------------------------------------------------------

def _ik_args(case, body):
    S = case["S"]
    M = case["M"]
    qstar = case["qstar"]
    if case["goal"] == "reachable":
        T = O.poe_body(M, S, qstar) if body else O.poe_space(M, S, qstar)
    else:
        T = case["Tfree"]
    q0 = qstar + case["delta"]
    if case.get("warm") is not None:
        # a WARM start: off the solution by a fraction / small multiple of the tolerances (a tracking loop re-solving
        # from its last answer), so that the very first convergence test decides - in whichever frame it is made
        d = np.asarray(case["delta"], dtype=float)
        nd = float(np.linalg.norm(d))
        d = d / nd if nd > 0 else np.ones_like(d) / math.sqrt(len(d))
        q0 = qstar + d * float(case["warm"]) * min(float(case["eomg"]), float(case["ev"]))
    return (S, M, carr(T), carr(q0), float(case["eomg"]), float(case["ev"]))


NEAR_PI_SKIP = ("start within 2e-5 rad of a half turn from the goal: the first error twist is a logarithm in the band "
                "of known finding C01-near-pi-log (port and reference are equally wrong there and round differently)")


def _ik_start_near_pi(args, body):
    S, M, T, q0 = args[:4]
    T0 = O.poe_body(M, S, q0) if body else O.poe_space(M, S, q0)
    return PI - O.rot_angle_between(T0[:3, :3], T[:3, :3]) < 2e-5


def _ik_shape(name, out, n):
    if not (isinstance(out, tuple) and len(out) == 2):
        raise Violation("%s: does not return a (thetalist, success) pair" % name)
    th, okflag = out
    th = np.asarray(th)
    if th.shape != (n,) or th.dtype.kind != "f":
        raise Violation("%s: thetalist has shape %s dtype %s" % (name, th.shape, th.dtype))
    if not _is_bool(okflag):
        raise Violation("%s: success flag is %s" % (name, type(okflag).__name__))
    return th.astype(float), bool(okflag)


def _ik_labels(ctx, case):
    ctx.label("goal " + case["goal"])
    d = float(np.abs(case["delta"]).max()) if len(case["delta"]) else 0.0
    if case.get("warm") is not None:
        ctx.label("start warm (within %s tolerances of the solution)" % ("1" if case["warm"] <= 1 else "30"))
    else:
        ctx.label("start " + ("exact" if d == 0 else "near" if d <= 0.05 else "medium" if d <= 0.6 else "far"))
    ctx.label("n=%d" % case["S"].shape[1])


def _ik_success(name, body):
    def check(case, ctx):
        args = _ik_args(case, body)
        S, M, T, q0, eomg, ev = args
        n = S.shape[1]
        _ik_labels(ctx, case)
        if _ik_start_near_pi(args, body):
            ctx.skip(NEAR_PI_SKIP)
        ok, r = call_ref(name, args)
        if not ok:
            ctx.skip(r)
        th, success = _ik_shape(name, call_port(name, args), n)
        ctx.label("port success" if success else "port failure")
        ctx.nontrivial(success and (n >= 2 or case["goal"] != "reachable"))
        if not success:
            return
        if not np.all(np.isfinite(th)):
            raise Violation("%s reports success with non-finite joint values" % name)
        Tfk = O.poe_body(M, S, th) if body else O.poe_space(M, S, th)
        Vb = O.log6(O.inv(Tfk) @ T)
        V = Vb if body else O.Ad(Tfk) @ Vb
        scale = max(1.0, float(np.linalg.norm(Tfk[:3, 3])), float(np.linalg.norm(T[:3, 3])),
                    float(np.abs(S[3:]).max()))
        k = sum(1 for a in joint_angles(S, th) if 1e-9 < a < 2e-6)
        slack = (LOOSE * k if k else 1e-7) * scale
        if k:
            ctx.label("solution in NearZero band")
        eo = float(np.linalg.norm(V[:3]))
        el = float(np.linalg.norm(V[3:]))
        ctx.note("err_ang/eomg", eo / eomg)
        ctx.note("err_lin/ev", el / ev)
        if eo > eomg + slack:
            raise Violation("%s reports success but the orientation error is %.6g > eomg %.6g (+%.2g)"
                            % (name, eo, eomg, slack))
        if el > ev + slack:
            raise Violation("%s reports success but the position error is %.6g > ev %.6g (+%.2g)"
                            % (name, el, ev, slack))
    return check


def _ik_same(name, body):
    def check(case, ctx):
        args = _ik_args(case, body)
        n = args[0].shape[1]
        _ik_labels(ctx, case)
        if _ik_start_near_pi(args, body):
            ctx.skip(NEAR_PI_SKIP)
        ok, r = call_ref(name, args)
        if not ok:
            ctx.skip(r)
        rth, rsucc = np.asarray(r[0], dtype=float), bool(r[1])
        pth, psucc = _ik_shape(name, call_port(name, args), n)
        ctx.label({(True, True): "both converge", (True, False): "only reference converges",
                   (False, True): "only port converges", (False, False): "neither converges"}[(rsucc, psucc)])
        ctx.nontrivial(rsucc and psucc and float(np.abs(case["delta"]).max()) > 0)
        if not (rsucc and psucc):
            return
        d = float(np.linalg.norm(pth - rth))
        t = 1e-6 * max(1.0, float(np.abs(rth).max()))
        if d > t:
            s = ref_sensitivity(name, args, r, (0, 1, 2, 3))
            if s > 1e-7:
                ctx.skip("ill-conditioned: the reference's own solution moves by more than 1e-7 under a 1e-14 "
                         "perturbation of its arguments (Newton steps through a near-singular Jacobian)")
            raise Violation("%s: both converge from the same start but |theta_port - theta_ref| = %.3g > %.3g"
                            % (name, d, t))
    return check


def _ik_budget(name, body):
    """The solvers stop after at most 20 Newton updates, and 'converged' is judged AFTER each update, the 20th
    included.  A planar chain asked to stretch out fully converges linearly (singular solution), so the position error
    shrinks by a steady factor per update; the tolerance is placed between the errors after updates k-1 and k (k = 19,
    20, 21, measured by running the REFERENCE's own step formula), which makes the reference converge at exactly that
    update: success for k <= 20, failure for k = 21.  The port must say the same."""
    def check(case, ctx):
        _, ref = libs()
        lens = [float(x) for x in case["lens"]]
        n = len(lens)
        xs = np.concatenate([[0.0], np.cumsum(lens)[:-1]])
        S = np.zeros((6, n))
        for i in range(n):
            S[:, i] = [0.0, 0.0, 1.0, 0.0, -xs[i], 0.0]
        M = np.eye(4)
        M[0, 3] = float(sum(lens))
        A = S if not body else O.Ad(O.inv(M)) @ S
        A = np.ascontiguousarray(A)
        T = M.copy()
        q0 = np.asarray(case["q0"], dtype=float)[:n].copy()
        k = int(case["k"])
        ctx.label("n=%d" % n)
        ctx.label("first convergence at update %d" % k)
        def run(start):
            th = start.copy()
            seq, big = [], 0.0
            with np.errstate(all="ignore"):
                for i in range(23):
                    if body:
                        V = ref.se3ToVec(ref.MatrixLog6(np.dot(ref.TransInv(ref.FKinBody(M, A, th)), T)))
                        J = ref.JacobianBody(A, th)
                    else:
                        Tsb = ref.FKinSpace(M, A, th)
                        V = np.dot(ref.Adjoint(Tsb), ref.se3ToVec(ref.MatrixLog6(np.dot(ref.TransInv(Tsb), T))))
                        J = ref.JacobianSpace(A, th)
                    seq.append((float(np.linalg.norm(V[:3])), float(np.linalg.norm(V[3:]))))
                    th = th + np.dot(np.linalg.pinv(J), V)
                    big = max(big, float(np.abs(th).max()))
            return seq, big

        seq, big = run(q0)
        # The same iteration from a start moved by parts in 1e13: a Newton path that steps through near-singular
        # Jacobians amplifies such a difference (and the port's differently rounded pseudo-inverse) until the two runs
        # have nothing to do with each other; only paths that are insensitive to it say anything about the loop bound.
        seq2, big2 = run(q0 * (1.0 + 1e-13) + 1e-13)
        if not np.all(np.isfinite(np.array(seq))):
            ctx.skip("reference iteration not finite")
        which = None
        for c in (1, 0):            # position error first (the orientation of a planar chain is linear in the joints)
            tail = [seq[i][c] for i in range(k - 4, k + 1)]
            if all(tail[j + 1] < 0.9 * tail[j] for j in range(4)) and tail[-1] > 1e-11 and all(seq[i][c] > tail[-2] * 0.999 for i in range(k)):
                which = c
                break
        if which is None:
            ctx.skip("no steadily shrinking error around update %d (converged earlier, or not converging)" % k)
        if not np.all(np.isfinite(np.array(seq2))) or max(big, big2) > 50.0 or any(
                abs(seq2[i][which] / seq[i][which] - 1.0) > 1e-3 for i in (k - 1, k)):
            ctx.skip("Newton path sensitive to a 1e-13 change of the start (wanders through near-singular Jacobians)")
        tolv = math.sqrt(seq[k - 1][which] * seq[k][which])
        other = 1e6
        # the other criterion must already hold at update k (it is set far above anything the iteration produces)
        eomg, ev = (tolv, other) if which == 0 else (other, tolv)
        args = (A, M, carr(T), carr(q0), float(eomg), float(ev))
        ok, r = call_ref(name, args)
        if not ok:
            ctx.skip(r)
        rsucc = bool(r[1])
        if rsucc != (k <= 20):
            ctx.skip("the reference does not converge at the update the step-by-step run predicts")
        ctx.nontrivial(True)
        pth, psucc = _ik_shape(name, call_port(name, args), n)
        if psucc != rsucc:
            raise Violation("%s: tolerance placed so that the reference first meets it after update %d of at most 20: "
                            "reference reports success=%s, port reports success=%s" % (name, k, rsucc, psucc))
        if rsucc:
            d = float(np.linalg.norm(pth - np.asarray(r[0], dtype=float)))
            if d > 1e-6 * max(1.0, float(np.abs(r[0]).max())):
                s_ = ref_sensitivity(name, args, r, (0, 1, 2, 3))
                if s_ <= 1e-7:
                    raise Violation("%s: both converge at update %d but |theta_port - theta_ref| = %.3g" % (name, k, d))
    return check



# ----------------------------------------------------------------------------------------------
# dynamics
# ----------------------------------------------------------------------------------------------

def _dyn_common(case, ctx, extra_nt=False):
    S, q = case["model"]["Slist"], case["q"]
    ctx.nontrivial(chain_labels(ctx, S, q) or extra_nt)
    return case["model"]["Mlist"], case["model"]["Glist"], S, joint_straddle(0, S, q)


def c_InverseDynamics(case, ctx):
    Ml, Gl, S, sd = _dyn_common(case, ctx)
    differential("InverseDynamics", (case["q"], case["dq"], case["ddq"], case["g"], case["Ftip"], Ml, Gl, S),
                 ctx, straddle=sd)


def c_MassMatrix(case, ctx):
    Ml, Gl, S, sd = _dyn_common(case, ctx)
    differential("MassMatrix", (case["q"], Ml, Gl, S), ctx, straddle=sd)


def c_VelQuadraticForces(case, ctx):
    Ml, Gl, S, sd = _dyn_common(case, ctx)
    differential("VelQuadraticForces", (case["q"], case["dq"], Ml, Gl, S), ctx, straddle=sd)


def c_GravityForces(case, ctx):
    Ml, Gl, S, sd = _dyn_common(case, ctx)
    differential("GravityForces", (case["q"], case["g"], Ml, Gl, S), ctx, straddle=sd)


def c_EndEffectorForces(case, ctx):
    Ml, Gl, S, sd = _dyn_common(case, ctx)
    differential("EndEffectorForces", (case["q"], case["Ftip"], Ml, Gl, S), ctx, straddle=sd)


def c_ForwardDynamics(case, ctx):
    Ml, Gl, S, sd = _dyn_common(case, ctx)
    differential("ForwardDynamics", (case["q"], case["dq"], case["tau"], case["g"], case["Ftip"], Ml, Gl, S),
                 ctx, straddle=sd, cond_idx=(0, 1, 2, 3, 4, 5, 6, 7))


def c_EulerStep(case, ctx):
    ctx.label("n=%d" % len(case["q"]))
    ctx.nontrivial(len(case["q"]) >= 2)
    differential("EulerStep", (case["q"], case["dq"], case["ddq"], case["dt"]), ctx)


def c_InverseDynamicsTrajectory(case, ctx):
    md = case["model"]
    S = md["Slist"]
    N = case["thetamat"].shape[0]
    ctx.label("N=%d" % N)
    nt = chain_labels(ctx, S, case["thetamat"])
    ctx.nontrivial(nt or N >= 3)
    differential("InverseDynamicsTrajectory",
                 (case["thetamat"], case["dthetamat"], case["ddthetamat"], case["g"], case["Ftipmat"],
                  md["Mlist"], md["Glist"], S), ctx, straddle=joint_straddle(0, S, case["thetamat"]))


def c_ForwardDynamicsTrajectory(case, ctx):
    md = case["model"]
    S = md["Slist"]
    N = case["taumat"].shape[0]
    ctx.label("N=%d" % N)
    ctx.label("intRes=%d" % case["intRes"])
    nt = chain_labels(ctx, S, case["q"])
    ctx.nontrivial(nt or N >= 3)
    differential("ForwardDynamicsTrajectory",
                 (case["q"], case["dq"], case["taumat"], case["g"], case["Ftipmat"], md["Mlist"], md["Glist"], S,
                  case["dt"], case["intRes"]), ctx, rtol=INTEGRATED, straddle=joint_straddle(0, S, case["q"]),
                 cond_idx=(0, 1, 2, 3, 4, 5, 6, 7))


def c_ComputedTorque(case, ctx):
    Ml, Gl, S, sd = _dyn_common(case, ctx)
    differential("ComputedTorque",
                 (case["q"], case["dq"], case["eint"], case["g"], Ml, Gl, S, case["qd"], case["dqd"], case["ddqd"],
                  case["Kp"], case["Ki"], case["Kd"]), ctx, straddle=sd)


def c_SimulateControl(case, ctx):
    md = case["model"]
    mt = case["tilde"] if case["tilde"] is not None else md      # None: the controller's model is exact
    gt = case["gtilde"] if case["tilde"] is not None else case["g"]
    ctx.label("exact model" if case["tilde"] is None else "wrong model")
    S = md["Slist"]
    N = case["thetamatd"].shape[0]
    ctx.label("N=%d" % N)
    ctx.label("intRes=%d" % case["intRes"])
    nt = chain_labels(ctx, S, case["q"])
    ctx.nontrivial(nt or N >= 3)
    differential("SimulateControl",
                 (case["q"], case["dq"], case["g"], case["Ftipmat"], md["Mlist"], md["Glist"], S,
                  case["thetamatd"], case["dthetamatd"], case["ddthetamatd"], gt,
                  mt["Mlist"], mt["Glist"], case["Kp"], case["Ki"], case["Kd"], case["dt"], case["intRes"]),
                 ctx, rtol=INTEGRATED, straddle=joint_straddle(0, S, case["q"]),
                 cond_idx=(0, 1, 2, 3, 4, 5, 6, 7, 8, 9, 10, 11, 12))


# ----------------------------------------------------------------------------------------------
# trajectories
# ----------------------------------------------------------------------------------------------

def _timescaling(name):
    def check(case, ctx):
        Tf = case["Tf"]
        t = case["frac"] * Tf
        ctx.label("t=0" if t == 0 else "t=Tf" if t == Tf else "0<t<Tf")
        ctx.nontrivial(0 < t < Tf)
        differential(name, (Tf, t), ctx)
    return check


def _traj_labels(ctx, case):
    ctx.label("N=%d" % case["N"])
    ctx.label("method %d" % case["method"])
    return case["N"] >= 3 or case["method"] == 5


def c_JointTrajectory(case, ctx):
    nt = _traj_labels(ctx, case)
    ctx.label("n=%d" % len(case["thetastart"]))
    ctx.nontrivial(nt)
    differential("JointTrajectory", (case["thetastart"], case["thetaend"], case["Tf"], case["N"], case["method"]),
                 ctx)


def c_ScrewTrajectory(case, ctx):
    nt = _traj_labels(ctx, case)
    X = case["X"]
    ctx.label("rel " + X["rel"])
    ctx.nontrivial(nt and X["relang"] >= 1e-6)
    differential("ScrewTrajectory", (X["Xstart"], X["Xend"], case["Tf"], case["N"], case["method"]), ctx)


def c_CartesianTrajectory(case, ctx):
    nt = _traj_labels(ctx, case)
    X = case["X"]
    ctx.label("rel " + X["rel"])
    ctx.nontrivial(nt and X["relang"] >= 1e-6)
    differential("CartesianTrajectory", (X["Xstart"], X["Xend"], case["Tf"], case["N"], case["method"]), ctx)


# ----------------------------------------------------------------------------------------------
# case strategies
# ----------------------------------------------------------------------------------------------

def s_scalar_z():
    c = CUTOFF
    return st.one_of(
        G.floats(-1, 1), G.signed_log_uniform(1e-9, 1e-3),
        st.sampled_from([0.0, c, -c, math.nextafter(c, 0), math.nextafter(c, 1), -math.nextafter(c, 0),
                         -math.nextafter(c, 1), 1e-7, 1.0, -5.0, 1e300, 5e-324]))


def s_chain_q(key, with_M):
    def build(n):
        d = {key: chain_strategy(n), "q": joint_vec(n)}
        if with_M:
            d["M"] = FRAME10
        return st.fixed_dictionaries(d)
    return per_n(1, 7, build)


_IKTOL = st.one_of(G.log_uniform(1e-6, 1e-1), st.sampled_from([0.01, 0.001, 1e-4]))


def _ik_delta(n):
    def f(t):
        kind, v = t
        mag = {"exact": 0.0, "near": 0.02, "medium": 0.5, "far": PI}[kind]
        return np.array(v, dtype=float) * mag
    return st.tuples(st.sampled_from(["exact", "near", "near", "medium", "medium", "far"]),
                     st.lists(_F11, min_size=n, max_size=n)).map(f)


def s_ik():
    def build(n):
        return st.fixed_dictionaries({
            "S": chain_strategy(n), "M": FRAME5, "qstar": joint_vec(n), "delta": _ik_delta(n),
            "goal": st.sampled_from(["reachable", "reachable", "reachable", "free"]), "Tfree": FRAME5,
            "eomg": _IKTOL, "ev": _IKTOL,
            "warm": st.one_of(st.none(), st.none(), st.none(), G.log_uniform(0.1, 30.0))})
    return per_n(1, 7, build)


def s_ik_budget():
    return st.fixed_dictionaries({
        "lens": st.lists(G.floats(0.3, 2.0), min_size=2, max_size=4),
        # large starts: the error shrinks by 4 per update once the chain is nearly stretched, so only an iteration that
        # wanders for a while first is still above the rounding floor (~1e-12) around update 20
        "q0": st.lists(st.one_of(G.floats(-3.0, 3.0), G.floats(1.5, 3.0), G.floats(-3.0, -1.5)), min_size=4, max_size=4),
        "k": st.sampled_from([19, 20, 20, 21])})


def s_dyn(fields, nmax=7):
    def build(n):
        d = {"model": model_strategy(n), "q": joint_vec(n)}
        for f in fields:
            if f in ("dq", "ddq", "dqd", "ddqd"):
                d[f] = fvec(n, _F10)
            elif f == "qd":
                d[f] = joint_vec(n)
            elif f == "eint":
                d[f] = fvec(n, _F11)
            elif f == "tau":
                d[f] = fvec(n, _F20)
            elif f == "g":
                d[f] = GRAVITY
            elif f == "Ftip":
                d[f] = FTIP
            elif f == "gains":
                d.update({"Kp": GAIN, "Ki": GAIN, "Kd": GAIN})
            else:
                raise HarnessError("unknown field " + f)
        return st.fixed_dictionaries(d)
    return per_n(1, nmax, build)


def s_idtraj():
    def build(n):
        def rows(N):
            N = max(2, min(N, 30 // n))
            return st.fixed_dictionaries({
                "model": model_strategy(n), "g": GRAVITY, "thetamat": fmat(N, n, JOINT),
                "dthetamat": fmat(N, n, _F10), "ddthetamat": fmat(N, n, _F10), "Ftipmat": fmat(N, 6, _F20)})
        table = {N: rows(N) for N in range(2, 13)}
        return NSAMPLES.flatmap(table.__getitem__)
    return per_n(1, 7, build)


def _sim_sizes(n, cap):
    """(N, intRes) pairs allowed for an n-joint chain, N in 2..12, intRes in 1..4, cost-capped."""
    return sorted({cap_sim(n, N, r, cap) for N in range(2, 13) for r in range(1, 5)})


def s_fdtraj(cap=160):
    def build(n):
        def sized(Nr):
            N, intRes = Nr
            return st.fixed_dictionaries({
                "model": model_strategy(n), "q": joint_vec_wide(n), "dq": fvec(n, _F3), "g": GRAVITY,
                "taumat": fmat(N, n, _F10), "Ftipmat": fmat(N, 6, _F10), "dt": DT, "intRes": st.just(intRes)})
        table = {Nr: sized(Nr) for Nr in _sim_sizes(n, cap)}
        return st.sampled_from(sorted(table)).flatmap(table.__getitem__)
    return per_n(1, 7, build)


def s_simctl(cap=120):
    def build(n):
        def sized(Nr):
            N, intRes = Nr
            return st.fixed_dictionaries({
                "model": model_strategy(n), "tilde": st.one_of(st.none(), model_strategy(n)),
                "q": joint_vec_wide(n), "dq": fvec(n, _F3), "g": GRAVITY, "gtilde": GRAVITY,
                "Ftipmat": fmat(N, 6, _F10), "thetamatd": fmat(N, n, JOINT), "dthetamatd": fmat(N, n, _F3),
                "ddthetamatd": fmat(N, n, _F3), "Kp": GAIN, "Ki": GAIN, "Kd": GAIN, "dt": DT,
                "intRes": st.just(intRes)})
        table = {Nr: sized(Nr) for Nr in _sim_sizes(n, cap)}
        return st.sampled_from(sorted(table)).flatmap(table.__getitem__)
    return per_n(1, 7, build)


def s_jointtraj():
    return per_n(1, 8, lambda n: st.fixed_dictionaries({
        "thetastart": joint_vec(n), "thetaend": joint_vec(n), "Tf": TF, "N": NSAMPLES, "method": METHOD}))


def s_posetraj():
    return st.fixed_dictionaries({"X": RELATIVE_POSES, "Tf": TF, "N": NSAMPLES, "method": METHOD})


def s_timescale():
    return st.fixed_dictionaries({
        "Tf": TF, "frac": st.one_of(G.floats(0.0, 1.0), st.sampled_from([0.0, 1.0, 0.5, 0.3, 1e-9]))})


def s_eulerstep():
    return per_n(1, 8, lambda n: st.fixed_dictionaries({
        "q": joint_vec(n), "dq": fvec(n, _F10), "ddq": fvec(n, G.floats(-100.0, 100.0)),
        "dt": st.one_of(G.log_uniform(1e-4, 1.0), st.sampled_from([0.1, 0.01, 0.0]))}))


def _halfturn_from(t):
    """Exact-as-possible half turns 2nn^T - I whose axis selects each sub-branch of the logarithm: axis in the
    xy-plane (R22 = -1: second/third sub-branch), in the xz- or yz-plane, along a coordinate axis, generic."""
    kind, a, u, p = t
    c, sn = math.cos(a), math.sin(a)
    n = {"xy": np.array([c, sn, 0.0]), "xz": np.array([c, 0.0, sn]), "yz": np.array([0.0, c, sn]),
         "generic": u}[kind]
    return carr(O.rp(2 * np.outer(n, n) - np.eye(3), p))


HALFTURN_T = st.tuples(st.sampled_from(["xy", "xz", "yz", "generic"]), _FPI, UNIT, pos_strategy(10.0)).map(
    _halfturn_from)
_T = st.fixed_dictionaries({"T": G.se3s()})
# logarithms: the C01 pose generator (every angle, pi-10^-k, quaternions, half turns) plus extra half turns
# ... and poses with SMALL rotations (1e-3 .. 0.3 rad, every decade): where a series / shortcut would take over
_TSMALL = G.se3s(ang=G.log_uniform(1e-3, 0.3))
_T = st.fixed_dictionaries({"T": st.one_of(G.se3s(), G.se3s(), G.se3s(), _TSMALL)})
_TLOG = st.fixed_dictionaries({"T": st.one_of(G.se3s(), G.se3s(), G.se3s(), HALFTURN_T, _TSMALL)})
_SMALLANG = G.log_uniform(1e-3, 0.3)
_V = st.fixed_dictionaries({"V": st.one_of(G.twists(), G.twists(), G.twists(), G.twists(ang=_SMALLANG))})
_W = st.fixed_dictionaries({"w": st.one_of(G.rotvecs(), G.rotvecs(), G.rotvecs(), G.rotvecs(ang=_SMALLANG))})
_OMG = st.fixed_dictionaries({"omg": NONZERO_VEC3})

ID_FIELDS = ("dq", "ddq", "g", "Ftip")

# name, check, strategy, n_quick, n_thorough
# cases per clause: (quick, thorough), totals over all shards
COUNTS = {
    "NearZero": (200, 12000), "Normalize": (200, 12000), "RotInv": (150, 8000), "VecToso3": (150, 8000),
    "so3ToVec": (150, 8000), "AxisAng3": (200, 12000), "MatrixExp3": (300, 16000), "MatrixLog3": (300, 16000),
    "RpToTrans": (150, 8000), "TransToRp": (150, 8000), "TransInv": (200, 12000), "VecTose3": (150, 8000),
    "se3ToVec": (150, 8000), "Adjoint": (200, 12000), "ScrewToAxis": (150, 8000), "AxisAng6": (250, 12000),
    "MatrixExp6": (300, 16000), "MatrixLog6": (300, 16000), "ProjectToSO3": (200, 12000),
    "ProjectToSE3": (200, 12000), "DistanceToSO3": (200, 12000), "DistanceToSE3": (200, 12000),
    "TestIfSO3": (200, 12000), "TestIfSE3": (200, 12000), "FKinBody": (200, 12000), "FKinSpace": (200, 12000),
    "JacobianBody": (200, 12000), "JacobianSpace": (200, 12000), "ad": (150, 8000),
    "InverseDynamics": (120, 4000), "MassMatrix": (100, 3000), "VelQuadraticForces": (100, 4000),
    "GravityForces": (100, 4000), "EndEffectorForces": (100, 4000), "ForwardDynamics": (100, 3000),
    "EulerStep": (150, 8000), "InverseDynamicsTrajectory": (80, 2400), "ForwardDynamicsTrajectory": (60, 1600),
    "CubicTimeScaling": (200, 12000), "QuinticTimeScaling": (200, 12000), "JointTrajectory": (200, 12000),
    "ScrewTrajectory": (200, 10000), "CartesianTrajectory": (200, 10000), "ComputedTorque": (100, 3000),
    "SimulateControl": (60, 1600),
}

_EQ = [
    ("NearZero", c_NearZero, st.fixed_dictionaries({"z": s_scalar_z()})),
    ("Normalize", c_Normalize, st.fixed_dictionaries({"V": NONZERO_VEC3})),
    ("RotInv", c_RotInv, _T),
    ("VecToso3", c_VecToso3, _OMG),
    ("so3ToVec", c_so3ToVec, _OMG),
    ("AxisAng3", c_AxisAng3, _W),
    ("MatrixExp3", c_MatrixExp3, _W),
    ("MatrixLog3", c_MatrixLog3, _TLOG),
    ("RpToTrans", c_RpToTrans, _T),
    ("TransToRp", c_TransToRp, _T),
    ("TransInv", c_TransInv, _T),
    ("VecTose3", c_VecTose3, st.fixed_dictionaries({"V": G.vec6(1e3)})),
    ("se3ToVec", c_se3ToVec, st.fixed_dictionaries({"V": G.vec6(1e3)})),
    ("Adjoint", c_Adjoint, _T),
    ("ScrewToAxis", c_ScrewToAxis,
     st.fixed_dictionaries({"q": pos_strategy(10.0), "s": UNIT,
                            "h": st.one_of(G.floats(-2, 2), st.sampled_from([0.0, 0.0, 2.0]))})),
    ("AxisAng6", c_AxisAng6, _V),
    ("MatrixExp6", c_MatrixExp6, _V),
    ("MatrixLog6", c_MatrixLog6, _TLOG),
    ("ProjectToSO3", _mat_case("ProjectToSO3"), NEAR_SO3),
    ("ProjectToSE3", _mat_case("ProjectToSE3"), NEAR_SE3),
    ("DistanceToSO3", _mat_case("DistanceToSO3"), NEAR_SO3),
    ("DistanceToSE3", _mat_case("DistanceToSE3"), NEAR_SE3),
    ("TestIfSO3", _mat_case("TestIfSO3"), NEAR_SO3),
    ("TestIfSE3", _mat_case("TestIfSE3"), NEAR_SE3),
    ("FKinBody", c_FKinBody, s_chain_q("Blist", True)),
    ("FKinSpace", c_FKinSpace, s_chain_q("Slist", True)),
    ("JacobianBody", c_JacobianBody, s_chain_q("Blist", False)),
    ("JacobianSpace", c_JacobianSpace, s_chain_q("Slist", False)),
    ("ad", c_ad, st.fixed_dictionaries({"V": G.vec6(1e3)})),
    ("InverseDynamics", c_InverseDynamics, s_dyn(ID_FIELDS)),
    ("MassMatrix", c_MassMatrix, s_dyn(())),
    ("VelQuadraticForces", c_VelQuadraticForces, s_dyn(("dq",))),
    ("GravityForces", c_GravityForces, s_dyn(("g",))),
    ("EndEffectorForces", c_EndEffectorForces, s_dyn(("Ftip",))),
    ("ForwardDynamics", c_ForwardDynamics, s_dyn(("dq", "tau", "g", "Ftip"))),
    ("EulerStep", c_EulerStep, s_eulerstep()),
    ("InverseDynamicsTrajectory", c_InverseDynamicsTrajectory, s_idtraj()),
    ("ForwardDynamicsTrajectory", c_ForwardDynamicsTrajectory, s_fdtraj()),
    ("CubicTimeScaling", _timescaling("CubicTimeScaling"), s_timescale()),
    ("QuinticTimeScaling", _timescaling("QuinticTimeScaling"), s_timescale()),
    ("JointTrajectory", c_JointTrajectory, s_jointtraj()),
    ("ScrewTrajectory", c_ScrewTrajectory, s_posetraj()),
    ("CartesianTrajectory", c_CartesianTrajectory, s_posetraj()),
    ("ComputedTorque", c_ComputedTorque,
     s_dyn(("dq", "eint", "g", "qd", "dqd", "ddqd", "gains"))),
    ("SimulateControl", c_SimulateControl, s_simctl()),
]

_IK = [
    ("ik_success_meets_tol_IKinBody", _ik_success("IKinBody", True), s_ik(), 200, 6000),
    ("ik_success_meets_tol_IKinSpace", _ik_success("IKinSpace", False), s_ik(), 200, 6000),
    ("ik_same_solution_IKinBody", _ik_same("IKinBody", True), s_ik(), 200, 6000),
    ("ik_same_solution_IKinSpace", _ik_same("IKinSpace", False), s_ik(), 200, 6000),
    ("ik_iteration_budget_IKinBody", _ik_budget("IKinBody", True), s_ik_budget(), 100, 1600),
    ("ik_iteration_budget_IKinSpace", _ik_budget("IKinSpace", False), s_ik_budget(), 100, 1600),
]

CLAUSES = [Clause("eq_" + n, c, s, COUNTS[n][0], COUNTS[n][1]) for (n, c, s) in _EQ] + \
          [Clause(n, c, s, nq, nt) for (n, c, s, nq, nt) in _IK]

_covered = {n for (n, _c, _s) in _EQ} | {"IKinBody", "IKinSpace"}
if _covered != set(EXPECTED):
    raise HarnessError("clauses do not cover the 47 functions: %s" % sorted(set(EXPECTED) ^ _covered))


def warm():
    """Check the pin and the 47-name intersection.  Kernels declared cache=True are compiled here once so that
    the shards load them from the on-disk cache; the others (FKin*, IKin*, ad, EulerStep, time scalings,
    JointTrajectory...) cannot be cached and are compiled lazily inside each shard, so compiling them in the
    parent would only cost time."""
    port, _ = libs()
    T = np.eye(4)
    V = np.array([0.1, 0.2, 0.3, 1.0, 2.0, 3.0])
    S = carr(np.array([[0, 0, 1, 0, 0, 0], [0, 1, 0, -0.5, 0, 0.1]], dtype=float).T)
    q = np.array([0.3, -0.4])
    port.AxisAng3(V[:3].copy())
    port.AxisAng6(V.copy())
    port.MatrixLog6(port.MatrixExp6(port.VecTose3(V)))
    port.MatrixLog3(port.MatrixExp3(port.VecToso3(V[:3].copy())))
    port.so3ToVec(port.VecToso3(V[:3].copy()))
    port.se3ToVec(port.VecTose3(V))
    port.RotInv(np.eye(3))
    port.RpToTrans(np.eye(3), V[3:].copy())
    port.TransToRp(T)
    port.TransInv(T)
    port.Adjoint(T)
    port.ScrewToAxis(V[3:].copy(), np.array([0.0, 0.0, 1.0]), 0.5)
    port.TestIfSO3(np.eye(3))
    port.TestIfSE3(T)
    port.JacobianBody(S, q)
    port.JacobianSpace(S, q)
