"""C02 -- the Numba port computes what the reference Modern Robotics library computes.

Differential check of basic_robotics.modern_robotics_numba.modern_high_performance against the pinned,
vendored copy of modern_robotics 1.1.1 (/verif/vendor/modern_robotics_ref): one clause per shared function,
plus two clauses per iterative IK solver.  The site-packages copy of modern_robotics is never imported.
"""
import copy
import hashlib
import math
import os
import warnings

import numpy as np
from hypothesis import strategies as st

from vf import gen as G
from vf import oracle as O
from vf.core import Clause, HarnessError, Violation, sut

PROPERTY_ID = "C02"

# The 47 functions the property names ("for each of the 47 functions common to ... and modern_robotics").
# The intersection of the public callables of the two modules is computed at run time and must be exactly
# this set, otherwise the run is a harness error (a function dropped from the port must not go unnoticed).
EXPECTED = (
    "NearZero", "Normalize", "RotInv", "VecToso3", "so3ToVec", "AxisAng3", "MatrixExp3", "MatrixLog3",
    "RpToTrans", "TransToRp", "TransInv", "VecTose3", "se3ToVec", "Adjoint", "ScrewToAxis", "AxisAng6",
    "MatrixExp6", "MatrixLog6", "ProjectToSO3", "ProjectToSE3", "DistanceToSO3", "DistanceToSE3",
    "TestIfSO3", "TestIfSE3", "FKinBody", "FKinSpace", "JacobianBody", "JacobianSpace", "IKinBody",
    "IKinSpace", "ad", "InverseDynamics", "MassMatrix", "VelQuadraticForces", "GravityForces",
    "EndEffectorForces", "ForwardDynamics", "EulerStep", "InverseDynamicsTrajectory",
    "ForwardDynamicsTrajectory", "CubicTimeScaling", "QuinticTimeScaling", "JointTrajectory",
    "ScrewTrajectory", "CartesianTrajectory", "ComputedTorque", "SimulateControl",
)
assert len(EXPECTED) == 47 and len(set(EXPECTED)) == 47

RULE = (
    "One Hypothesis clause per shared function (47; list = run-time intersection of the public callables of the "
    "port and of the vendored reference, harness error if it is not the 47 named in the property). Arguments: "
    "float64 C-contiguous arrays and Python floats/ints only; chains of 1..7 unit revolute (some with pitch) or "
    "prismatic screws, link frames in SE(3) built without the library (|p|<=2), SPD spatial inertias "
    "Ad^T diag(Ic,m) Ad with Ic eigenvalues 0.01..5 and m 0.1..50, joint values in [-2pi,2pi] with mass on "
    "0, 1e-7, 1e-6, pi/2, pi, rates/accelerations |.|<=10, torques |.|<=20, gravity |g|<=20, tip wrenches "
    "|.|<=20, trajectories N=2..12, method 3/5, Tf log-uniform 1e-2..1e2; matrices within 0.1 of SO(3)/SE(3) "
    "incl. det<0. Integrated trajectories (ForwardDynamicsTrajectory, SimulateControl) are bounded so that "
    "(N-1)*intRes*n*(n+3) <= 160 with dt in [1e-3, 2e-2] (cost and numerical conditioning). MatrixLog3/6 take "
    "rotations of every angle incl. exact half turns and pi-10^-k (same bits in => same branch in both); "
    "Screw/CartesianTrajectory take Xstart,Xend whose RELATIVE rotation is <= pi-1e-3, because the log of a "
    "computed product within ~3e-4 of pi amplifies the 1e-16 difference between numpy's and Numba's matrix "
    "product above 1e-9 (error ~ 1e-16/(pi-theta)^2) although both implementations are equally right. "
    "Non-trivial: n>=2, or a non-default branch (prismatic joint, some |theta_i|>pi/2, method 5, N>=3, det<0, "
    "non-zero perturbation), or for the rigid-body functions a rotation angle >= 1e-6 / non-zero argument; "
    "distinct by digest of the arguments."
)
ASSUMPTIONS = [
    "the reference is the vendored, hash-checked modern_robotics 1.1.1 core.py; it defines the domain: arguments "
    "for which it raises ZeroDivisionError/FloatingPointError/LinAlgError/ValueError or returns NaN/inf are skipped "
    "(counted)",
    "agreement: same container kind and length, same array shapes, max|port-ref| <= 1e-9*max(1,max|ref|) per "
    "returned array (1e-7 for ForwardDynamicsTrajectory and SimulateControl)",
    "where a rotation angle entering an exponential lies within 1e-9 relative of the library's 1e-6 NearZero "
    "cut-off the two norms may fall on different sides of it: such cases are compared at 5e-6 (labelled "
    "'cutoff-straddle'); AxisAng6 there is skipped on mismatch",
    "a mismatch is only reported where the reference itself is determined to the property's tolerance: if "
    "perturbing every float argument by 1e-14 relative moves the REFERENCE result by more than the tolerance, the "
    "case is skipped as ill-conditioned (counted, labelled) -- this test never looks at the port",
    "IK success is measured with vf/oracle.py (product of exponentials + log in long double / scipy): the angular "
    "and linear parts of the solver's own error twist (body twist for IKinBody, space twist for IKinSpace) must be "
    "<= eomg, ev up to 1e-7*max(1,|p|) for rounding (5e-6*k*max(1,|p|) when k returned joint angles lie in the "
    "NearZero band, where the library's FK drops the rotation)",
]

VERIF = os.path.dirname(os.path.dirname(os.path.abspath(__file__)))
PI = math.pi
TIGHT = 1e-9
INTEGRATED = 1e-7
LOOSE = 5e-6
CUTOFF = 1e-6

# ----------------------------------------------------------------------------------------------
# the two libraries
# ----------------------------------------------------------------------------------------------

_LIBS = None


def _public_callables(mod):
    return {k for k, v in vars(mod).items() if not k.startswith("_") and callable(v)}


def libs():
    """(port module, reference module); verifies the pin and the 47-name intersection once."""
    global _LIBS
    if _LIBS is None:
        from basic_robotics.modern_robotics_numba import modern_high_performance as port
        import vendor.modern_robotics_ref as refpkg
        from vendor.modern_robotics_ref import core as ref
        vend = os.path.realpath(os.path.join(VERIF, "vendor", "modern_robotics_ref")) + os.sep
        if not os.path.realpath(ref.__file__).startswith(vend):
            raise HarnessError("reference imported from %s, not from the vendored copy" % ref.__file__)
        with open(ref.__file__, "rb") as f:
            sha = hashlib.sha256(f.read()).hexdigest()
        if sha != refpkg.CORE_SHA256:
            raise HarnessError("vendored reference core.py changed (sha256 %s)" % sha)
        shared = _public_callables(port) & _public_callables(ref)
        if shared != set(EXPECTED):
            raise HarnessError("functions shared by port and reference are not the 47 of the property: "
                               "missing %s, unexpected %s" % (sorted(set(EXPECTED) - shared),
                                                             sorted(shared - set(EXPECTED))))
        _LIBS = (port, ref)
    return _LIBS


def _close_figures():
    import sys
    if "matplotlib.pyplot" in sys.modules:
        sys.modules["matplotlib.pyplot"].close("all")


# exceptions of the REFERENCE that mean "not a valid argument" (anything else is a bug in this harness)
_REF_DOMAIN_ERRORS = (ZeroDivisionError, FloatingPointError, np.linalg.LinAlgError, ValueError)


def call_ref(name, args):
    """Reference result on a deep copy of args; (ok, value-or-reason)."""
    _, ref = libs()
    try:
        with np.errstate(all="ignore"), warnings.catch_warnings():
            warnings.simplefilter("ignore")
            out = getattr(ref, name)(*copy.deepcopy(args))
    except _REF_DOMAIN_ERRORS as e:
        return False, "reference raises %s" % type(e).__name__
    finally:
        _close_figures()
    if not _all_finite(out):
        return False, "reference yields NaN/inf"
    return True, out


def call_port(name, args):
    port, _ = libs()
    try:
        with warnings.catch_warnings():
            warnings.simplefilter("ignore")
            return sut(getattr(port, name), *copy.deepcopy(args))
    finally:
        _close_figures()


# ----------------------------------------------------------------------------------------------
# structural comparison
# ----------------------------------------------------------------------------------------------

def _is_seq(x):
    return isinstance(x, (tuple, list))


def _is_bool(x):
    return isinstance(x, (bool, np.bool_))


def _all_finite(x):
    if _is_seq(x):
        return all(_all_finite(e) for e in x)
    if x is None:
        return False
    a = np.asarray(x)
    if a.dtype == object:
        return False
    if a.dtype.kind in "fc":
        return bool(np.all(np.isfinite(a)))
    return True


def mismatch(p, r, rtol, what, worst=None):
    """None if port result p agrees with reference result r, else a message.  worst (a 1-element list)
    collects the largest |port-ref| / tolerance seen over the returned arrays."""
    if _is_seq(r):
        if not _is_seq(p):
            return "%s: reference returns a %s, port returns %s" % (what, type(r).__name__, type(p).__name__)
        if isinstance(r, tuple) != isinstance(p, tuple):
            return "%s: container %s vs reference %s" % (what, type(p).__name__, type(r).__name__)
        if len(p) != len(r):
            return "%s: length %d vs reference %d" % (what, len(p), len(r))
        for i, (pe, re_) in enumerate(zip(p, r)):
            m = mismatch(pe, re_, rtol, "%s[%d]" % (what, i), worst)
            if m:
                return m
        return None
    if _is_seq(p) or p is None:
        return "%s: port returns %s, reference an array/scalar" % (what, type(p).__name__)
    if _is_bool(r):
        if not _is_bool(p):
            return "%s: reference returns a bool, port %s" % (what, type(p).__name__)
        return None if bool(p) == bool(r) else "%s: %s vs reference %s" % (what, bool(p), bool(r))
    pa = np.asarray(p)
    ra = np.asarray(r)
    if pa.dtype == object or pa.dtype.kind not in "fiub":
        return "%s: port returns dtype %s" % (what, pa.dtype)
    if pa.shape != ra.shape:
        return "%s: shape %s vs reference %s" % (what, pa.shape, ra.shape)
    pa = pa.astype(float)
    ra = ra.astype(float)
    if not np.all(np.isfinite(pa)):
        return "%s: port result has NaN/inf where the reference is finite" % what
    if ra.size == 0:
        return None
    d = float(np.abs(pa - ra).max())
    t = rtol * max(1.0, float(np.abs(ra).max()))
    if worst is not None:
        worst[0] = max(worst[0], d / t)
    if d > t:
        return "%s: max|port-ref| = %.3g > %.3g (rtol %g)" % (what, d, t, rtol)
    return None


def margin_label(ctx, worst):
    """How close to the tolerance the agreement was (measured, goes into the evidence histogram)."""
    w = worst[0]
    ctx.label("diff = 0" if w == 0 else "diff < 1e-4 tol" if w < 1e-4 else "diff < 1e-2 tol" if w < 1e-2
              else "diff < tol")


def _perturb(x, k=[0]):
    """Every float entry multiplied by 1 +- 1e-14 (alternating, deterministic)."""
    if isinstance(x, np.ndarray):
        if x.dtype.kind != "f":
            return x.copy()
        sg = np.where(np.arange(x.size) % 2 == 0, 1.0, -1.0).reshape(x.shape)
        return np.ascontiguousarray(x * (1.0 + 1e-14 * sg))
    if isinstance(x, float):
        return x * (1.0 + 1e-14)
    if _is_seq(x):
        return type(x)(_perturb(e) for e in x)
    return x


def ref_sensitivity(name, args, r0, perturb_idx):
    """max over returned arrays of |ref(args*(1+-1e-14)) - ref(args)| / max(1,|ref|): how well the reference
    itself is determined by its arguments.  Only the arguments listed in perturb_idx are perturbed."""
    a2 = list(copy.deepcopy(args))
    for i in perturb_idx:
        a2[i] = _perturb(a2[i])
    ok, r1 = call_ref(name, tuple(a2))
    if not ok:
        return math.inf

    def walk(a, b):
        if _is_seq(a):
            if not _is_seq(b) or len(a) != len(b):
                return math.inf
            return max([0.0] + [walk(x, y) for x, y in zip(a, b)])
        if _is_bool(a):
            return 0.0 if bool(a) == bool(b) else math.inf
        a = np.asarray(a, dtype=float)
        b = np.asarray(b, dtype=float)
        if a.shape != b.shape:
            return math.inf
        if a.size == 0:
            return 0.0
        return float(np.abs(a - b).max()) / max(1.0, float(np.abs(a).max()))
    return walk(r0, r1)


def differential(name, args, ctx, rtol=TIGHT, straddle=False, cond_idx=None):
    """Reference first (it defines the domain), then the port through sut(); compare."""
    ok, r = call_ref(name, args)
    if not ok:
        ctx.skip(r)
    p = call_port(name, args)          # LibError (a Violation) if the port raises where the reference returned
    if straddle:
        ctx.label("cutoff-straddle")
        rtol = max(rtol, LOOSE)
    worst = [0.0]
    m = mismatch(p, r, rtol, name, worst)
    if m:
        if cond_idx is not None:
            s = ref_sensitivity(name, args, r, cond_idx)
            if s > rtol:
                ctx.skip("ill-conditioned: reference moves by more than the tolerance under a 1e-14 relative "
                         "perturbation of its arguments")
        raise Violation(m)
    margin_label(ctx, worst)
    return p, r


# ----------------------------------------------------------------------------------------------
# strategies
# ----------------------------------------------------------------------------------------------

def straddles(*angles):
    return any(abs(abs(a) - CUTOFF) <= CUTOFF * 1e-9 for a in angles)


def carr(a):
    return np.ascontiguousarray(np.asarray(a, dtype=float))


@st.composite
def nonzero_vec3(draw, maxnorm=1e3):
    kind = draw(st.sampled_from(["generic", "generic", "generic", "box", "zero"]))
    if kind == "zero":
        return np.zeros(3)
    if kind == "box":
        return np.array([draw(G.floats(-maxnorm, maxnorm)) for _ in range(3)])
    return draw(G.unit_vectors()) * draw(G.log_uniform(1e-6, maxnorm))


def joint_value():
    return st.one_of(
        G.floats(-PI, PI),
        G.floats(-PI, PI),
        G.floats(-2 * PI, 2 * PI),
        st.sampled_from([0.0, 1e-7, 1e-6, -1e-6, PI / 2, -PI / 2, PI, 2.0, -2.5, 1.0]),
    )


def joint_vec(n):
    return st.lists(joint_value(), min_size=n, max_size=n).map(lambda l: np.array(l, dtype=float))


def rate_vec(n, mag=10.0):
    return G.vec(n, -mag, mag)


def gravity():
    return st.one_of(
        st.sampled_from([(0.0, 0.0, -9.81), (0.0, 0.0, -9.8), (0.0, 0.0, 0.0), (0.0, -9.81, 0.0)]).map(
            lambda t: np.array(t, dtype=float)),
        G.vec(3, -12.0, 12.0),
    )


def link_frame():
    return G.se3s(maxnorm=2.0)


@st.composite
def models(draw, nmin=1, nmax=7):
    """Open chain with dynamics: Slist 6xn, Mlist (n+1)x4x4, Glist nx6x6 (ndarrays, as in the docstrings)."""
    n = draw(st.integers(nmin, nmax))
    S = draw(G.chains(n, n))
    Mlist = np.stack([draw(link_frame()) for _ in range(n + 1)])
    Glist = np.stack([draw(G.spd_spatial_inertia()) for _ in range(n)])
    return {"Slist": carr(S), "Mlist": carr(Mlist), "Glist": carr(Glist)}


def chain_labels(ctx, S, q=None):
    n = S.shape[1]
    ctx.label("n=%d" % n)
    pris = bool(np.any(np.all(S[:3] == 0, axis=0)))
    if pris:
        ctx.label("has prismatic")
    big = q is not None and bool(np.any(np.abs(q) > PI / 2))
    if big:
        ctx.label("some |theta|>pi/2")
    return n >= 2 or pris or big


def joint_angles(S, q):
    """Rotation angles |theta_i|*|w_i| entering the library's exponentials."""
    return [abs(float(q[i])) * float(np.linalg.norm(S[:3, i])) for i in range(len(q))]


@st.composite
def near_so3(draw):
    R = O.exp3(draw(G.rotvecs()))
    kind = draw(st.sampled_from(["exact", "tiny", "threshold", "pert", "pert", "det<0", "det<0 pert"]))
    if kind == "exact" or kind == "det<0":
        A = R.copy()
    else:
        if kind == "tiny":
            sc = draw(G.log_uniform(1e-12, 1e-5))
        elif kind == "threshold":
            sc = draw(G.log_uniform(1e-4, 1e-2))
        else:
            sc = draw(G.floats(0.01, 0.1))
        E = np.array([draw(G.floats(-1, 1)) for _ in range(9)]).reshape(3, 3)
        A = R + sc * E
    if kind.startswith("det<0"):
        A[:, draw(st.integers(0, 2))] *= -1.0
    return {"mat": carr(A), "kind": kind}


@st.composite
def near_se3(draw):
    d = draw(near_so3())
    T = np.eye(4)
    T[:3, :3] = d["mat"]
    T[:3, 3] = draw(G.positions(10.0))
    row = draw(st.sampled_from(["exact", "exact", "tiny", "threshold", "pert"]))
    if row != "exact":
        sc = {"tiny": 1e-9, "threshold": 1e-3, "pert": 0.1}[row]
        T[3] += sc * np.array([draw(G.floats(-1, 1)) for _ in range(4)])
    return {"mat": carr(T), "kind": d["kind"] + ("" if row == "exact" else " row:" + row)}


def tf_values():
    return st.one_of(G.log_uniform(1e-2, 1e2), st.sampled_from([1.0, 2.0, 5.0, 0.5]))


def methods():
    return st.sampled_from([3, 5])


@st.composite
def relative_poses(draw, maxang=PI - 1e-3):
    """Xstart, Xend in SE(3) whose relative rotation angle is at most maxang (built without the library)."""
    Xs = draw(G.se3s(maxnorm=10.0))
    kind = draw(st.sampled_from(["generic", "generic", "same", "pure translation", "tiny", "max"]))
    if kind == "same":
        w = np.zeros(3)
    elif kind == "pure translation":
        w = np.zeros(3)
    elif kind == "tiny":
        w = draw(G.unit_vectors()) * draw(G.log_uniform(1e-9, 1e-4))
    elif kind == "max":
        w = draw(G.unit_vectors()) * maxang
    else:
        w = draw(G.unit_vectors()) * draw(G.floats(1e-3, maxang))
    p = np.zeros(3) if kind == "same" else draw(G.positions(10.0))
    D = O.rp(O.exp3(w), p)
    Xe = Xs @ D
    # re-orthonormalise the product exactly enough (the product of two rotations is a rotation to ~1e-16)
    return {"Xstart": carr(Xs), "Xend": carr(Xe), "rel": kind, "relang": float(np.linalg.norm(w))}


def cap_sim(n, N, intRes, cap=160):
    """Bound (N-1)*intRes*n*(n+3) (number of joint-level Newton-Euler passes) by shrinking N, then intRes."""
    while (N - 1) * intRes * n * (n + 3) > cap:
        if intRes > 1 and (N <= 3 or intRes >= N - 1):
            intRes -= 1
        elif N > 2:
            N -= 1
        else:
            break
    return N, intRes


# ----------------------------------------------------------------------------------------------
# clause bodies: rigid-body algebra
# ----------------------------------------------------------------------------------------------

def _ang_label(ctx, th):
    if th == 0:
        ctx.label("ang=0")
    elif th < CUTOFF:
        ctx.label("ang<1e-6")
    elif th < 2e-6:
        ctx.label("ang~1e-6+")
    elif abs(th - PI) < 2e-5:
        ctx.label("ang~pi")
    elif th < PI:
        ctx.label("ang generic<pi")
    else:
        ctx.label("ang>pi")


def c_NearZero(case, ctx):
    z = case["z"]
    ctx.label("|z|<1e-6" if abs(z) < 1e-6 else "|z|>=1e-6")
    ctx.nontrivial(z != 0)
    differential("NearZero", (z,), ctx)


def c_Normalize(case, ctx):
    v = case["V"]
    ctx.nontrivial(np.count_nonzero(v) >= 2)
    differential("Normalize", (v,), ctx)


def c_RotInv(case, ctx):
    R = carr(case["T"][:3, :3])
    th = O.angle(R)
    _ang_label(ctx, th)
    ctx.nontrivial(th >= 1e-6)
    differential("RotInv", (R,), ctx)


def c_VecToso3(case, ctx):
    ctx.nontrivial(np.count_nonzero(case["omg"]) >= 2)
    differential("VecToso3", (case["omg"],), ctx)


def c_so3ToVec(case, ctx):
    ctx.nontrivial(np.count_nonzero(case["omg"]) >= 2)
    differential("so3ToVec", (carr(O.hat3(case["omg"])),), ctx)


def c_AxisAng3(case, ctx):
    w = case["w"]
    th = float(np.linalg.norm(w))
    _ang_label(ctx, th)
    ctx.nontrivial(th >= 1e-6)
    differential("AxisAng3", (w,), ctx)


def c_MatrixExp3(case, ctx):
    w = case["w"]
    th = float(np.linalg.norm(w))
    _ang_label(ctx, th)
    ctx.nontrivial(th >= 1e-6)
    differential("MatrixExp3", (carr(O.hat3(w)),), ctx, straddle=straddles(th))


def c_MatrixLog3(case, ctx):
    R = carr(case["T"][:3, :3])
    th = O.angle(R)
    _ang_label(ctx, th)
    ctx.nontrivial(th >= 1e-6)
    differential("MatrixLog3", (R,), ctx, cond_idx=(0,))


def c_RpToTrans(case, ctx):
    T = case["T"]
    ctx.nontrivial(O.angle(T[:3, :3]) >= 1e-6 and np.any(T[:3, 3] != 0))
    differential("RpToTrans", (carr(T[:3, :3]), carr(T[:3, 3])), ctx)


def c_TransToRp(case, ctx):
    T = case["T"]
    ctx.nontrivial(O.angle(T[:3, :3]) >= 1e-6 and np.any(T[:3, 3] != 0))
    differential("TransToRp", (T,), ctx)


def c_TransInv(case, ctx):
    T = case["T"]
    ctx.nontrivial(O.angle(T[:3, :3]) >= 1e-6 and np.any(T[:3, 3] != 0))
    differential("TransInv", (T,), ctx)


def c_VecTose3(case, ctx):
    ctx.nontrivial(np.count_nonzero(case["V"]) >= 2)
    differential("VecTose3", (case["V"],), ctx)


def c_se3ToVec(case, ctx):
    ctx.nontrivial(np.count_nonzero(case["V"]) >= 2)
    differential("se3ToVec", (carr(O.hat6(case["V"])),), ctx)


def c_Adjoint(case, ctx):
    T = case["T"]
    ctx.nontrivial(O.angle(T[:3, :3]) >= 1e-6 and np.any(T[:3, 3] != 0))
    differential("Adjoint", (T,), ctx)


def c_ScrewToAxis(case, ctx):
    ctx.label("h=0" if case["h"] == 0 else "h!=0")
    ctx.nontrivial(np.any(case["q"] != 0))
    differential("ScrewToAxis", (case["q"], case["s"], case["h"]), ctx)


def c_AxisAng6(case, ctx):
    V = case["V"]
    th = float(np.linalg.norm(V[:3]))
    _ang_label(ctx, th)
    ctx.nontrivial(th >= 1e-6 or np.any(V[3:] != 0))
    ok, r = call_ref("AxisAng6", (V,))
    if not ok:
        ctx.skip(r)
    p = call_port("AxisAng6", (V,))
    m = mismatch(p, r, TIGHT, "AxisAng6")
    if m:
        if straddles(th):
            ctx.skip("|w| within 1e-9 relative of the 1e-6 cut-off: the normalising branch is not determined")
        raise Violation(m)


def c_MatrixExp6(case, ctx):
    V = case["V"]
    th = float(np.linalg.norm(V[:3]))
    _ang_label(ctx, th)
    ctx.nontrivial(th >= 1e-6)
    differential("MatrixExp6", (carr(O.hat6(V)),), ctx, straddle=straddles(th))


def c_MatrixLog6(case, ctx):
    T = case["T"]
    th = O.angle(T[:3, :3])
    _ang_label(ctx, th)
    ctx.nontrivial(th >= 1e-6)
    differential("MatrixLog6", (T,), ctx, cond_idx=(0,))


def _mat_case(name):
    def check(case, ctx):
        A = case["mat"]
        ctx.label(case["kind"])
        ctx.nontrivial(case["kind"] != "exact")
        if name.startswith("TestIf"):
            ok, r = call_ref(name, (A,))
            if not ok:
                ctx.skip(r)
            p = call_port(name, (A,))
            ctx.label("ref=%s" % bool(r))
            m = mismatch(p, r, TIGHT, name)
            if m:
                _, ref = libs()
                d = getattr(ref, "DistanceTo" + name[6:])(A.copy())
                if abs(d - 1e-3) <= 1e-12:
                    ctx.skip("distance within 1e-12 of the 1e-3 threshold: the boolean is not determined")
                raise Violation(m)
        else:
            differential(name, (A,), ctx)
    return check


# ----------------------------------------------------------------------------------------------
# kinematics
# ----------------------------------------------------------------------------------------------

def c_FKinBody(case, ctx):
    S, q, M = case["Blist"], case["q"], case["M"]
    ctx.nontrivial(chain_labels(ctx, S, q))
    differential("FKinBody", (M, S, q), ctx, straddle=straddles(*joint_angles(S, q)))


def c_FKinSpace(case, ctx):
    S, q, M = case["Slist"], case["q"], case["M"]
    ctx.nontrivial(chain_labels(ctx, S, q))
    differential("FKinSpace", (M, S, q), ctx, straddle=straddles(*joint_angles(S, q)))


def c_JacobianBody(case, ctx):
    S, q = case["Blist"], case["q"]
    ctx.nontrivial(chain_labels(ctx, S, q))
    differential("JacobianBody", (S, q), ctx, straddle=straddles(*joint_angles(S, q)))


def c_JacobianSpace(case, ctx):
    S, q = case["Slist"], case["q"]
    ctx.nontrivial(chain_labels(ctx, S, q))
    differential("JacobianSpace", (S, q), ctx, straddle=straddles(*joint_angles(S, q)))


def c_ad(case, ctx):
    ctx.nontrivial(np.count_nonzero(case["V"]) >= 2)
    differential("ad", (case["V"],), ctx)


# ---- inverse kinematics ---------------------------------------------------------------------

def _ik_args(case, body):
    S = case["S"]
    M = case["M"]
    qstar = case["qstar"]
    if case["goal"] == "reachable":
        T = O.poe_body(M, S, qstar) if body else O.poe_space(M, S, qstar)
    else:
        T = case["Tfree"]
    q0 = qstar + case["delta"]
    return (S, M, carr(T), carr(q0), float(case["eomg"]), float(case["ev"]))


def _ik_shape(name, out, n):
    if not (isinstance(out, tuple) and len(out) == 2):
        raise Violation("%s: does not return a (thetalist, success) pair" % name)
    th, okflag = out
    th = np.asarray(th)
    if th.shape != (n,) or th.dtype.kind != "f":
        raise Violation("%s: thetalist has shape %s dtype %s" % (name, th.shape, th.dtype))
    if not _is_bool(okflag):
        raise Violation("%s: success flag is %s" % (name, type(okflag).__name__))
    return th.astype(float), bool(okflag)


def _ik_labels(ctx, case):
    ctx.label("goal " + case["goal"])
    d = float(np.abs(case["delta"]).max()) if len(case["delta"]) else 0.0
    ctx.label("start " + ("exact" if d == 0 else "near" if d <= 0.05 else "medium" if d <= 0.6 else "far"))
    ctx.label("n=%d" % case["S"].shape[1])


def _ik_success(name, body):
    def check(case, ctx):
        args = _ik_args(case, body)
        S, M, T, q0, eomg, ev = args
        n = S.shape[1]
        _ik_labels(ctx, case)
        ok, r = call_ref(name, args)
        if not ok:
            ctx.skip(r)
        th, success = _ik_shape(name, call_port(name, args), n)
        ctx.label("port success" if success else "port failure")
        ctx.nontrivial(success and (n >= 2 or case["goal"] != "reachable"))
        if not success:
            return
        if not np.all(np.isfinite(th)):
            raise Violation("%s reports success with non-finite joint values" % name)
        Tfk = O.poe_body(M, S, th) if body else O.poe_space(M, S, th)
        Vb = O.log6(O.inv(Tfk) @ T)
        V = Vb if body else O.Ad(Tfk) @ Vb
        scale = max(1.0, float(np.linalg.norm(Tfk[:3, 3])), float(np.linalg.norm(T[:3, 3])),
                    float(np.abs(S[3:]).max()))
        k = sum(1 for a in joint_angles(S, th) if 1e-9 < a < 2e-6)
        slack = (LOOSE * k if k else 1e-7) * scale
        if k:
            ctx.label("solution in NearZero band")
        eo = float(np.linalg.norm(V[:3]))
        el = float(np.linalg.norm(V[3:]))
        ctx.note("err_ang/eomg", eo / eomg)
        ctx.note("err_lin/ev", el / ev)
        if eo > eomg + slack:
            raise Violation("%s reports success but the orientation error is %.6g > eomg %.6g (+%.2g)"
                            % (name, eo, eomg, slack))
        if el > ev + slack:
            raise Violation("%s reports success but the position error is %.6g > ev %.6g (+%.2g)"
                            % (name, el, ev, slack))
    return check


def _ik_same(name, body):
    def check(case, ctx):
        args = _ik_args(case, body)
        n = args[0].shape[1]
        _ik_labels(ctx, case)
        ok, r = call_ref(name, args)
        if not ok:
            ctx.skip(r)
        rth, rsucc = np.asarray(r[0], dtype=float), bool(r[1])
        pth, psucc = _ik_shape(name, call_port(name, args), n)
        ctx.label({(True, True): "both converge", (True, False): "only reference converges",
                   (False, True): "only port converges", (False, False): "neither converges"}[(rsucc, psucc)])
        ctx.nontrivial(rsucc and psucc and float(np.abs(case["delta"]).max()) > 0)
        if not (rsucc and psucc):
            return
        d = float(np.linalg.norm(pth - rth))
        t = 1e-6 * max(1.0, float(np.abs(rth).max()))
        if d > t:
            s = ref_sensitivity(name, args, r, (0, 1, 2, 3))
            if s > 1e-6:
                ctx.skip("ill-conditioned: the reference's own solution moves by more than 1e-6 under a 1e-14 "
                         "relative perturbation of its arguments")
            raise Violation("%s: both converge from the same start but |theta_port - theta_ref| = %.3g > %.3g"
                            % (name, d, t))
    return check


# ----------------------------------------------------------------------------------------------
# dynamics
# ----------------------------------------------------------------------------------------------

def _dyn_common(case, ctx, extra_nt=False):
    S, q = case["model"]["Slist"], case["q"]
    ctx.nontrivial(chain_labels(ctx, S, q) or extra_nt)
    return case["model"]["Mlist"], case["model"]["Glist"], S, straddles(*joint_angles(S, q))


def c_InverseDynamics(case, ctx):
    Ml, Gl, S, sd = _dyn_common(case, ctx)
    differential("InverseDynamics", (case["q"], case["dq"], case["ddq"], case["g"], case["Ftip"], Ml, Gl, S),
                 ctx, straddle=sd)


def c_MassMatrix(case, ctx):
    Ml, Gl, S, sd = _dyn_common(case, ctx)
    differential("MassMatrix", (case["q"], Ml, Gl, S), ctx, straddle=sd)


def c_VelQuadraticForces(case, ctx):
    Ml, Gl, S, sd = _dyn_common(case, ctx)
    differential("VelQuadraticForces", (case["q"], case["dq"], Ml, Gl, S), ctx, straddle=sd)


def c_GravityForces(case, ctx):
    Ml, Gl, S, sd = _dyn_common(case, ctx)
    differential("GravityForces", (case["q"], case["g"], Ml, Gl, S), ctx, straddle=sd)


def c_EndEffectorForces(case, ctx):
    Ml, Gl, S, sd = _dyn_common(case, ctx)
    differential("EndEffectorForces", (case["q"], case["Ftip"], Ml, Gl, S), ctx, straddle=sd)


def c_ForwardDynamics(case, ctx):
    Ml, Gl, S, sd = _dyn_common(case, ctx)
    differential("ForwardDynamics", (case["q"], case["dq"], case["tau"], case["g"], case["Ftip"], Ml, Gl, S),
                 ctx, straddle=sd, cond_idx=(0, 1, 2, 3, 4, 5, 6, 7))


def c_EulerStep(case, ctx):
    ctx.label("n=%d" % len(case["q"]))
    ctx.nontrivial(len(case["q"]) >= 2)
    differential("EulerStep", (case["q"], case["dq"], case["ddq"], case["dt"]), ctx)


def c_InverseDynamicsTrajectory(case, ctx):
    md = case["model"]
    S = md["Slist"]
    N = case["thetamat"].shape[0]
    ctx.label("N=%d" % N)
    nt = chain_labels(ctx, S, case["thetamat"])
    ctx.nontrivial(nt or N >= 3)
    angs = [a for row in case["thetamat"] for a in joint_angles(S, row)]
    differential("InverseDynamicsTrajectory",
                 (case["thetamat"], case["dthetamat"], case["ddthetamat"], case["g"], case["Ftipmat"],
                  md["Mlist"], md["Glist"], S), ctx, straddle=straddles(*angs))


def c_ForwardDynamicsTrajectory(case, ctx):
    md = case["model"]
    S = md["Slist"]
    N = case["taumat"].shape[0]
    ctx.label("N=%d" % N)
    ctx.label("intRes=%d" % case["intRes"])
    nt = chain_labels(ctx, S, case["q"])
    ctx.nontrivial(nt or N >= 3)
    differential("ForwardDynamicsTrajectory",
                 (case["q"], case["dq"], case["taumat"], case["g"], case["Ftipmat"], md["Mlist"], md["Glist"], S,
                  case["dt"], case["intRes"]), ctx, rtol=INTEGRATED, cond_idx=(0, 1, 2, 3, 4, 5, 6, 7))


def c_ComputedTorque(case, ctx):
    Ml, Gl, S, sd = _dyn_common(case, ctx)
    differential("ComputedTorque",
                 (case["q"], case["dq"], case["eint"], case["g"], Ml, Gl, S, case["qd"], case["dqd"], case["ddqd"],
                  case["Kp"], case["Ki"], case["Kd"]), ctx, straddle=sd)


def c_SimulateControl(case, ctx):
    md, mt = case["model"], case["tilde"]
    S = md["Slist"]
    N = case["thetamatd"].shape[0]
    ctx.label("N=%d" % N)
    ctx.label("intRes=%d" % case["intRes"])
    nt = chain_labels(ctx, S, case["q"])
    ctx.nontrivial(nt or N >= 3)
    differential("SimulateControl",
                 (case["q"], case["dq"], case["g"], case["Ftipmat"], md["Mlist"], md["Glist"], S,
                  case["thetamatd"], case["dthetamatd"], case["ddthetamatd"], case["gtilde"],
                  mt["Mlist"], mt["Glist"], case["Kp"], case["Ki"], case["Kd"], case["dt"], case["intRes"]),
                 ctx, rtol=INTEGRATED, cond_idx=(0, 1, 2, 3, 4, 5, 6, 7, 8, 9, 10, 11, 12))


# ----------------------------------------------------------------------------------------------
# trajectories
# ----------------------------------------------------------------------------------------------

def _timescaling(name):
    def check(case, ctx):
        Tf = case["Tf"]
        t = case["frac"] * Tf
        ctx.label("t=0" if t == 0 else "t=Tf" if t == Tf else "0<t<Tf")
        ctx.nontrivial(0 < t < Tf)
        differential(name, (Tf, t), ctx)
    return check


def _traj_labels(ctx, case):
    ctx.label("N=%d" % case["N"])
    ctx.label("method %d" % case["method"])
    return case["N"] >= 3 or case["method"] == 5


def c_JointTrajectory(case, ctx):
    nt = _traj_labels(ctx, case)
    ctx.label("n=%d" % len(case["thetastart"]))
    ctx.nontrivial(nt)
    differential("JointTrajectory", (case["thetastart"], case["thetaend"], case["Tf"], case["N"], case["method"]),
                 ctx)


def c_ScrewTrajectory(case, ctx):
    nt = _traj_labels(ctx, case)
    X = case["X"]
    ctx.label("rel " + X["rel"])
    ctx.nontrivial(nt and X["relang"] >= 1e-6)
    differential("ScrewTrajectory", (X["Xstart"], X["Xend"], case["Tf"], case["N"], case["method"]), ctx,
                 cond_idx=(0, 1))


def c_CartesianTrajectory(case, ctx):
    nt = _traj_labels(ctx, case)
    X = case["X"]
    ctx.label("rel " + X["rel"])
    ctx.nontrivial(nt and X["relang"] >= 1e-6)
    differential("CartesianTrajectory", (X["Xstart"], X["Xend"], case["Tf"], case["N"], case["method"]), ctx,
                 cond_idx=(0, 1))


# ----------------------------------------------------------------------------------------------
# case strategies
# ----------------------------------------------------------------------------------------------

def s_scalar_z():
    c = CUTOFF
    return st.one_of(
        G.floats(-1, 1), G.signed_log_uniform(1e-9, 1e-3),
        st.sampled_from([0.0, c, -c, math.nextafter(c, 0), math.nextafter(c, 1), -math.nextafter(c, 0),
                         -math.nextafter(c, 1), 1e-7, 1.0, -5.0, 1e300, 5e-324]))


@st.composite
def s_chain_q(draw, key, with_M):
    S = draw(G.chains())
    n = S.shape[1]
    d = {key: carr(S), "q": draw(joint_vec(n))}
    if with_M:
        d["M"] = draw(G.se3s(maxnorm=10.0))
    return d


@st.composite
def s_ik(draw):
    S = draw(G.chains())
    n = S.shape[1]
    kind = draw(st.sampled_from(["exact", "near", "near", "medium", "medium", "far"]))
    mag = {"exact": 0.0, "near": 0.02, "medium": 0.5, "far": PI}[kind]
    delta = np.array([draw(G.floats(-mag, mag)) for _ in range(n)]) if mag else np.zeros(n)
    goal = draw(st.sampled_from(["reachable", "reachable", "reachable", "free"]))
    tol = st.one_of(G.log_uniform(1e-6, 1e-1), st.sampled_from([0.01, 0.001, 1e-4]))
    return {"S": carr(S), "M": draw(G.se3s(maxnorm=5.0)), "qstar": draw(joint_vec(n)), "delta": delta,
            "goal": goal, "Tfree": draw(G.se3s(maxnorm=5.0)) if goal == "free" else None,
            "eomg": draw(tol), "ev": draw(tol)}


@st.composite
def s_dyn(draw, fields, nmax=7):
    md = draw(models(1, nmax))
    n = md["Slist"].shape[1]
    d = {"model": md, "q": draw(joint_vec(n))}
    for f in fields:
        if f in ("dq", "ddq", "dqd", "ddqd"):
            d[f] = draw(rate_vec(n))
        elif f == "qd":
            d[f] = draw(joint_vec(n))
        elif f == "eint":
            d[f] = draw(G.vec(n, -1.0, 1.0))
        elif f == "tau":
            d[f] = draw(G.vec(n, -20.0, 20.0))
        elif f == "g":
            d[f] = draw(gravity())
        elif f == "Ftip":
            d[f] = draw(st.one_of(G.vec(6, -20.0, 20.0), st.just(np.zeros(6))))
        elif f == "gains":
            for k in ("Kp", "Ki", "Kd"):
                d[k] = draw(st.one_of(G.floats(0.0, 30.0), st.sampled_from([0.0, 1.3, 20.0])))
        else:
            raise HarnessError("unknown field " + f)
    return d


def _mat_rows(draw, N, n, elem):
    return carr(np.array([[draw(elem) for _ in range(n)] for _ in range(N)], dtype=float).reshape(N, n))


@st.composite
def s_idtraj(draw):
    md = draw(models(1, 5))
    n = md["Slist"].shape[1]
    N = draw(st.integers(2, 12))
    while N > 2 and N * n > 30:
        N -= 1
    return {"model": md, "g": draw(gravity()),
            "thetamat": _mat_rows(draw, N, n, joint_value()),
            "dthetamat": _mat_rows(draw, N, n, G.floats(-10, 10)),
            "ddthetamat": _mat_rows(draw, N, n, G.floats(-10, 10)),
            "Ftipmat": _mat_rows(draw, N, 6, G.floats(-20, 20))}


@st.composite
def s_fdtraj(draw):
    md = draw(models(1, 7))
    n = md["Slist"].shape[1]
    N, intRes = cap_sim(n, draw(st.integers(2, 12)), draw(st.integers(1, 4)))
    return {"model": md, "q": draw(joint_vec(n)), "dq": draw(rate_vec(n, 3.0)), "g": draw(gravity()),
            "taumat": _mat_rows(draw, N, n, G.floats(-10, 10)),
            "Ftipmat": _mat_rows(draw, N, 6, G.floats(-10, 10)),
            "dt": draw(st.one_of(G.floats(1e-3, 2e-2), st.sampled_from([0.01, 0.001]))), "intRes": intRes}


@st.composite
def s_simctl(draw):
    md = draw(models(1, 7))
    n = md["Slist"].shape[1]
    same = draw(st.booleans())
    if same:
        tilde = {"Mlist": md["Mlist"].copy(), "Glist": md["Glist"].copy()}
    else:
        tilde = {"Mlist": carr(np.stack([draw(link_frame()) for _ in range(n + 1)])),
                 "Glist": carr(np.stack([draw(G.spd_spatial_inertia()) for _ in range(n)]))}
    N, intRes = cap_sim(n, draw(st.integers(2, 12)), draw(st.integers(1, 4)), cap=120)
    g = draw(gravity())
    d = {"model": md, "tilde": tilde, "q": draw(joint_vec(n)), "dq": draw(rate_vec(n, 3.0)), "g": g,
         "gtilde": g.copy() if same else draw(gravity()),
         "Ftipmat": _mat_rows(draw, N, 6, G.floats(-10, 10)),
         "thetamatd": _mat_rows(draw, N, n, joint_value()),
         "dthetamatd": _mat_rows(draw, N, n, G.floats(-3, 3)),
         "ddthetamatd": _mat_rows(draw, N, n, G.floats(-3, 3)),
         "dt": draw(st.one_of(G.floats(1e-3, 2e-2), st.sampled_from([0.01, 0.001]))), "intRes": intRes}
    for k in ("Kp", "Ki", "Kd"):
        d[k] = draw(st.one_of(G.floats(0.0, 30.0), st.sampled_from([0.0, 1.3, 20.0])))
    return d


@st.composite
def s_jointtraj(draw):
    n = draw(st.integers(1, 8))
    return {"thetastart": draw(joint_vec(n)), "thetaend": draw(joint_vec(n)), "Tf": draw(tf_values()),
            "N": draw(st.integers(2, 12)), "method": draw(methods())}


def s_posetraj():
    return st.fixed_dictionaries({"X": relative_poses(), "Tf": tf_values(), "N": st.integers(2, 12),
                                  "method": methods()})


def s_timescale():
    return st.fixed_dictionaries({
        "Tf": tf_values(),
        "frac": st.one_of(G.floats(0.0, 1.0), st.sampled_from([0.0, 1.0, 0.5, 0.3, 1e-9]))})


_T = st.fixed_dictionaries({"T": G.se3s()})
_V = st.fixed_dictionaries({"V": G.twists()})
_W = st.fixed_dictionaries({"w": G.rotvecs()})
_OMG = st.fixed_dictionaries({"omg": nonzero_vec3()})

ID_FIELDS = ("dq", "ddq", "g", "Ftip")

# name, check, strategy, n_quick, n_thorough
_EQ = [
    ("NearZero", c_NearZero, st.fixed_dictionaries({"z": s_scalar_z()}), 300, 24000),
    ("Normalize", c_Normalize, st.fixed_dictionaries({"V": nonzero_vec3()}), 300, 24000),
    ("RotInv", c_RotInv, _T, 200, 16000),
    ("VecToso3", c_VecToso3, _OMG, 200, 16000),
    ("so3ToVec", c_so3ToVec, _OMG, 200, 16000),
    ("AxisAng3", c_AxisAng3, _W, 300, 24000),
    ("MatrixExp3", c_MatrixExp3, _W, 400, 32000),
    ("MatrixLog3", c_MatrixLog3, _T, 400, 32000),
    ("RpToTrans", c_RpToTrans, _T, 200, 16000),
    ("TransToRp", c_TransToRp, _T, 200, 16000),
    ("TransInv", c_TransInv, _T, 300, 24000),
    ("VecTose3", c_VecTose3, st.fixed_dictionaries({"V": G.vec6(1e3)}), 200, 16000),
    ("se3ToVec", c_se3ToVec, st.fixed_dictionaries({"V": G.vec6(1e3)}), 200, 16000),
    ("Adjoint", c_Adjoint, _T, 300, 24000),
    ("ScrewToAxis", c_ScrewToAxis,
     st.fixed_dictionaries({"q": G.positions(10.0), "s": G.unit_vectors(),
                            "h": st.one_of(G.floats(-2, 2), st.sampled_from([0.0, 0.0, 2.0]))}), 200, 16000),
    ("AxisAng6", c_AxisAng6, _V, 300, 24000),
    ("MatrixExp6", c_MatrixExp6, _V, 400, 32000),
    ("MatrixLog6", c_MatrixLog6, _T, 400, 32000),
    ("ProjectToSO3", _mat_case("ProjectToSO3"), near_so3(), 300, 24000),
    ("ProjectToSE3", _mat_case("ProjectToSE3"), near_se3(), 300, 24000),
    ("DistanceToSO3", _mat_case("DistanceToSO3"), near_so3(), 300, 24000),
    ("DistanceToSE3", _mat_case("DistanceToSE3"), near_se3(), 300, 24000),
    ("TestIfSO3", _mat_case("TestIfSO3"), near_so3(), 300, 24000),
    ("TestIfSE3", _mat_case("TestIfSE3"), near_se3(), 300, 24000),
    ("FKinBody", c_FKinBody, s_chain_q("Blist", True), 300, 16000),
    ("FKinSpace", c_FKinSpace, s_chain_q("Slist", True), 300, 16000),
    ("JacobianBody", c_JacobianBody, s_chain_q("Blist", False), 300, 16000),
    ("JacobianSpace", c_JacobianSpace, s_chain_q("Slist", False), 300, 16000),
    ("ad", c_ad, st.fixed_dictionaries({"V": G.vec6(1e3)}), 200, 16000),
    ("InverseDynamics", c_InverseDynamics, s_dyn(ID_FIELDS), 150, 6000),
    ("MassMatrix", c_MassMatrix, s_dyn(()), 150, 4000),
    ("VelQuadraticForces", c_VelQuadraticForces, s_dyn(("dq",)), 150, 6000),
    ("GravityForces", c_GravityForces, s_dyn(("g",)), 150, 6000),
    ("EndEffectorForces", c_EndEffectorForces, s_dyn(("Ftip",)), 150, 6000),
    ("ForwardDynamics", c_ForwardDynamics, s_dyn(("dq", "tau", "g", "Ftip")), 120, 3000),
    ("EulerStep", c_EulerStep,
     st.integers(1, 8).flatmap(lambda n: st.fixed_dictionaries({
         "q": joint_vec(n), "dq": rate_vec(n), "ddq": rate_vec(n, 100.0),
         "dt": st.one_of(G.log_uniform(1e-4, 1.0), st.sampled_from([0.1, 0.01, 0.0]))})), 200, 16000),
    ("InverseDynamicsTrajectory", c_InverseDynamicsTrajectory, s_idtraj(), 100, 3000),
    ("ForwardDynamicsTrajectory", c_ForwardDynamicsTrajectory, s_fdtraj(), 80, 1600),
    ("CubicTimeScaling", _timescaling("CubicTimeScaling"), s_timescale(), 300, 24000),
    ("QuinticTimeScaling", _timescaling("QuinticTimeScaling"), s_timescale(), 300, 24000),
    ("JointTrajectory", c_JointTrajectory, s_jointtraj(), 300, 16000),
    ("ScrewTrajectory", c_ScrewTrajectory, s_posetraj(), 200, 12000),
    ("CartesianTrajectory", c_CartesianTrajectory, s_posetraj(), 200, 12000),
    ("ComputedTorque", c_ComputedTorque,
     s_dyn(("dq", "eint", "g", "qd", "dqd", "ddqd", "gains")), 120, 3000),
    ("SimulateControl", c_SimulateControl, s_simctl(), 80, 1600),
]

_IK = [
    ("ik_success_meets_tol_IKinBody", _ik_success("IKinBody", True), s_ik(), 300, 8000),
    ("ik_success_meets_tol_IKinSpace", _ik_success("IKinSpace", False), s_ik(), 300, 8000),
    ("ik_same_solution_IKinBody", _ik_same("IKinBody", True), s_ik(), 300, 8000),
    ("ik_same_solution_IKinSpace", _ik_same("IKinSpace", False), s_ik(), 300, 8000),
]

CLAUSES = [Clause("eq_" + n, c, s, nq, nt) for (n, c, s, nq, nt) in _EQ] + \
          [Clause(n, c, s, nq, nt) for (n, c, s, nq, nt) in _IK]

_covered = {n for (n, _c, _s, _q, _t) in _EQ} | {"IKinBody", "IKinSpace"}
if _covered != set(EXPECTED):
    raise HarnessError("clauses do not cover the 47 functions: %s" % sorted(set(EXPECTED) ^ _covered))


def warm():
    """Check the pin and the 47-name intersection, then compile every kernel once."""
    port, _ = libs()
    T = np.eye(4)
    V = np.array([0.1, 0.2, 0.3, 1.0, 2.0, 3.0])
    S = carr(np.array([[0, 0, 1, 0, 0, 0], [0, 1, 0, -0.5, 0, 0.1]], dtype=float).T)
    q = np.array([0.3, -0.4])
    port.NearZero(0.5)
    port.Normalize(V[:3].copy())
    port.AxisAng3(V[:3].copy())
    port.AxisAng6(V.copy())
    port.MatrixLog6(port.MatrixExp6(port.VecTose3(V)))
    port.MatrixLog3(port.MatrixExp3(port.VecToso3(V[:3].copy())))
    port.so3ToVec(port.VecToso3(V[:3].copy()))
    port.se3ToVec(port.VecTose3(V))
    port.RotInv(np.eye(3))
    port.RpToTrans(np.eye(3), V[3:].copy())
    port.TransToRp(T)
    port.TransInv(T)
    port.Adjoint(T)
    port.ad(V)
    port.ScrewToAxis(V[3:].copy(), np.array([0.0, 0.0, 1.0]), 0.5)
    port.DistanceToSO3(np.eye(3))
    port.DistanceToSE3(T)
    port.TestIfSO3(np.eye(3))
    port.TestIfSE3(T)
    port.FKinBody(T, S, q)
    port.FKinSpace(T, S, q)
    port.JacobianBody(S, q)
    port.JacobianSpace(S, q)
    port.IKinBody(S, T, port.FKinBody(T, S, q), q + 0.01, 0.01, 0.001)
    port.IKinSpace(S, T, port.FKinSpace(T, S, q), q + 0.01, 0.01, 0.001)
    port.EulerStep(q, q, q, 0.1)
    port.CubicTimeScaling(2.0, 0.6)
    port.QuinticTimeScaling(2.0, 0.6)
    port.JointTrajectory(q, q + 1, 2.0, 4, 3)
    port.ScrewTrajectory(T, port.FKinSpace(T, S, q), 2.0, 3, 5)
    port.CartesianTrajectory(T, port.FKinSpace(T, S, q), 2.0, 3, 5)
    Ml = carr(np.stack([T, T, T]))
    Gl = carr(np.stack([np.eye(6), np.eye(6)]))
    port.ForwardDynamics(q, q, q, np.array([0, 0, -9.8]), np.zeros(6), Ml, Gl, S)
