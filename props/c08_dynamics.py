"""C08 -- rigid-body dynamics are physically consistent.

MR level (``modern_high_performance`` chapter 8).  A case is a whole mechanism plus a state:
  {"S": 6xn screws (space frame), "M": (n+1)x4x4 link frames {i} relative to {i-1} at home (last = tool),
   "G": nx6x6 spatial inertias expressed in the link frames, "q","qd","qdd","tau": n, "g": 3, "F": 6}
Everything the oracle needs is re-derived from S, M, G with ``vf.oracle`` only:
  link frame i at q        T_i(q)  = exp([S_1]q_1)..exp([S_i]q_i) . M_01..M_(i-1,i)
  body Jacobian of link i  J_i(q)  = Ad(T_i^-1) . [J_s(q)]_(1..i)   (zero columns for joints > i)
                           (cross-checked in every mass-matrix case against the body-screw form
                            J_b(Ad(M_i^-1) S_(1..i), q_(1..i)) of vf.oracle.jac_body)
  mass matrix              M(q)    = sum_i J_i^T G_i J_i
  mass / centre of mass    m_i = G_i[3,3],  r_i = vee(upper-right block of G_i) / m_i   (G = [[Ic - m r^r^, m r^],[-m r^, m 1]])
  potential energy         P(q)    = - sum_i m_i g . (T_i(q) r_i)
  tip body Jacobian        J_tip   = Ad(T_(n+1)^-1) J_s   (MR expresses Ftip in the end-effector frame {n+1})
  velocity-product term    qd.c = 1/2 qd^T (sum_i dM/dq_i qd_i) qd   and   c_k = sum_ij (dM_kj/dq_i - 1/2 dM_ij/dq_k) qd_i qd_j
                           with dM/dq_i by Richardson differences of the ORACLE's M (never of the library's)
  energy                   RK4 over the LIBRARY's ForwardDynamics (tau = 0, F = 0), E = 1/2 qd^T M(q) qd + P(q) from the oracle

Arm level (``kinematics.Arm``).  A case is {"arm": spec of vf.arms (6R arm of the suite or a random chain,
identity or random base), "L": nx4x4 link frames in BASE coordinates or None (= the suite's), "G": nx6x6 or
None (= the suite's box inertias), state, "wform": how the tip wrench is handed over, "gdefault"}.
How the arm maps its stored data to MR's lists (read off Arm.inverseDynamics / forwardDynamics):
  Slist = arm.screw_list (world frame);  Mlist[i] = _link_mass_grav_centers[i]  (i = 0..n; [0] is the world pose of
  link frame 1, [n] the tool in link frame n);  Glist = _box_spatial_links;  _link_homes_global[i] must be the
  running product Mlist[0]..Mlist[i] (the user hands both, the suite's setUp does exactly that); the tool home
  must be the product of all n+1.  The harness supplies consistent data through setOrigins / setMassProperties.
"""
import math

import numpy as np
from hypothesis import strategies as st

from vf import arms as A
from vf import gen as G
from vf import oracle as O
from vf.core import Clause, HarnessError, Inconclusive, Violation, sut

PROPERTY_ID = "C08"
RULE = ("MR level: random open chains of 1..7 unit-axis screws (axis-aligned / planar / generic axes, pitch 0, 0.1, -0.5), "
        "n+1 random relative link frames built without the library (identity, half turns, generic; offsets log-uniform "
        "to 1), spatial inertias Ad(Tc)^T diag(Ic, m) Ad(Tc) with SPD Ic (eigenvalues 0.01..5), m in [0.1, 50], half of "
        "them expressed in a frame displaced (<= 0.5 per axis) and rotated from the centre of mass; q in [-pi,pi]^n with "
        "mass at 0, +-pi/2, +-pi and around the 1e-6 NearZero cut-off; qd, qdd, tau, g, Ftip with norm <= 100 (zero, "
        "one-hot, log-uniform and uniform magnitudes).  Energy clause: q in [-2.5,2.5]^n, |qd| <= 2, |g| <= 20, RK4 200 x "
        "1e-3 s over the library's ForwardDynamics.  Arm level: the suite's 6R arm (suite inertias or random SPD ones "
        "through setMassProperties) and random 1..7-joint arms (6 joints over-weighted) at the identity or a random "
        "base with random link frames / inertias handed through setOrigins + setMassProperties; wrench as Wrench "
        "object, flat array (as the suite does) or omitted; gravity given or defaulted.  The velocity-product term is "
        "checked against the passivity identity and against the Christoffel symbols of the oracle's M.  Non-trivial: n >= 2 and a "
        "screw axis that is not a coordinate axis and (where velocities enter) |qd| >= 0.1; distinct by digest.")
ASSUMPTIONS = [
    "oracle: vf.oracle only (long-double Rodrigues exponentials, adjoints, space/body Jacobians, Richardson central "
    "differences with steps 1e-3, 5e-4, 2.5e-4); two independent derivations of the link Jacobians are compared in "
    "every mass-matrix case",
    "mass and centre of mass of a link are recovered from its G itself: m = G[3,3], r = vee(G[0:3,3:6]) / m",
    "1e-8 relative to the magnitude of the quantities entering the identity (sum of |M||qdd|, |c|, |g|, |J^T F|, |tau|; "
    "for accelerations that sum divided by lambda_min(M)); 1e-6 where a finite difference of M or P is involved; "
    "5e-6 per joint value in the open NearZero band (1e-11, 2e-6) instead, wherever the oracle's exact kinematics (or "
    "two library implementations that linearise differently) are compared (MatrixExp6 drops rotations below 1e-6 by "
    "design); plus 1e-290 absolute against denormal underflow",
    "energy: E = 1/2 qd^T M_oracle qd + P_oracle sampled every 20 steps; a drift above 1e-6*max(1, E scale) is only a "
    "violation if it persists (does not shrink like an integration error) with 400 x 5e-4 s and 800 x 2.5e-4 s",
    "inverseDynamicsC hard-codes 6 joints and is only exercised on 6-joint arms",
    "arm level: the harness hands mutually consistent link frames (global link homes = running product of the "
    "relative mass frames, tool home = product of all) -- exactly what the suite's setUp does",
]
SHARDS = {"quick": 4, "thorough": 16}

PI = math.pi
TIGHT = 1e-8
FDTOL = 1e-6
LOOSE = 5e-6
# The library's MatrixExp6 drops rotations below 1e-6 (NearZero).  DESIGN 1.3 uses the band (1e-9, 2e-6); at this
# property's 1e-8 a dropped 1e-9 rad rotation is already visible (measured 1.2e-9 of |M|), so the band starts at 1e-11.
BAND_LO, BAND_HI = 1e-11, 2e-6

_lib = {}


def lib():
    if not _lib:
        from basic_robotics.general import Wrench, tm
        from basic_robotics.modern_robotics_numba import modern_high_performance as m
        _lib.update(mr=m, tm=tm, Wrench=Wrench)
    return _lib


def mr():
    return lib()["mr"]


def warm():
    # optimisation only; if the library is broken enough to raise here the clauses report it with a case
    try:
        m = mr()
        S = np.array([[0.0, 0, 1, 0, 0, 0], [0, 1, 0, -1, 0, 0]]).T.copy()
        Ml = np.array([np.eye(4)] * 3)
        Gl = np.array([np.eye(6)] * 2)
        z = np.array([0.1, 0.2])
        m.ForwardDynamics(z, z, z, np.array([0, 0, -9.8]), np.zeros(6), Ml, Gl, S)
        m.InverseDynamics(z, z, z, np.array([0, 0, -9.8]), np.zeros(6), Ml, Gl, S)
        arm, _ = A.build_arm({"kind": "sixr", "base": np.zeros(6)})
        q = np.linspace(0.1, 0.6, 6)
        arm.inverseDynamics(q.copy(), q, q)
        arm.inverseDynamicsC(q.copy(), q, q)
        arm.massMatrix(q.copy())
        arm.forwardDynamicsE(q.copy(), q, q)
    except Exception:  # noqa: BLE001 -- deliberately broad, see above
        pass


# ------------------------------------------------------------------------------------------------
# oracle (vf.oracle only)
# ------------------------------------------------------------------------------------------------

def link_homes(Mlist):
    """[M_1, ..., M_n, M_(n+1)]: home poses of the link frames and of the tool in the space frame."""
    out = []
    T = np.eye(4)
    for Mi in Mlist:
        T = T @ np.asarray(Mi, dtype=float)
        out.append(T.copy())
    return out


def kin(S, homes, q):
    """(J_s(q), [T_1(q)..T_n(q), T_tip(q)])."""
    n = S.shape[1]
    Js = np.zeros((6, n))
    T = np.eye(4)
    Ts = []
    for i in range(n):
        Js[:, i] = O.Ad(T) @ S[:, i]
        T = T @ O.exp6(S[:, i] * q[i])
        Ts.append(T @ homes[i])
    Ts.append(T @ homes[n])
    return Js, Ts


def link_jacobians(S, homes, q):
    n = S.shape[1]
    Js, Ts = kin(S, homes, q)
    out = []
    for i in range(n):
        J = np.zeros((6, n))
        J[:, :i + 1] = O.Ad(O.inv(Ts[i])) @ Js[:, :i + 1]
        out.append(J)
    return out


def link_jacobians_body_form(S, homes, q):
    """Second derivation: body screws of joints 1..i in link frame i, then vf.oracle.jac_body."""
    n = S.shape[1]
    out = []
    for i in range(n):
        B = O.Ad(O.inv(homes[i])) @ S[:, :i + 1]
        J = np.zeros((6, n))
        J[:, :i + 1] = O.jac_body(B, q[:i + 1])
        out.append(J)
    return out


def mass_oracle(S, homes, Gl, q):
    n = S.shape[1]
    M = np.zeros((n, n))
    for J, Gi in zip(link_jacobians(S, homes, q), Gl):
        M += J.T @ Gi @ J
    return M


def tip_jacobian(S, homes, q):
    Js, Ts = kin(S, homes, q)
    return O.Ad(O.inv(Ts[-1])) @ Js


def mass_com(Gi):
    m = float(Gi[3, 3])
    r = O.vee3(np.asarray(Gi)[:3, 3:]) / m
    return m, r


def com_positions(S, homes, Gl, q):
    _, Ts = kin(S, homes, q)
    return [Ts[i][:3, :3] @ mass_com(Gl[i])[1] + Ts[i][:3, 3] for i in range(S.shape[1])]


def potential(S, homes, Gl, g, q):
    P = 0.0
    for i, p in enumerate(com_positions(S, homes, Gl, q)):
        P -= mass_com(Gl[i])[0] * float(np.dot(g, p))
    return P


# ------------------------------------------------------------------------------------------------
# helpers
# ------------------------------------------------------------------------------------------------

def band_count(q):
    return sum(1 for x in np.asarray(q).reshape(-1) if BAND_LO < abs(float(x)) < BAND_HI)


def in_band(q):
    return band_count(q) > 0


def band_tol(q, rtol, natural, bound):
    """rtol * natural scale -- or, when k joint values lie in the NearZero band, 5e-6 * k * bound, where ``bound`` is a
    configuration-independent (generous) bound of the same quantity.  Why not 5e-6 of the natural scale: the library's
    MatrixExp6 replaces exp([A]t), |t| < 1e-6, by [I, v t]: everything downstream of that joint is turned back by t about
    a reference point (the link-frame origin in the Newton-Euler recursion, the SPACE origin in FKinSpace-based code
    such as Arm.massMatrix / inverseDynamicsC).  A point at distance d from the reference point moves by t*d; a lever
    arm l changes by t*d/l relatively, which is not bounded by any fixed multiple of t.  The bound uses the largest
    distance D of any frame origin / centre of mass / joint axis from the space origin instead of the lever arms."""
    k = band_count(q)
    return rtol * natural if k == 0 else max(rtol * natural, LOOSE * k * bound)


class Reach:
    """D = largest distance from the space origin of any link-frame origin, tool origin, centre of mass or joint axis at
    q;  Mb = 36 (2+2D)^2 sum_i max|G_i| bounds every entry of M (|J_i| <= 1+2D entrywise, 6x6 forms) with room for the
    first-order change under a dropped rotation;  lever = 6 (2+2D) bounds moment arms."""

    def __init__(self, S, homes, Gl, q):
        Js, Ts = kin(S, homes, q)
        pts = [T[:3, 3] for T in Ts]
        pts += [Ts[i][:3, :3] @ mass_com(Gl[i])[1] + Ts[i][:3, 3] for i in range(S.shape[1])]
        pts += [np.cross(Js[:3, j], Js[3:, j]) for j in range(S.shape[1])]
        self.D = max(float(np.sqrt(np.dot(p, p))) for p in pts)
        self.lever = 6.0 * (2.0 + 2.0 * self.D)
        self.Mb = 36.0 * (2.0 + 2.0 * self.D) ** 2 * sum(amax(Gi) for Gi in Gl)
        self.mass = sum(mass_com(Gi)[0] for Gi in Gl)


def vec_out(x, n, what):
    a = np.asarray(x, dtype=float)
    if a.size != n:
        raise Violation("%s: %d entries expected, shape %s" % (what, n, a.shape))
    a = a.reshape(n)
    if not np.all(np.isfinite(a)):
        raise Violation("%s: non-finite %s" % (what, a))
    return a


def close(a, b, tol, what):
    a = np.asarray(a, dtype=float)
    b = np.asarray(b, dtype=float)
    if a.shape != b.shape:
        raise Violation("%s: shape %s vs %s" % (what, a.shape, b.shape))
    if not np.all(np.isfinite(a)):
        raise Violation("%s: non-finite result" % what)
    d = float(np.abs(a - b).max()) if a.size else 0.0
    tol = tol + UNDERFLOW
    if d > tol:
        raise Violation("%s: max |diff| %.3g > tol %.3g\n lib/lhs %s\n ref/rhs %s" % (what, d, tol, a, b))


def amax(x):
    x = np.asarray(x, dtype=float)
    return float(np.abs(x).max()) if x.size else 0.0


def generic_axis(S):
    w = np.asarray(S)[:3, :]
    return bool(np.any(np.count_nonzero(np.abs(w) > 1e-12, axis=0) >= 2))


def decade(x):
    return "1e%+03d" % int(math.floor(math.log10(x))) if x > 0 else "0"


def unpack(case):
    S = np.ascontiguousarray(case["S"], dtype=float)
    Ml = np.ascontiguousarray(case["M"], dtype=float)
    Gl = np.ascontiguousarray(case["G"], dtype=float)
    n = S.shape[1]
    if Ml.shape != (n + 1, 4, 4) or Gl.shape != (n, 6, 6):
        raise HarnessError("malformed case: S %s M %s G %s" % (S.shape, Ml.shape, Gl.shape))
    return S, Ml, Gl, n


def common_labels(ctx, S, Gl, q):
    n = S.shape[1]
    ctx.label("n=%d" % n)
    if in_band(q):
        ctx.label("q in NearZero band")
    if np.any(np.abs(np.sum(S[:3] * S[3:], axis=0)) > 1e-12):
        ctx.label("helical joint")
    if any(amax(Gi[:3, 3:]) > 0 for Gi in Gl):
        ctx.label("G displaced from COM")


UNDERFLOW = 1e-290     # absolute floor of every tolerance: products of denormal-small inputs lose relative accuracy


def norm1(x):
    return float(np.abs(np.asarray(x, dtype=float)).sum())


class Terms:
    """The library's four terms at a state, and the natural scale of the quantities entering them.

    The scale is NOT taken from the results alone (joint torques are moments of much larger link forces that
    may cancel: the 6R arm spinning about its first axis at 100 rad/s carries 1e6 N of centrifugal load through
    joints whose torque is 1e3): it is  |M|(|qdd|_1 + |qd|_1^2) + |g|_1 sum_i m_i (|p_com,i|_1 + max_j |v_j|_1)
    + |J_tip| |F|_1  from the oracle's M, centres of mass and tip Jacobian, plus the magnitudes of the
    library's own terms and of tau."""

    def __init__(self, S, Ml, Gl, homes, q, qd, g, F):
        m = mr()
        n = len(q)
        self.M = np.asarray(sut(m.MassMatrix, q, Ml, Gl, S), dtype=float)
        if self.M.shape != (n, n) or not np.all(np.isfinite(self.M)):
            raise Violation("MassMatrix: shape %s / non-finite" % (self.M.shape,))
        self.c = vec_out(sut(m.VelQuadraticForces, q, qd, Ml, Gl, S), n, "VelQuadraticForces")
        self.g = vec_out(sut(m.GravityForces, q, g, Ml, Gl, S), n, "GravityForces")
        self.e = vec_out(sut(m.EndEffectorForces, q, F, Ml, Gl, S), n, "EndEffectorForces")
        self.Mor = mass_oracle(S, homes, Gl, q)
        self.Jt = tip_jacobian(S, homes, q)
        self.s_M = amax(self.Mor)
        self.s_c = self.s_M * norm1(qd) ** 2
        self.s_g = gravity_scale(S, homes, Gl, g, q)
        self.s_e = amax(self.Jt) * norm1(F)

        self.reach = Reach(S, homes, Gl, q)
        self.q, self.qd, self.gvec, self.F = q, qd, g, F

    def scale(self, qdd, tau=None):
        s = (self.s_M * norm1(qdd) + self.s_c + self.s_g + self.s_e
             + amax(self.M) * norm1(qdd) + amax(self.c) + amax(self.g) + amax(self.e))
        if tau is not None:
            s += amax(tau)
        return s

    def bound(self, qdd, tau=None):
        r = self.reach
        s = (r.Mb * (norm1(qdd) + 6.0 * norm1(self.qd) ** 2)
             + r.lever * (r.mass * norm1(self.gvec) + norm1(self.F)))
        if tau is not None:
            s += amax(tau)
        return s

    def tol_tau(self, qdd, tau=None):
        """Tolerance for a torque identity that mixes kinematic conventions (oracle vs library, or two library
        implementations that linearise the NearZero band differently)."""
        return band_tol(self.q, TIGHT, self.scale(qdd, tau), self.bound(qdd, tau))

    def tol_acc(self, qdd, tau=None):
        lam = self.lam_min()
        return band_tol(self.q, TIGHT, max(amax(qdd), self.scale(qdd, tau) / lam), max(amax(qdd), self.bound(qdd, tau) / lam))

    def tol_M(self):
        return band_tol(self.q, TIGHT, self.s_M, self.reach.Mb)

    def lam_min(self):
        return float(np.linalg.eigvalsh(self.Mor)[0])


def gravity_scale(S, homes, Gl, g, q):
    vmax = float(np.abs(S[3:]).sum(axis=0).max())
    return norm1(g) * sum(mass_com(Gl[i])[0] * (norm1(p) + vmax) for i, p in enumerate(com_positions(S, homes, Gl, q)))


# ------------------------------------------------------------------------------------------------
# MR-level clauses
# ------------------------------------------------------------------------------------------------

def c_mass(case, ctx):
    S, Ml, Gl, n = unpack(case)
    q = case["q"]
    common_labels(ctx, S, Gl, q)
    ctx.nontrivial(n >= 2 and generic_axis(S) and np.any(q != 0))
    homes = link_homes(Ml)
    # oracle self-check: two derivations of the link Jacobians
    for Ja, Jb in zip(link_jacobians(S, homes, q), link_jacobians_body_form(S, homes, q)):
        if amax(Ja - Jb) > 1e-10 * max(1.0, amax(Ja)):
            raise HarnessError("oracle link Jacobians disagree: %.3g" % amax(Ja - Jb))
    Mor = mass_oracle(S, homes, Gl, q)
    M = np.asarray(sut(mr().MassMatrix, q, Ml, Gl, S), dtype=float)
    if M.shape != (n, n) or not np.all(np.isfinite(M)):
        raise Violation("MassMatrix: shape %s / non-finite" % (M.shape,))
    sc = amax(Mor)
    close(M, M.T, TIGHT * sc, "MassMatrix symmetric")
    lam = np.linalg.eigvalsh((M + M.T) / 2)
    ctx.label("cond(M) " + (decade(lam[-1] / lam[0]) if lam[0] > 0 else "<=0"))
    if not lam[0] > 0:
        raise Violation("MassMatrix not positive definite: lambda_min = %.6g (lambda_max %.6g)" % (lam[0], lam[-1]))
    close(M, Mor, band_tol(q, TIGHT, sc, Reach(S, homes, Gl, q).Mb), "MassMatrix vs sum_i J_i^T G_i J_i")


def c_fd_id(case, ctx):
    S, Ml, Gl, n = unpack(case)
    q, qd, qdd, tau, g, F = (case[k] for k in ("q", "qd", "qdd", "tau", "g", "F"))
    common_labels(ctx, S, Gl, q)
    ctx.nontrivial(n >= 2 and generic_axis(S) and np.linalg.norm(qd) >= 0.1)
    m = mr()
    t = Terms(S, Ml, Gl, link_homes(Ml), q, qd, g, F)
    lam = t.lam_min()
    ctx.label("cond(M) " + decade(float(np.linalg.eigvalsh(t.Mor)[-1]) / lam))
    # FD(ID(qdd)) = qdd
    tau_id = vec_out(sut(m.InverseDynamics, q, qd, qdd, g, F, Ml, Gl, S), n, "InverseDynamics")
    qdd2 = vec_out(sut(m.ForwardDynamics, q, qd, tau_id, g, F, Ml, Gl, S), n, "ForwardDynamics")
    sc = max(amax(qdd), t.scale(qdd, tau_id) / lam)
    close(qdd2, qdd, TIGHT * sc, "ForwardDynamics(InverseDynamics(qdd)) vs qdd")
    # ID(FD(tau)) = tau
    qdd_fd = vec_out(sut(m.ForwardDynamics, q, qd, tau, g, F, Ml, Gl, S), n, "ForwardDynamics")
    tau2 = vec_out(sut(m.InverseDynamics, q, qd, qdd_fd, g, F, Ml, Gl, S), n, "InverseDynamics")
    close(tau2, tau, TIGHT * t.scale(qdd_fd, tau), "InverseDynamics(ForwardDynamics(tau)) vs tau")


def c_id_trajectory(case, ctx):
    """The trajectory form of inverse dynamics is the single-sample form applied to every sample: row k of its
    answer is InverseDynamics of row k of the joint histories with row k of the tip-wrench history."""
    S, Ml, Gl, n = unpack(case)
    Q, QD, QDD, FT, g = (np.asarray(case[k], dtype=float) for k in ("Q", "QD", "QDD", "FT", "g"))
    N = Q.shape[0]
    ctx.label("n=%d" % n)
    ctx.label("samples=%d" % N)
    ctx.nontrivial(n >= 2 and N >= 2 and amax(FT) > 0)
    m = mr()
    out = np.asarray(sut(m.InverseDynamicsTrajectory, Q.copy(), QD.copy(), QDD.copy(), g.copy(), FT.copy(), Ml, Gl, S), dtype=float)
    if out.shape != (N, n):
        raise Violation("InverseDynamicsTrajectory: shape %s, expected (%d, %d)" % (out.shape, N, n))
    homes = link_homes(Ml)
    for k in range(N):
        one = vec_out(sut(m.InverseDynamics, Q[k].copy(), QD[k].copy(), QDD[k].copy(), g.copy(), FT[k].copy(), Ml, Gl, S), n,
                      "InverseDynamics")
        t = Terms(S, Ml, Gl, homes, Q[k], QD[k], g, FT[k])
        close(out[k], one, TIGHT * t.scale(QDD[k], one),
              "InverseDynamicsTrajectory row %d of %d vs InverseDynamics of that sample" % (k, N))


def c_decomposition(case, ctx):
    S, Ml, Gl, n = unpack(case)
    q, qd, qdd, g, F = (case[k] for k in ("q", "qd", "qdd", "g", "F"))
    common_labels(ctx, S, Gl, q)
    ctx.nontrivial(n >= 2 and generic_axis(S) and np.linalg.norm(qd) >= 0.1)
    if amax(F) > 0:
        ctx.label("F != 0")
    m = mr()
    homes = link_homes(Ml)
    t = Terms(S, Ml, Gl, homes, q, qd, g, F)
    tau = vec_out(sut(m.InverseDynamics, q, qd, qdd, g, F, Ml, Gl, S), n, "InverseDynamics")
    close(tau, t.M @ qdd + t.c + t.g + t.e, TIGHT * t.scale(qdd, tau), "InverseDynamics vs M qdd + c + g + J^T F (library terms)")
    # the tip term against the oracle's body Jacobian of the tool frame
    close(t.e, t.Jt.T @ F, band_tol(q, TIGHT, t.s_e, t.reach.lever * norm1(F)), "EndEffectorForces vs J_b(tool)^T Ftip")
    # and the whole with the oracle's M and J^T where the library's c and g are kept
    close(tau, t.Mor @ qdd + t.c + t.g + t.Jt.T @ F, t.tol_tau(qdd, tau),
          "InverseDynamics vs M_oracle qdd + c + g + J_oracle^T F")


def c_passivity(case, ctx):
    S, Ml, Gl, n = unpack(case)
    q, qd = case["q"], case["qd"]
    common_labels(ctx, S, Gl, q)
    ctx.label("|qd| " + decade(amax(qd)))
    ctx.nontrivial(n >= 2 and generic_axis(S) and np.linalg.norm(qd) >= 0.1)
    homes = link_homes(Ml)
    c = vec_out(sut(mr().VelQuadraticForces, q, qd, Ml, Gl, S), n, "VelQuadraticForces")
    lhs = float(np.dot(qd, c))
    Mdot = np.zeros((n, n))
    for i in range(n):
        if qd[i] != 0:
            Mdot += qd[i] * O.richardson(lambda x: mass_oracle(S, homes, Gl, x), q, i)
    rhs = 0.5 * float(qd @ Mdot @ qd)
    sc = norm1(qd * c) + norm1(qd) ** 3 * amax(mass_oracle(S, homes, Gl, q))
    ctx.note("qd.c", lhs)
    ctx.note("half qd^T Mdot qd", rhs)
    tol = band_tol(q, FDTOL, sc, 6.0 * Reach(S, homes, Gl, q).Mb * norm1(qd) ** 3 + norm1(qd * c)) + UNDERFLOW
    if not math.isfinite(lhs) or abs(lhs - rhs) > tol:
        raise Violation("qd.c = %.12g but 1/2 qd^T Mdot qd = %.12g (diff %.3g > tol %.3g)" % (lhs, rhs, abs(lhs - rhs), tol))


def c_christoffel(case, ctx):
    """c(q, qd) of the manipulator equation is determined by M:  c_k = sum_ij (dM_kj/dq_i - 1/2 dM_ij/dq_k) qd_i qd_j.
    (The passivity identity alone cannot see a workless error: flipping the sign of the gyroscopic term
    ad(V)^T G V leaves qd.c unchanged because V^T ad(V)^T G V = 0.)"""
    S, Ml, Gl, n = unpack(case)
    q, qd = case["q"], case["qd"]
    common_labels(ctx, S, Gl, q)
    ctx.label("|qd| " + decade(amax(qd)))
    ctx.nontrivial(n >= 2 and generic_axis(S) and np.linalg.norm(qd) >= 0.1)
    homes = link_homes(Ml)
    c = vec_out(sut(mr().VelQuadraticForces, q, qd, Ml, Gl, S), n, "VelQuadraticForces")
    dM = [O.richardson(lambda x: mass_oracle(S, homes, Gl, x), q, i) for i in range(n)]
    ref = np.zeros(n)
    for k in range(n):
        for i in range(n):
            ref[k] += qd[i] * float((dM[i][k, :] - 0.5 * dM[k][i, :]) @ qd)
    sM = amax(mass_oracle(S, homes, Gl, q))
    sc = norm1(qd) ** 2 * (1.5 * max(amax(d) for d in dM) + sM)
    close(c, ref, band_tol(q, FDTOL, sc, 6.0 * Reach(S, homes, Gl, q).Mb * norm1(qd) ** 2),
          "VelQuadraticForces vs Christoffel symbols of M")


def c_gravity(case, ctx):
    S, Ml, Gl, n = unpack(case)
    q, g = case["q"], case["g"]
    common_labels(ctx, S, Gl, q)
    ctx.label("|g| " + decade(amax(g)))
    ctx.nontrivial(n >= 2 and generic_axis(S) and amax(g) > 0)
    homes = link_homes(Ml)
    glib = vec_out(sut(mr().GravityForces, q, g, Ml, Gl, S), n, "GravityForces")
    grad = np.array([float(O.richardson(lambda x: potential(S, homes, Gl, g, x), q, i)) for i in range(n)])
    sc = gravity_scale(S, homes, Gl, g, q)
    r = Reach(S, homes, Gl, q)
    close(glib, grad, band_tol(q, FDTOL, sc, r.lever * r.mass * norm1(g)), "GravityForces vs grad P")


def _rk4_energy(S, Ml, Gl, homes, g, q0, qd0, steps, dt):
    """Integrate the torque-free, wrench-free chain with the LIBRARY's ForwardDynamics as the vector field.
    Returns (max |E - E0| over samples, E scale, left_domain, some |q_i| handed to the library was in the NearZero band)."""
    m = mr()
    n = len(q0)
    zero_tau = np.zeros(n)
    zero_F = np.zeros(6)
    seen = {"band": False, "out": False}

    def acc(q, qd):
        a = np.abs(q)
        if np.any(a > PI):
            seen["out"] = True
        if np.any((a > BAND_LO) & (a < BAND_HI)):
            seen["band"] = True
        return vec_out(sut(m.ForwardDynamics, q, qd, zero_tau, g, zero_F, Ml, Gl, S), n, "ForwardDynamics")

    def energy(q, qd):
        K = 0.5 * float(qd @ mass_oracle(S, homes, Gl, q) @ qd)
        return K, potential(S, homes, Gl, g, q)

    q, qd = np.array(q0, dtype=float), np.array(qd0, dtype=float)
    K0, P0 = energy(q, qd)
    E0 = K0 + P0
    Pabs = norm1(g) * sum(mass_com(Gl[i])[0] * norm1(p) for i, p in enumerate(com_positions(S, homes, Gl, q)))
    scale = max(1.0, K0 + Pabs)
    drift = 0.0
    every = max(1, steps // 10)
    for k in range(steps):
        k1q, k1v = qd, acc(q, qd)
        k2q, k2v = qd + 0.5 * dt * k1v, acc(q + 0.5 * dt * k1q, qd + 0.5 * dt * k1v)
        k3q, k3v = qd + 0.5 * dt * k2v, acc(q + 0.5 * dt * k2q, qd + 0.5 * dt * k2v)
        k4q, k4v = qd + dt * k3v, acc(q + dt * k3q, qd + dt * k3v)
        q = q + dt / 6 * (k1q + 2 * k2q + 2 * k3q + k4q)
        qd = qd + dt / 6 * (k1v + 2 * k2v + 2 * k3v + k4v)
        if (k + 1) % every == 0 or k == steps - 1:
            K, P = energy(q, qd)
            if not math.isfinite(K + P):
                raise Violation("energy non-finite after %d steps" % (k + 1))
            drift = max(drift, abs(K + P - E0))
            scale = max(scale, K)
    return drift, scale, seen["out"], seen["band"]


def c_energy(case, ctx):
    S, Ml, Gl, n = unpack(case)
    q, qd, g = case["q"], case["qd"], case["g"]
    common_labels(ctx, S, Gl, q)
    ctx.nontrivial(n >= 2 and generic_axis(S) and np.linalg.norm(qd) >= 0.1)
    homes = link_homes(Ml)
    T = 0.2
    d1, sc, out, band = _rk4_energy(S, Ml, Gl, homes, g, q, qd, 200, T / 200)
    if out:
        ctx.skip("trajectory leaves [-pi, pi]^n within 0.2 s")
    tol = (LOOSE if band else FDTOL) * sc
    if in_band(q):
        # the start itself lies in the band: the library integrates a mechanism that differs by the dropped rotations
        r = Reach(S, homes, Gl, q)
        tol = band_tol(q, FDTOL, sc, max(sc, r.Mb * max(norm1(qd), 1.0) ** 2 + r.lever * r.mass * norm1(g)))
    ctx.label("drift/scale " + decade(d1 / sc))
    ctx.note("drift", d1)
    ctx.note("scale", sc)
    if d1 <= tol:
        return
    # not accepted at 200 x 1e-3: an integration error shrinks 16x per halving, a non-conservative field does not
    d2, _, _, _ = _rk4_energy(S, Ml, Gl, homes, g, q, qd, 400, T / 400)
    if d2 <= tol:
        ctx.label("accepted after step halving")
        return
    d3, _, _, _ = _rk4_energy(S, Ml, Gl, homes, g, q, qd, 800, T / 800)
    if d3 <= tol:
        ctx.label("accepted after step halving")
        return
    if d2 < d1 / 6 and d3 < d2 / 6:
        raise Inconclusive("RK4-limited: drift %.3g, %.3g, %.3g at dt, dt/2, dt/4 (tol %.3g)" % (d1, d2, d3, tol))
    raise Violation("energy of the torque-free chain drifts: |dE| = %.6g (dt=1e-3), %.6g (5e-4), %.6g (2.5e-4); "
                    "tol %.3g (scale %.6g)" % (d1, d2, d3, tol, sc))


# ------------------------------------------------------------------------------------------------
# arm level
# ------------------------------------------------------------------------------------------------

G_DEFAULT = np.array([0.0, 0.0, -9.81])


class ArmRig:
    """Fresh arm + the MR lists that correspond to what the harness handed to its setters."""

    def __init__(self, case):
        L = lib()
        tm = L["tm"]
        spec = case["arm"]
        self.arm, self.model = sut(A.build_arm, spec)
        arm, model = self.arm, self.model
        n = self.n = model.n
        B = model.B
        self.S = O.Ad(B) @ model.S                      # world-frame screws, independent of the arm object
        tool = B @ model.M0
        if case.get("L") is None:                        # the suite's frames (identity base only)
            if spec["kind"] != "sixr":
                raise HarnessError("link frames missing")
            Lg = [np.array(T, dtype=float) for T in model.extras["Tspace"]]
            custom_frames = False
        else:
            Lb = np.asarray(case["L"], dtype=float)
            if Lb.shape != (n, 4, 4):
                raise HarnessError("L shape %s for n=%d" % (Lb.shape, n))
            Lg = [B @ Lb[i] for i in range(n)]
            custom_frames = True
        self.Mlist = np.array([Lg[0]] + [O.inv(Lg[i - 1]) @ Lg[i] for i in range(1, n)] + [O.inv(Lg[n - 1]) @ tool])
        self.homes = Lg + [tool]
        if case.get("G") is None:
            if spec["kind"] != "sixr":
                raise HarnessError("inertias missing")
            self.Glist = np.array(arm._box_spatial_links, dtype=float).copy()   # the suite's box inertias as installed
            bd = model.extras["box_dims"]
            for i in range(6):                                                   # ... checked against the box formula
                mi = model.extras["masses"][i]
                w, l, h = bd[0, i], bd[1, i], bd[2, i]
                ref = np.diag([mi * (l * l + h * h) / 12, mi * (w * w + h * h) / 12, mi * (w * w + l * l) / 12, mi, mi, mi])
                if amax(self.Glist[i] - ref) > 1e-12 * max(1.0, amax(ref)):
                    raise HarnessError("fixture: suite box inertia %d is not the box formula" % i)
        else:
            self.Glist = np.ascontiguousarray(case["G"], dtype=float)
            if self.Glist.shape != (n, 6, 6):
                raise HarnessError("G shape %s" % (self.Glist.shape,))
        if custom_frames and case.get("L0") is not None and case.get("G0") is not None:
            # history: the arm was first configured with OTHER link frames / inertias, asked about its dynamics once,
            # and is only then given the configuration of the case through the same public setters.  Everything below
            # refers to the final configuration; nothing of the first may survive (caches, tables).
            L0 = [B @ T for T in np.asarray(case["L0"], dtype=float)]
            M0l = [L0[0]] + [O.inv(L0[i - 1]) @ L0[i] for i in range(1, n)] + [O.inv(L0[n - 1]) @ tool]
            G0 = np.ascontiguousarray(case["G0"], dtype=float)
            sut(arm.setOrigins, link_homes_global=[tm(T.copy()) for T in L0])
            sut(arm.setMassProperties, np.array([G0[i][3, 3] for i in range(n)]), [tm(T.copy()) for T in M0l], G0.copy())
            z = np.zeros(n)
            sut(arm.inverseDynamics, np.full(n, 0.1), z.copy(), z.copy())
            sut(arm.massMatrix, np.full(n, 0.1))
            self.reconfigured = True
        else:
            self.reconfigured = False
        if custom_frames:
            sut(arm.setOrigins, link_homes_global=[tm(T.copy()) for T in Lg])
        if custom_frames or case.get("G") is not None:
            masses = np.array([self.Glist[i][3, 3] for i in range(n)])
            sut(arm.setMassProperties, masses, [tm(T.copy()) for T in self.Mlist], self.Glist.copy())
        self.Wrench = L["Wrench"]

    # how the tip wrench / gravity are handed to the arm methods ----------------------------------
    def wrench_args(self, case, column=False):
        F = np.asarray(case["F"], dtype=float)
        wf = case["wform"]
        if wf == "omitted":
            return ()
        if wf == "wrench":
            # ONE Wrench object per case, handed to every call (a user builds the tip wrench once and passes it to
            # inverse and forward dynamics alike): each call is about the wrench it describes
            if getattr(self, "_W", None) is None:
                self._W = self.Wrench(F.copy())
            return (self._W,)
        return (F.reshape(6, 1).copy(),) if column else (F.copy(),)

    def call(self, fn, case, q, a, b, column=False):
        """fn(theta, a, b[, grav[, wrench]]) the way a user would write it."""
        w = self.wrench_args(case, column)
        if case["gdefault"]:
            if w:
                return sut(fn, q.copy(), a.copy(), b.copy(), None, *w)
            return sut(fn, q.copy(), a.copy(), b.copy())
        return sut(fn, q.copy(), a.copy(), b.copy(), np.array(case["g"], dtype=float), *w)


def arm_state(case):
    q, qd, qdd = (np.asarray(case[k], dtype=float) for k in ("q", "qd", "qdd"))
    g = G_DEFAULT.copy() if case["gdefault"] else np.asarray(case["g"], dtype=float)
    F = np.zeros(6) if case["wform"] == "omitted" else np.asarray(case["F"], dtype=float)
    return q, qd, qdd, g, F


def arm_labels(ctx, case, rig):
    spec = case["arm"]
    ctx.label("arm " + spec["kind"] + ("" if case.get("G") is None else " +G") + ("" if case.get("L") is None else " +L"))
    ctx.label("n=%d" % rig.n)
    ctx.label("wrench " + case["wform"])
    if case["gdefault"]:
        ctx.label("gravity defaulted")
    if np.any(np.asarray(spec.get("base", np.zeros(6))) != 0):
        ctx.label("base moved")
    if getattr(rig, "reconfigured", False):
        ctx.label("re-configured through the setters after a first dynamics query")
    if in_band(case["q"]):
        ctx.label("q in NearZero band")


def arm_nontrivial(case, rig):
    return rig.n >= 2 and generic_axis(rig.S) and np.linalg.norm(case["qd"]) >= 0.1


def c_arm_id_agree(case, ctx):
    rig = ArmRig(case)
    arm, n = rig.arm, rig.n
    arm_labels(ctx, case, rig)
    ctx.nontrivial(arm_nontrivial(case, rig))
    q, qd, qdd, g, F = arm_state(case)
    t = Terms(rig.S, rig.Mlist, rig.Glist, rig.homes, q, qd, g, F)
    ref = vec_out(sut(mr().InverseDynamics, q, qd, qdd, g, F, rig.Mlist, rig.Glist, rig.S), n, "fmr.InverseDynamics")
    tol = t.tol_tau(qdd, ref)
    out = rig.call(arm.inverseDynamics, case, q, qd, qdd)
    if not isinstance(out, tuple) or len(out) != 5:
        raise Violation("Arm.inverseDynamics: expected (tau, A, V, Vdot, F)")
    close(vec_out(out[0], n, "Arm.inverseDynamics"), ref, tol, "Arm.inverseDynamics vs fmr.InverseDynamics")
    if n == 6:
        ctx.label("inverseDynamicsC exercised")
        outc = rig.call(arm.inverseDynamicsC, case, q, qd, qdd, column=True)
        if not isinstance(outc, tuple) or len(outc) != 3:
            raise Violation("Arm.inverseDynamicsC: expected (tau, M, G)")
        close(vec_out(outc[0], n, "Arm.inverseDynamicsC"), ref, tol, "Arm.inverseDynamicsC vs fmr.InverseDynamics")
        Mc = np.asarray(outc[1], dtype=float)
        close(Mc, t.M, t.tol_M(), "mass matrix returned by inverseDynamicsC vs fmr.MassMatrix")


def c_arm_id_emr(case, ctx):
    rig = ArmRig(case)
    arm, n = rig.arm, rig.n
    arm_labels(ctx, case, rig)
    ctx.nontrivial(arm_nontrivial(case, rig))
    q, qd, qdd, g, F = arm_state(case)
    t = Terms(rig.S, rig.Mlist, rig.Glist, rig.homes, q, qd, g, F)
    ref = vec_out(sut(mr().InverseDynamics, q, qd, qdd, g, F, rig.Mlist, rig.Glist, rig.S), n, "fmr.InverseDynamics")
    tol = t.tol_tau(qdd, ref)
    tau = rig.call(arm.inverseDynamicsEMR, case, q, qd, qdd)
    close(vec_out(tau, n, "Arm.inverseDynamicsEMR"), ref, tol, "Arm.inverseDynamicsEMR vs fmr.InverseDynamics")
    out = rig.call(arm.inverseDynamics, case, q, qd, qdd)
    close(vec_out(tau, n, "Arm.inverseDynamicsEMR"), vec_out(out[0], n, "Arm.inverseDynamics"), tol,
          "Arm.inverseDynamicsEMR vs Arm.inverseDynamics")


def c_arm_mass(case, ctx):
    rig = ArmRig(case)
    arm, n = rig.arm, rig.n
    arm_labels(ctx, case, rig)
    q = np.asarray(case["q"], dtype=float)
    ctx.nontrivial(n >= 2 and generic_axis(rig.S) and np.any(q != 0))
    M = np.asarray(sut(arm.massMatrix, q.copy()), dtype=float)
    Mmr = np.asarray(sut(mr().MassMatrix, q, rig.Mlist, rig.Glist, rig.S), dtype=float)
    Mor = mass_oracle(rig.S, rig.homes, rig.Glist, q)
    sc = amax(Mor)
    tol = band_tol(q, TIGHT, sc, Reach(rig.S, rig.homes, rig.Glist, q).Mb)
    close(M, Mmr, tol, "Arm.massMatrix vs fmr.MassMatrix")
    close(M, Mor, tol, "Arm.massMatrix vs sum_i J_i^T G_i J_i")
    close(M, M.T, TIGHT * sc, "Arm.massMatrix symmetric")
    lam = np.linalg.eigvalsh((M + M.T) / 2)
    if not lam[0] > 0:
        raise Violation("Arm.massMatrix not positive definite: lambda_min %.6g" % lam[0])
    if case.get("nudge") is not None:
        # the next evaluation on the same arm, at a configuration a few parts in 1e7 .. 1e5 away (the other side of a
        # finite-difference stencil, a very small integrator step): it is the mass matrix of THAT configuration
        r_ = float(case["nudge"])
        q2 = np.where(q != 0, q * (1.0 - r_), r_)          # towards zero: stays inside the joint limits
        M2 = np.asarray(sut(arm.massMatrix, q2.copy()), dtype=float)
        Mor2 = mass_oracle(rig.S, rig.homes, rig.Glist, q2)
        tol2 = band_tol(q2, TIGHT, amax(Mor2), Reach(rig.S, rig.homes, rig.Glist, q2).Mb)
        ctx.label("evaluated again at a configuration parts in 1e7..1e5 away")
        close(M2, Mor2, tol2, "Arm.massMatrix at a configuration next to the one just evaluated vs sum_i J_i^T G_i J_i")


def _arm_fd(case, ctx, which):
    rig = ArmRig(case)
    arm, n = rig.arm, rig.n
    arm_labels(ctx, case, rig)
    ctx.nontrivial(arm_nontrivial(case, rig))
    q, qd, qdd, g, F = arm_state(case)
    tau_in = np.asarray(case["tau"], dtype=float)
    t = Terms(rig.S, rig.Mlist, rig.Glist, rig.homes, q, qd, g, F)

    def fd(tau):
        if which == "E":
            out = rig.call(arm.forwardDynamicsE, case, q, qd, tau)
            if not isinstance(out, tuple) or len(out) != 4:
                raise Violation("forwardDynamicsE: expected (qdd, M, h, ee)")
            a = vec_out(out[0], n, "Arm.forwardDynamicsE")
            # the terms it hands back are the decomposition of the torque it was given: tau = M qdd + h + ee with
            # h = c(q, qd) + g(q) and ee = J^T F_tip
            Mo = np.asarray(out[1], dtype=float)
            ho = vec_out(out[2], n, "forwardDynamicsE h")
            eo = vec_out(out[3], n, "forwardDynamicsE ee")
            if Mo.shape != (n, n):
                raise Violation("forwardDynamicsE: M has shape %s" % (Mo.shape,))
            tt = t.tol_tau(a, tau)
            close(ho, t.c + t.g, tt, "forwardDynamicsE: returned h vs c(q, qd) + g(q)")
            close(eo, t.e, tt, "forwardDynamicsE: returned ee vs J^T F_tip")
            close(Mo @ a + ho + eo, np.asarray(tau, dtype=float).reshape(n), tt,
                  "forwardDynamicsE: M qdd + h + ee (as returned) vs the torque given")
            return a
        return vec_out(rig.call(arm.forwardDynamics, case, q, qd, tau), n, "Arm.forwardDynamics")

    def idyn(a):
        return vec_out(rig.call(arm.inverseDynamics, case, q, qd, a)[0], n, "Arm.inverseDynamics")

    name = "forwardDynamicsE" if which == "E" else "forwardDynamics"
    tau_id = idyn(qdd)
    close(fd(tau_id), qdd, t.tol_acc(qdd, tau_id), "Arm.%s(Arm.inverseDynamics(qdd)) vs qdd" % name)
    qdd_fd = fd(tau_in)
    close(idyn(qdd_fd), tau_in, t.tol_tau(qdd_fd, tau_in), "Arm.inverseDynamics(Arm.%s(tau)) vs tau" % name)
    # and against the MR forward dynamics on the corresponding lists
    ref = vec_out(sut(mr().ForwardDynamics, q, qd, tau_in, g, F, rig.Mlist, rig.Glist, rig.S), n, "fmr.ForwardDynamics")
    close(qdd_fd, ref, t.tol_acc(ref, tau_in), "Arm.%s vs fmr.ForwardDynamics" % name)


def c_arm_fd(case, ctx):
    _arm_fd(case, ctx, "MR")


def c_arm_fde(case, ctx):
    _arm_fd(case, ctx, "E")


# ------------------------------------------------------------------------------------------------
# strategies
# ------------------------------------------------------------------------------------------------

def joint_values(lim=PI, tiny=True):
    generic = st.one_of(G.floats(-lim, lim), G.floats(-lim, lim), G.floats(-lim, lim), G.floats(-lim, lim),
                        st.sampled_from([0.0, lim, -lim, min(lim, PI / 2), -min(lim, PI / 2), 1.0, -1.0]))
    if not tiny:
        return generic
    small = st.one_of(G.signed_log_uniform(1e-12, 1e-4),
                      st.sampled_from([1e-6, -1e-6, math.nextafter(1e-6, 0), math.nextafter(1e-6, 1), 5e-7, 2e-6]))
    return st.integers(0, 39).flatmap(lambda k: small if k == 39 else generic)


@st.composite
def vecs(draw, n, maxmag, minmag=0.0):
    """n-vector with Euclidean norm in [minmag, maxmag]: zero, one-hot, log-uniform or uniform magnitude."""
    kind = draw(st.sampled_from(["zero", "onehot", "log", "log", "uniform", "uniform", "max"]))
    if kind == "zero" and minmag == 0.0:
        return np.zeros(n)
    if kind == "onehot":
        v = np.zeros(n)
        v[draw(st.integers(0, n - 1))] = 1.0 if draw(st.booleans()) else -1.0
    else:
        v = np.array([draw(G.floats(-1.0, 1.0)) for _ in range(n)])
        nv = float(np.linalg.norm(v))
        if nv < 1e-6:
            v = np.zeros(n)
            v[0] = 1.0
        else:
            v = v / nv
    if kind == "max":
        mag = maxmag
    elif kind == "uniform":
        mag = draw(G.floats(minmag, maxmag))
    else:
        mag = draw(G.log_uniform(max(minmag, 1e-3), maxmag))
    v = v * mag
    nv = float(np.linalg.norm(v))
    if nv > maxmag:                       # rounding of the normalisation
        v = v * (maxmag / nv) * (1 - 1e-15)
    return v


_LIGHT = G.log_uniform(1e-6, 1e-2)


def _inertias(draw, n, light=True):
    """n positive-definite spatial inertias; in a quarter of the chains the LAST link is a light tool (its inertia
    scaled by 1e-6..1e-2: a 0.1 kg gripper behind 30 kg links), which makes the mass matrix ill-conditioned (up to
    ~1e9) while every link inertia stays positive definite."""
    Gl = np.stack([draw(G.spd_spatial_inertia()) for _ in range(n)])
    if light and n >= 2 and draw(st.integers(0, 3)) == 0:
        Gl[-1] = Gl[-1] * draw(_LIGHT)
    return np.ascontiguousarray(Gl)


@st.composite
def mechanisms(draw, nmin=1, nmax=7, light=True):
    S = draw(G.chains(nmin, nmax, allow_prismatic=False))
    n = S.shape[1]
    Ml = np.stack([draw(G.se3s(maxnorm=1.0)) for _ in range(n + 1)])
    Gl = _inertias(draw, n, light)
    return {"S": S, "M": np.ascontiguousarray(Ml), "G": np.ascontiguousarray(Gl)}


@st.composite
def mr_cases(draw, keys=("q", "qd", "qdd", "tau", "g", "F"), nmax=7):
    c = draw(mechanisms(1, nmax))
    n = c["S"].shape[1]
    c["q"] = np.array([draw(joint_values()) for _ in range(n)])
    if "qd" in keys:
        c["qd"] = draw(vecs(n, 100.0))
    if "qdd" in keys:
        c["qdd"] = draw(vecs(n, 100.0))
    if "tau" in keys:
        c["tau"] = draw(vecs(n, 100.0))
    if "g" in keys:
        c["g"] = draw(st.one_of(st.just(np.array([0.0, 0.0, -9.81])), vecs(3, 100.0), vecs(3, 100.0)))
    if "F" in keys:
        c["F"] = draw(vecs(6, 100.0))
    return c


@st.composite
def trajectory_cases(draw):
    c = draw(mechanisms(1, 7))
    n = c["S"].shape[1]
    N = draw(st.integers(1, 9))
    c["Q"] = np.stack([np.array([draw(joint_values()) for _ in range(n)]) for _ in range(N)])
    c["QD"] = np.stack([draw(vecs(n, 10.0)) for _ in range(N)])
    c["QDD"] = np.stack([draw(vecs(n, 10.0)) for _ in range(N)])
    c["FT"] = np.stack([draw(vecs(6, 100.0)) for _ in range(N)])
    # dwell: some samples repeat the previous sample's motion exactly (the arm stands still, or moves uniformly) while
    # the tip wrench goes on changing
    for k in range(1, N):
        if draw(st.integers(0, 3)) == 0:
            c["Q"][k], c["QD"][k], c["QDD"][k] = c["Q"][k - 1], c["QD"][k - 1], c["QDD"][k - 1]
    c["g"] = draw(st.one_of(st.just(np.array([0.0, 0.0, -9.81])), vecs(3, 100.0)))
    return c


@st.composite
def energy_cases(draw):
    # smaller chains are drawn more often: a case costs 800 ForwardDynamics evaluations of n+3 recursions each
    n = draw(st.sampled_from([1, 2, 2, 3, 3, 3, 4, 4, 5, 6, 7]))
    c = draw(mechanisms(n, n, light=False))
    n = c["S"].shape[1]
    c["q"] = np.array([draw(joint_values(2.5, tiny=False)) for _ in range(n)])
    c["qd"] = draw(vecs(n, 2.0))
    c["g"] = draw(st.one_of(st.just(np.array([0.0, 0.0, -9.81])), vecs(3, 20.0), st.just(np.zeros(3))))
    return c


def _snap_tool(spec):
    """Tool rotation angles below 1e-3 are set to 0: the arm converts the tool's axis-angle vector itself and drops
    rotations below its 1e-6 cut-off, which is not this property's subject."""
    ee = np.array(spec["ee_home"], dtype=float)
    if amax(ee[3:]) > 0 and np.linalg.norm(ee[3:]) < 1e-3:
        ee[3:] = 0.0
    spec["ee_home"] = ee
    return spec


@st.composite
def link_frames(draw, n):
    out = []
    for _ in range(n):
        kind = draw(st.sampled_from(["generic", "generic", "trans", "identity"]))
        if kind == "identity":
            out.append(np.eye(4))
            continue
        p = np.array([draw(G.floats(-2.0, 2.0)) for _ in range(3)])
        R = np.eye(3) if kind == "trans" else O.exp3(draw(G.rotvecs_below(PI - 1e-3)))
        out.append(O.rp(R, p))
    return np.ascontiguousarray(np.stack(out))


@st.composite
def arm_cases(draw, need_tau=False):
    kind = draw(st.sampled_from(["sixr", "sixr_G", "random", "random", "random6"]))
    c = {}
    if kind in ("sixr", "sixr_G"):
        n = 6
        c["arm"] = {"kind": "sixr", "base": np.zeros(6), "limits": None}
        c["L"] = None
        c["G"] = _inertias(draw, n) if kind == "sixr_G" else None
    else:
        spec = _snap_tool(draw(A.random_chain_specs(6, 6) if kind == "random6" else A.random_chain_specs(1, 7)))
        spec["base"] = draw(A.poses6(maxnorm=3.0, identity_weight=50, tiny=False))
        spec["limits"] = None
        n = A.spec_n(spec)
        c["arm"] = spec
        c["L"] = draw(link_frames(n))
        c["G"] = _inertias(draw, n)
        if draw(st.integers(0, 2)) == 0:
            c["L0"] = draw(link_frames(n))
            c["G0"] = np.ascontiguousarray(np.stack([draw(G.spd_spatial_inertia()) for _ in range(n)]))
    c["q"] = np.array([draw(joint_values()) for _ in range(n)])
    c["qd"] = draw(vecs(n, 100.0))
    c["qdd"] = draw(vecs(n, 100.0))
    if need_tau:
        c["tau"] = draw(vecs(n, 100.0))
    c["nudge"] = draw(st.one_of(st.none(), G.log_uniform(1e-7, 1e-5)))
    c["gdefault"] = draw(st.integers(0, 4)) == 0
    c["g"] = draw(st.one_of(st.just(np.array([0.0, 0.0, -9.81])), vecs(3, 100.0)))
    c["wform"] = draw(st.sampled_from(["wrench", "wrench", "flat", "flat", "omitted"]))
    c["F"] = draw(vecs(6, 100.0, minmag=1e-3))
    return c


CLAUSES = [
    Clause("mass_matrix_spd_composite", c_mass, mr_cases(keys=()), 300, 16 * 1000),
    Clause("fd_inverts_id", c_fd_id, mr_cases(), 250, 16 * 1000),
    Clause("id_trajectory_is_id_per_sample", c_id_trajectory, trajectory_cases(), 200, 16 * 600),
    Clause("torque_decomposition", c_decomposition, mr_cases(keys=("qd", "qdd", "g", "F")), 250, 16 * 1000),
    Clause("coriolis_passivity", c_passivity, mr_cases(keys=("qd",)), 160, 16 * 500),
    Clause("velocity_term_is_christoffel", c_christoffel, mr_cases(keys=("qd",)), 120, 16 * 400),
    Clause("gravity_is_potential_gradient", c_gravity, mr_cases(keys=("g",)), 250, 16 * 1000),
    Clause("energy_conserved", c_energy, energy_cases(), 24, 16 * 50, shrink_quick=False),
    Clause("arm_id_implementations_agree", c_arm_id_agree, arm_cases(), 160, 16 * 600),
    Clause("arm_id_emr_agrees", c_arm_id_emr, arm_cases(), 120, 16 * 500),
    Clause("arm_mass_matrix", c_arm_mass, arm_cases(), 160, 16 * 600),
    Clause("arm_forwardDynamics_inverts", c_arm_fd, arm_cases(need_tau=True), 120, 16 * 500),
    Clause("arm_forwardDynamicsE_inverts", c_arm_fde, arm_cases(need_tau=True), 120, 16 * 500),
]
