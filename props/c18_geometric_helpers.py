"""C18 -- geometric helper functions satisfy their defining relations (fsr.*, tm.angleMod, mr.AngleMod).

One clause per relation of the property statement.  Every expectation is computed by the harness from
the *inputs* (plain float arrays) with vf.oracle (long-double Rodrigues, scipy logs) -- never with the
library.  Conventions worked out from code + docstrings:

* a pose is the library's TAA six-vector [x y z rx ry rz]; T(taa) = [Exp(r) | p];
* mirror(origin, pt): reflection of pt's position across the local XY plane of `origin`; returns a tm whose
  rotation is zero, so only the position is part of the relation;
* arcDistance(a, b) = || [Ra^T (pb - pa) ; Log(Ra^T Rb)] ||  (code: Norm6(globalToLocal(a, b)));
* closeLinearGap works in TAA coordinates: result = a + delta * unit(b - a) (six-vector arithmetic);
* closeArcGap composes a *local* step onto the origin: result = a . T(step), |step|_6 = delta;
* twistToGoal(a, b) = vee(Log(Tb Ta^-1)): a space-frame twist, Exp([V]) Ta = Tb (left multiplication);
* chainJacobian(S, theta) is the space Jacobian of the screw list S;
* numericalJacobian(f, x, h) is the central-difference Jacobian, shape (len f, len x).
"""
import math

import numpy as np
from hypothesis import strategies as st

from vf import gen as G
from vf import oracle as O
from vf.core import Clause, Violation, sut

PROPERTY_ID = "C18"
RULE = ("Hypothesis-generated poses (|p|<=10, angle<=pi-1e-3, boundary mass at angle 0 / the 1e-6 cut-off / the "
        "maximum, axis-aligned, planar and generic axes, zero / axis / generic positions), pose pairs (independent, "
        "equal, equal rotation, equal position, near-equal), non-collinear triples (interior angle >= 1e-3), steps "
        "in (0,1], step counts 2..200, angles in [-50,50] with mass at multiples of pi; the sphere samplers are "
        "ENUMERATED over point counts 1..2000 (thorough: all; quick: all fiboSphere, a stratified subset of "
        "unitSphere). Non-trivial: mirror plane >=0.1 from the origin and tilted >=0.1 rad with the point off the "
        "plane; both poses rotated >=0.1 rad about axes >=0.1 rad apart (and distinct positions where positions "
        "enter); chains with >=2 joints and a rotation actually applied; angle sets containing |x|>2pi; "
        "distinct by digest of the inputs.")
ASSUMPTIONS = [
    "oracle: vf.oracle (long-double Rodrigues, scipy Rotation logs) applied to the input six-vectors; the library's "
    "tm objects are only read (TAA, TM), never used to compute an expectation",
    "tolerance 1e-8*max(1,scale); if a rotation angle entering a library exp/log of the relation lies in (1e-9,2e-6) "
    "the comparison is made at 5e-6*max(1,scale) (DESIGN 1.3, the library's documented NearZero cut-off)",
    "relations whose library evaluation takes the Log of a rotation within 1e-3 rad of a half turn (relative rotation "
    "of two poses, geodesic midpoint, lookAt frame) are skipped and counted: that band is the quantifier's own "
    "bound (angle <= pi-1e-3) applied to every rotation that is logged, and below 2e-5 it is C01-near-pi-log",
    "lookAt: targets whose direction from the position is within 1e-6 rad of the world-Z line are outside the "
    "domain (rotationFromVector's docstring: lookAt is not for 'colinear global Z cases'; the code handles exactly "
    "vertical targets by nudging them, anything not colinear is computed directly and is accurate to ~1e-16/angle)",
    "numericalJacobian is compared with the analytic Jacobian at 1e-8*scale plus the Lagrange remainder "
    "h^2/6*sup|f'''| of the central difference, computed rigorously for each test function (zero for the "
    "log-coordinate and quadratic families)",
    "unitSphere's docstring only promises an 'approximate' count: r^2 <= rows <= (r+1)^2 with r=round(sqrt(n)) is "
    "demanded; fiboSphere must return exactly n rows",
    "gap-closing with a gap 0<|b-a|<1e-150 is skipped: the direction is lost to float64 underflow of the squares; "
    "closeArcGap with an arc gap 0<gap<2e-6 is skipped: below the library's NearZero resolution the direction of a "
    "relative pose cannot be resolved by an implementation that goes through Log",
]
SHARDS = {"quick": 4, "thorough": 16}

PI = math.pi
TWO_PI = 2 * math.pi
MAXANG = PI - 1e-3
BAND_LO, BAND_HI = 1e-9, 2e-6
TIGHT = 1e-8
LOOSE = 5e-6

_lib = {}


def L():
    if not _lib:
        from basic_robotics.general import fsr, tm
        from basic_robotics.general import faser_transform
        from basic_robotics.modern_robotics_numba import modern_high_performance as m
        _lib.update(fsr=fsr, tm=tm, mr=m, tmmod=faser_transform)
    return _lib


def warm():
    lib = L()
    fsr, tm, m = lib["fsr"], lib["tm"], lib["mr"]
    a = tm(np.array([1.0, 2, 3, 0.1, 0.2, 0.3]))
    b = tm(np.array([0.5, -1, 2, -0.3, 0.1, 0.2]))
    fsr.mirror(a, b)
    fsr.tmInterpMidpoint(a, b)
    fsr.lookAt(a, b)
    fsr.arcDistance(a, b)
    fsr.closeLinearGap(a, b, 0.1)
    fsr.closeArcGap(a, b, 0.1)
    fsr.IKPath(a, b, 3)
    fsr.twistToGoal(a, b)
    S = np.array([[0, 0, 1, 0, 0, 0], [0, 1, 0, 0, 0, 1.0]]).T.copy()
    fsr.chainJacobian(S, np.array([0.3, 0.2]))
    m.AngleMod(np.array([7.0, 1.0]))
    fsr.angleMod(tm([0, 0, 0, 7.0, 0, 0]))


# ------------------------------------------------------------------------------------------ helpers

def in_band(*angles):
    return any(BAND_LO < abs(a) < BAND_HI for a in angles)


def tol(scale, *angles):
    return (LOOSE if in_band(*angles) else TIGHT) * max(1.0, float(scale))


def close(a, b, t, what):
    a = np.asarray(a, dtype=float)
    b = np.asarray(b, dtype=float)
    if a.shape != b.shape:
        raise Violation("%s: shape %s vs %s" % (what, a.shape, b.shape))
    if not np.all(np.isfinite(a)):
        raise Violation("%s: non-finite result %s" % (what, a.ravel()[:6]))
    d = float(np.abs(a - b).max()) if a.size else 0.0
    if d > t:
        raise Violation("%s: max |diff| %.3g > tol %.3g (got %s, expected %s)"
                        % (what, d, t, np.array2string(a.ravel()[:6], precision=9),
                           np.array2string(b.ravel()[:6], precision=9)))


def mk(taa):
    """Construct a library tm from a six-vector (the library's documented len-6 array form)."""
    return sut(L()["tm"], np.array(taa, dtype=float).reshape(6))


def mk_from_matrix(T):
    return sut(L()["tm"], np.array(T, dtype=float))


def is_tm(x):
    return hasattr(x, "TM") and hasattr(x, "TAA")


def taa_of(x, what):
    if not is_tm(x):
        raise Violation("%s: result is not a tm but %s" % (what, type(x).__name__))
    a = np.asarray(x.TAA, dtype=float)
    if a.size != 6:
        raise Violation("%s: TAA has shape %s" % (what, a.shape))
    a = a.reshape(6)
    if not np.all(np.isfinite(a)):
        raise Violation("%s: non-finite TAA %s" % (what, a))
    return a.copy()


def TM_of(x, what):
    if not is_tm(x):
        raise Violation("%s: result is not a tm but %s" % (what, type(x).__name__))
    T = np.asarray(x.TM, dtype=float)
    if T.shape != (4, 4):
        raise Violation("%s: TM has shape %s" % (what, T.shape))
    if not np.all(np.isfinite(T)):
        raise Violation("%s: non-finite TM" % what)
    return T.copy()


def check_pose_coherent(x, what, extra_angles=()):
    """TM of a returned tm is the pose of its own six-vector (oracle exp; band rule on its angle)."""
    a = taa_of(x, what)
    T = TM_of(x, what)
    th = float(np.linalg.norm(a[3:]))
    t = tol(1.0, th, *extra_angles)
    close(T[:3, :3], O.exp3(a[3:]), t, "%s: TM rotation vs Exp(TAA rotation)" % what)
    close(T[:3, 3], a[:3], 1e-12 * max(1.0, float(np.abs(a[:3]).max())), "%s: TM position vs TAA position" % what)
    if not np.array_equal(T[3], [0.0, 0.0, 0.0, 1.0]):
        raise Violation("%s: TM last row %s" % (what, T[3]))


def ang(w):
    return float(np.linalg.norm(np.asarray(w, dtype=float)))


def axis_sep(w1, w2):
    """Angle between the rotation axes (as lines), 0 if either is (nearly) unrotated."""
    n1, n2 = ang(w1), ang(w2)
    if n1 < 1e-12 or n2 < 1e-12:
        return 0.0
    c = abs(float(np.dot(w1, w2)) / (n1 * n2))
    return math.acos(min(1.0, c))


def ang_label(th):
    if th == 0:
        return "ang=0"
    if th <= BAND_LO:
        return "ang<=1e-9"
    if th < BAND_HI:
        return "ang in cut-off band"
    if th >= MAXANG - 1e-9:
        return "ang=max"
    return "ang generic"


def pair_nontrivial(a, b, need_pos=True):
    ok = ang(a[3:]) >= 0.1 and ang(b[3:]) >= 0.1 and axis_sep(a[3:], b[3:]) >= 0.1
    if need_pos:
        ok = ok and float(np.linalg.norm(a[:3] - b[:3])) >= 1e-3
    return ok


def rel_local(Ta, Tb):
    """[Ra^T (pb - pa) ; Log(Ra^T Rb)] and the relative angle."""
    Ra = Ta[:3, :3]
    dp = Ra.T @ (Tb[:3, 3] - Ta[:3, 3])
    w = O.log3(Ra.T @ Tb[:3, :3])
    return np.concatenate([dp, w]), float(np.linalg.norm(w))


def arc_oracle(Ta, Tb):
    v, th = rel_local(Ta, Tb)
    return float(np.linalg.norm(v)), th


NEAR_PI_SKIP = "a rotation that the library logs is within 1e-3 rad of a half turn (see C01-near-pi-log)"


# ------------------------------------------------------------------------------------------ strategies

@st.composite
def generic_poses(draw, maxnorm=10.0):
    """Position and rotation axis generic on the sphere, |p| in [0.1, maxnorm], angle in [0.1, pi-1e-3]."""
    p = draw(G.generic_unit_vectors()) * draw(G.floats(0.1, maxnorm))
    w = draw(G.generic_unit_vectors()) * draw(G.floats(0.1, MAXANG))
    return np.concatenate([p, w])


def poses(maxnorm=10.0):
    """Half boundary-heavy (vf.gen.taas: zero/axis positions, angle 0 / cut-off band / maximum, aligned axes),
    half generic."""
    return st.one_of(G.taas(maxnorm=maxnorm, maxang=MAXANG), generic_poses(maxnorm))


def _clip_pose(v, maxnorm=10.0):
    v = np.array(v, dtype=float)
    n = np.linalg.norm(v[:3])
    if n > maxnorm:
        v[:3] *= maxnorm / n * (1 - 1e-12)
    th = np.linalg.norm(v[3:])
    if th > MAXANG:
        v[3:] *= MAXANG / th * (1 - 1e-12)
    return v


@st.composite
def pose_pairs(draw):
    kind = draw(st.sampled_from(["generic"] * 6 + ["indep"] * 5 + ["same", "same_rot", "same_pos", "near", "near", "near_rot", "near_rot"]))
    a = draw(generic_poses() if kind == "generic" else poses())
    if kind == "generic":
        b = draw(generic_poses())
    elif kind == "indep":
        b = draw(poses())
    elif kind == "same":
        b = a.copy()
    elif kind == "same_rot":
        b = np.concatenate([draw(G.positions(10.0)), a[3:]])
    elif kind == "same_pos":
        b = np.concatenate([a[:3], draw(G.rotvecs_below(MAXANG))])
    elif kind == "near_rot":
        # another position, and an orientation that is the same up to a few parts in 1e8 .. 1e4 of each rotation
        # coordinate (the same attitude measured twice): nearly, not exactly, a pure translation apart
        rel = np.array([draw(G.signed_log_uniform(1e-8, 1e-4)) for _ in range(3)])
        b = _clip_pose(np.concatenate([draw(G.positions(10.0)), a[3:] * (1.0 + rel)]))
    else:
        mag = draw(G.log_uniform(1e-9, 1e-2))
        d = draw(G.vec6(1.0))
        b = _clip_pose(a + mag * d)
    return {"a": a, "b": b, "kind": kind}


def steps01():
    return st.one_of(
        G.floats(0.0, 1.0, exclude_min=True),
        G.log_uniform(1e-9, 1.0),
        st.sampled_from([1.0, 0.5, 0.1, 0.01, 1e-3, math.nextafter(1.0, 0)]),
    )


@st.composite
def gap_cases(draw):
    pp = draw(pose_pairs())
    pp["delta"] = draw(steps01())
    return pp


@st.composite
def path_cases(draw):
    pp = draw(pose_pairs())
    pp["steps"] = draw(st.one_of(st.integers(2, 200), st.sampled_from([2, 3, 4, 199, 200]), st.integers(2, 12)))
    return pp


@st.composite
def mirror_cases(draw):
    plane = draw(poses())
    kind = draw(st.sampled_from(["free"] * 6 + ["on_plane", "on_normal", "at_origin"]))
    if kind == "free":
        pt = draw(poses())
    else:
        T = O.pose_from_taa(plane)
        if kind == "on_plane":
            q = np.array([draw(G.floats(-3, 3)), draw(G.floats(-3, 3)), 0.0])
        elif kind == "on_normal":
            q = np.array([0.0, 0.0, draw(G.floats(-3, 3))])
        else:
            q = np.zeros(3)
        p = T[:3, 3] + T[:3, :3] @ q
        pt = _clip_pose(np.concatenate([p, draw(G.rotvecs_below(MAXANG))]))
    return {"plane": plane, "point": pt, "form": draw(st.sampled_from(["taa", "taa", "matrix"])), "kind": kind}


@st.composite
def lookat_cases(draw):
    a = draw(poses(9.99))
    eps = 1e-6       # only (numerically) colinear targets are outside the domain; "almost straight up" is inside
    polar = draw(st.one_of(
        G.floats(eps * 1.01, PI - eps * 1.01),
        st.sampled_from([eps * 1.001, eps * 1.5, eps * 10, 1e-4, 5e-4, 0.999e-3, 1.001e-3, 1e-2, 0.1, PI / 2, PI / 4, 1.0,
                         2.0, PI - 1e-2, PI - 1.001e-3, PI - 0.999e-3, PI - 1e-4, PI - eps * 10, PI - eps * 1.001]),
        G.log_uniform(eps * 1.001, 1.0),
        G.log_uniform(eps * 1.001, 1.0).map(lambda x: PI - x)))
    az = draw(st.one_of(G.floats(-PI, PI), st.sampled_from([0.0, PI / 2, PI, -PI / 2, PI / 4])))
    u = np.array([math.sin(polar) * math.cos(az), math.sin(polar) * math.sin(az), math.cos(polar)])
    p = a[:3]
    pu = float(p @ u)
    dmax = -pu + math.sqrt(max(0.0, pu * pu + 100.0 - float(p @ p)))
    dmin = 1e-3
    dmax = max(dmax, dmin)
    s = draw(st.one_of(G.floats(0.0, 1.0), G.floats(0.2, 1.0), G.floats(0.5, 1.0), st.sampled_from([0.0, 1.0])))
    d = dmin * (dmax / dmin) ** s
    b = np.concatenate([p + d * u, draw(G.rotvecs_below(MAXANG))])
    return {"a": a, "b": b}


@st.composite
def triples(draw):
    p1 = draw(G.positions(5.0))
    e1 = draw(G.unit_vectors())
    # any unit vector orthogonal to e1
    h = draw(G.unit_vectors())
    e2 = np.cross(e1, h)
    if np.linalg.norm(e2) < 1e-3:
        h = np.array([e1[1], e1[2], e1[0]]) + np.array([0.3, -0.2, 0.5])
        e2 = np.cross(e1, h)
    e2 = e2 / np.linalg.norm(e2)
    r1 = draw(st.one_of(G.log_uniform(1e-3, 5.0), G.floats(0.1, 5.0)))
    r2 = draw(st.one_of(G.log_uniform(1e-3, 5.0), G.floats(0.1, 5.0)))
    al = draw(st.one_of(G.floats(1e-3, PI - 1e-3), G.log_uniform(1e-3, 1.0),
                        G.log_uniform(1e-3, 1.0).map(lambda x: PI - x),
                        st.sampled_from([PI / 2, PI / 3, 1e-3, PI - 1e-3])))
    p2 = p1 + r1 * e1
    p3 = p1 + r2 * (math.cos(al) * e1 + math.sin(al) * e2)
    form = draw(st.sampled_from(["tm", "tm", "vec", "list"]))
    rots = [draw(G.rotvecs_below(MAXANG)) for _ in range(3)] if form == "tm" else []
    return {"p": [p1, p2, p3], "form": form, "rots": rots}


@st.composite
def distance_cases(draw):
    dim = draw(st.sampled_from([3, 3, 3, 2]))
    form = draw(st.sampled_from(["tm", "vec"])) if dim == 3 else "vec"
    kind = draw(st.sampled_from(["free"] * 5 + ["collinear", "dup", "near"]))

    def pt():
        return draw(G.positions(10.0))[:dim]
    a = pt()
    b = pt()
    if kind == "free":
        c = pt()
    elif kind == "collinear":
        c = a + draw(G.floats(-1.0, 2.0)) * (b - a)
        n = np.linalg.norm(c)
        if n > 10:
            c = c * (10 / n)
    elif kind == "dup":
        c = [a, b][draw(st.integers(0, 1))].copy()
    else:
        c = a + draw(G.log_uniform(1e-12, 1e-3)) * draw(G.vec(dim))
    return {"pts": [a, b, c], "form": form, "kind": kind}


def thetas(n):
    one = st.one_of(
        G.floats(-PI, PI),
        G.floats(-PI, PI),
        G.signed_log_uniform(1e-9, 1e-4),
        st.sampled_from([0.0, 1e-6, -1e-6, math.nextafter(1e-6, 0), math.nextafter(1e-6, 1), 2e-6, 5e-7,
                         PI, -PI, PI / 2, 1.0, -1.0, 2 * PI, -2 * PI]))
    return st.lists(one, min_size=n, max_size=n).map(lambda l: np.array(l, dtype=float))


_TH_FORM = st.sampled_from(["flat", "flat", "col", "list"])


@st.composite
def chain_cases(draw):
    if draw(st.integers(0, 3)) == 0:
        # a screw list typed by hand in whole numbers (axis-aligned axes through integer points), handed over as an
        # INTEGER array, as np.array([[0,0,1,0,0,0],[0,1,0,-2,0,0],...]).T gives: the Jacobian is still real-valued
        n = draw(st.integers(1, 7))
        cols = []
        for _ in range(n):
            w = np.array(draw(st.sampled_from([(1, 0, 0), (0, 1, 0), (0, 0, 1), (-1, 0, 0), (0, -1, 0), (0, 0, -1)])))
            q = np.array([draw(st.integers(-3, 3)) for _ in range(3)])
            cols.append(np.concatenate([w, np.cross(q, w)]))
        S = np.ascontiguousarray(np.stack(cols, axis=1).astype(np.int64))
        return {"S": S, "theta": draw(thetas(n)), "th_form": draw(_TH_FORM)}
    S = draw(G.chains(1, 7))
    th = draw(thetas(S.shape[1]))
    for i in range(S.shape[1]):
        # a sliding joint's coordinate is a length, not an angle: any size (half of the slides draw from +-10);
        # a few turning joints are wound past a full revolution as well
        if not np.any(S[:3, i]):
            if draw(st.booleans()):
                th[i] = draw(G.floats(-10.0, 10.0))
        elif draw(st.integers(0, 7)) == 0:
            th[i] = draw(G.floats(-4 * PI, 4 * PI))
    return {"S": S, "theta": th, "th_form": draw(_TH_FORM)}


@st.composite
def numjac_cases(draw):
    mode = draw(st.sampled_from(["logcoords", "flatT", "poly", "trig"]))
    h = draw(st.one_of(st.sampled_from([5e-4, 1e-3, 1e-4, 1e-2]), G.log_uniform(1e-4, 1e-2)))
    if mode in ("logcoords", "flatT"):
        S = draw(G.chains(1, 6))
        n = S.shape[1]
        th = np.array([draw(G.floats(-PI, PI)) for _ in range(n)])
        case = {"mode": mode, "h": h, "S": S, "x": th}
        if mode == "flatT":
            case["M"] = draw(poses(3.0))
        return case
    n = draw(st.integers(1, 5))
    m = draw(st.integers(1, 5))
    x = np.array([draw(G.floats(-2, 2)) for _ in range(n)])
    A = np.array([[draw(G.floats(-3, 3)) for _ in range(n)] for _ in range(m)])
    Q = np.array([[[draw(G.floats(-1, 1)) for _ in range(n)] for _ in range(n)] for _ in range(m)])
    c = np.array([draw(G.floats(-5, 5)) for _ in range(m)])
    case = {"mode": mode, "h": h, "x": x, "A": A, "Q": Q, "c": c}
    if mode == "trig":
        case["C"] = np.array([[draw(G.floats(-2, 2)) for _ in range(n)] for _ in range(m)])
        case["om"] = np.array([draw(G.floats(0.1, 3.0)) for _ in range(n)])
        case["ph"] = np.array([draw(G.floats(-PI, PI)) for _ in range(n)])
    return case


def angle_values():
    """[-50, 50] with mass at multiples of pi / 2pi (both sides) and around +-2pi."""
    k = st.integers(-15, 15)
    return st.one_of(
        G.floats(-50.0, 50.0),
        G.floats(-50.0, 50.0),
        G.floats(-TWO_PI, TWO_PI),
        st.tuples(k, G.signed_log_uniform(1e-12, 1e-1)).map(lambda t: max(-50.0, min(50.0, t[0] * PI + t[1]))),
        k.map(lambda i: i * PI),
        st.sampled_from([TWO_PI, -TWO_PI, math.nextafter(TWO_PI, 7), math.nextafter(TWO_PI, 0),
                         -math.nextafter(TWO_PI, 7), 0.0, 50.0, -50.0, 7.0, 10.0, -10.0, 4 * PI, -4 * PI,
                         3 * PI, -3 * PI, 5 * PI / 2]),
    )


ANGLE_VARIANTS = ["helper_scalar", "helper_npscalar", "helper_array", "helper_column", "helper_six",
                  "helper_six_column", "helper_tm", "tm_method", "mr_AngleMod"]


@st.composite
def angle_cases(draw):
    variant = draw(st.sampled_from(ANGLE_VARIANTS))
    if variant in ("helper_scalar", "helper_npscalar"):
        vals = np.array([draw(angle_values())])
        pos = np.zeros(0)
    elif variant in ("helper_array", "helper_column"):
        n = draw(st.sampled_from([1, 2, 3, 4, 5, 7, 8, 12]))
        vals = np.array([draw(angle_values()) for _ in range(n)])
        pos = np.zeros(0)
    elif variant == "mr_AngleMod":
        n = draw(st.integers(1, 8))
        vals = np.array([draw(angle_values()) for _ in range(n)])
        pos = np.zeros(0)
    else:
        vals = np.array([draw(angle_values()) for _ in range(3)])
        pos = draw(G.positions(10.0))
    return {"variant": variant, "vals": vals, "pos": pos}


# ------------------------------------------------------------------------------------------ clauses

def c_mirror(case, ctx):
    plane, point, form = case["plane"], case["point"], case["form"]
    fsr = L()["fsr"]
    T = O.pose_from_taa(plane)
    R, o = T[:3, :3], T[:3, 3]
    p = point[:3]
    th = ang(plane[3:])
    q = R.T @ (p - o)
    offset = abs(float(R[:, 2] @ o))
    tilt = math.acos(max(-1.0, min(1.0, float(R[2, 2]))))
    ctx.label("plane offset " + ("=0" if offset == 0 else "<0.1" if offset < 0.1 else ">=0.1"))
    ctx.label("plane tilt " + ("<0.1" if tilt < 0.1 else ">=0.1"))
    ctx.label(ang_label(th))
    ctx.label("form=" + form)
    ctx.label("point " + ("on plane" if abs(q[2]) < 1e-9 else "off plane"))
    ctx.nontrivial(offset >= 0.1 and tilt >= 0.1 and abs(q[2]) >= 1e-3)

    def plane_tm():
        return mk_from_matrix(T) if form == "matrix" else mk(plane)

    scale = max(1.0, float(np.linalg.norm(p)), float(np.linalg.norm(o)), float(np.linalg.norm(q)))
    t = tol(scale, th) if form == "taa" else TIGHT * scale
    pl = plane_tm()             # one plane object for both reflections
    m1 = sut(fsr.mirror, pl, mk(point))
    pm = taa_of(m1, "mirror")[:3]
    qm = R.T @ (pm - o)
    close(qm[:2], q[:2], t, "mirror: in-plane (local x, y) coordinates of the image vs those of the point")
    close(qm[2:], -q[2:], t, "mirror: local z of the image vs minus local z of the point")
    close(pm, o + R @ np.array([q[0], q[1], -q[2]]), t, "mirror: image position vs reflection across the local XY plane")
    close(TM_of(m1, "mirror")[:3, 3], pm, 1e-12 * scale, "mirror: TM position vs TAA position of the image")
    # involution
    m2 = sut(fsr.mirror, pl, mk(np.concatenate([pm, np.zeros(3)])))
    close(taa_of(m2, "mirror(mirror)")[:3], p, 2 * t, "mirror: mirror(mirror(p)) vs p")


def c_midpoint(case, ctx):
    a, b = case["a"], case["b"]
    fsr = L()["fsr"]
    R1, R2 = O.exp3(a[3:]), O.exp3(b[3:])
    wrel = O.log3(R1.T @ R2)
    threl = ang(wrel)
    Rmid = R1 @ O.exp3(0.5 * wrel)
    thmid = O.angle(Rmid)
    ctx.label("pair=" + case["kind"])
    ctx.label("rel " + ang_label(threl))
    if threl > MAXANG or thmid > MAXANG:
        ctx.skip(NEAR_PI_SKIP)
    ctx.nontrivial(pair_nontrivial(a, b, need_pos=False) and threl >= 0.1)
    t = tol(1.0, ang(a[3:]), ang(b[3:]), threl, threl / 2, thmid)
    pmean = (a[:3] + b[:3]) / 2
    oa, ob = mk(a), mk(b)       # the same two objects for both orders: the helper reads its arguments only
    for (x, y, name) in ((oa, ob, "tmInterpMidpoint(a,b)"), (ob, oa, "tmInterpMidpoint(b,a)")):
        r = sut(fsr.tmInterpMidpoint, x, y)
        taa = taa_of(r, name)
        T = TM_of(r, name)
        close(taa[:3], pmean, TIGHT * max(1.0, float(np.abs(pmean).max())), name + ": position vs mean position")
        close(T[:3, 3], pmean, TIGHT * max(1.0, float(np.abs(pmean).max())), name + ": TM position vs mean position")
        close(T[:3, :3], Rmid, t, name + ": rotation vs R1 Exp(Log(R1^T R2)/2)")
        close(O.exp3(taa[3:]), Rmid, t, name + ": Exp(TAA rotation) vs R1 Exp(Log(R1^T R2)/2)")


def c_lookat(case, ctx):
    a, b = case["a"], case["b"]
    fsr = L()["fsr"]
    d = (b[:3].astype(np.longdouble) - a[:3].astype(np.longdouble))
    dn = float(np.sqrt(d @ d))
    if dn < 1e-6:
        ctx.skip("target coincides with the position")
    u = np.asarray(d / np.sqrt(d @ d), dtype=float)
    polar = math.atan2(math.hypot(u[0], u[1]), u[2])
    off_z = min(polar, PI - polar)
    if off_z < 1e-6:
        ctx.skip("target (numerically) colinear with the world-Z line through the position: the documented exception")
    ctx.label("off-Z " + ("<1e-4" if off_z < 1e-4 else "<1e-2" if off_z < 1e-2 else "<0.1" if off_z < 0.1 else ">=0.1"))
    ctx.label("dist 1e%d" % math.floor(math.log10(dn)))
    ctx.nontrivial(float(np.linalg.norm(a[:3])) >= 0.1 and off_z >= 1e-2 and np.count_nonzero(np.abs(u) > 1e-6) == 3)
    r = sut(fsr.lookAt, mk(a), mk(b))
    T = TM_of(r, "lookAt")
    taa = taa_of(r, "lookAt")
    pt = TIGHT * max(1.0, float(np.abs(a[:3]).max()))
    close(T[:3, 3], a[:3], pt, "lookAt: TM position vs position of the first argument")
    close(taa[:3], a[:3], pt, "lookAt: TAA position vs position of the first argument")
    if not np.array_equal(T[3], [0.0, 0.0, 0.0, 1.0]):
        raise Violation("lookAt: TM last row %s" % T[3])
    R = T[:3, :3]
    e = float(np.abs(R.T @ R - np.eye(3)).max())
    if e > TIGHT:
        raise Violation("lookAt: rotation not orthonormal, |R^T R - I| = %.3g" % e)
    det = float(np.linalg.det(R))
    if abs(det - 1) > TIGHT:
        raise Violation("lookAt: rotation is not proper, det = %.9g" % det)
    close(R[:, 2], u, TIGHT, "lookAt: local z axis vs unit(target - position)")
    th = O.angle(R)
    if th <= MAXANG:
        close(O.exp3(taa[3:]), R, tol(1.0, th), "lookAt: Exp(TAA rotation) vs TM rotation")
    else:
        ctx.label("frame within 1e-3 of a half turn: six-vector not compared")


def c_plane(case, ctx):
    pts, form = case["p"], case["form"]
    fsr = L()["fsr"]
    if form == "tm":
        args = [mk(np.concatenate([p, w])) for p, w in zip(pts, case["rots"])]
    elif form == "vec":
        args = [np.array(p, dtype=float) for p in pts]
    else:
        args = [[float(v) for v in p] for p in pts]
    v1 = (pts[1] - pts[0]).astype(np.longdouble)
    v2 = (pts[2] - pts[0]).astype(np.longdouble)
    cr = np.cross(v1, v2)
    sin_al = float(np.sqrt(cr @ cr) / np.sqrt((v1 @ v1) * (v2 @ v2)))
    if sin_al < 0.9e-3:
        ctx.skip("triple closer to collinear than sin(angle)=1e-3")
    res = sut(fsr.planeFromThreePoints, *args)
    try:
        a, b, c, d = (float(v) for v in res)
    except (TypeError, ValueError):
        raise Violation("planeFromThreePoints: result is not four scalars: %r" % (res,))
    n = np.array([a, b, c])
    if not (np.all(np.isfinite(n)) and math.isfinite(d)):
        raise Violation("planeFromThreePoints: non-finite coefficients %r" % ((a, b, c, d),))
    nn = float(np.linalg.norm(n))
    if nn == 0:
        raise Violation("planeFromThreePoints: zero normal (a=b=c=0) for a non-collinear triple")
    scale = max(1.0, max(float(np.linalg.norm(p)) for p in pts))
    off = abs(d) / nn
    tilt = math.acos(min(1.0, abs(c) / nn))
    ctx.label("form=" + form)
    ctx.label("sin(angle) " + ("<1e-2" if sin_al < 1e-2 else ">=1e-2"))
    ctx.label("offset " + ("<0.1" if off < 0.1 else ">=0.1"))
    ctx.nontrivial(off >= 0.1 and tilt >= 0.1)
    for i, p in enumerate(pts):
        r = abs(float(n @ p) - d) / nn
        if r > TIGHT * scale:
            raise Violation("planeFromThreePoints: point %d lies %.3g off the returned plane a x + b y + c z = d "
                            "(tol %.3g)" % (i + 1, r, TIGHT * scale))


def c_distance(case, ctx):
    pts, form = case["pts"], case["form"]
    fsr = L()["fsr"]
    dim = len(pts[0])

    def arg(p):
        if form == "tm":
            return mk(np.concatenate([p, np.zeros(3)]))
        return np.array(p, dtype=float)

    def lib(i, j):
        r = sut(fsr.distance, arg(pts[i]), arg(pts[j]))
        if isinstance(r, (bool, np.bool_)) or not isinstance(r, (float, int, np.floating, np.integer)):
            raise Violation("distance: returned %s, not a real number" % type(r).__name__)
        r = float(r)
        if not math.isfinite(r):
            raise Violation("distance: non-finite %r" % r)
        return r

    def orc(i, j):
        d = pts[i].astype(np.longdouble) - pts[j].astype(np.longdouble)
        return float(np.sqrt(d @ d))

    ctx.label("dim=%d form=%s" % (dim, form))
    ctx.label("kind=" + case["kind"])
    t = TIGHT * max(1.0, max(float(np.linalg.norm(p)) for p in pts))
    D = {}
    for i in range(3):
        for j in range(3):
            D[i, j] = lib(i, j)
            if D[i, j] < 0:
                raise Violation("distance: negative value %.3g" % D[i, j])
            if abs(D[i, j] - orc(i, j)) > t:
                raise Violation("distance(p%d,p%d) = %.12g, Euclidean norm of the difference = %.12g"
                                % (i, j, D[i, j], orc(i, j)))
    for i in range(3):
        if D[i, i] != 0.0:
            raise Violation("distance(p,p) = %.3g, not 0" % D[i, i])
        for j in range(3):
            if abs(D[i, j] - D[j, i]) > t:
                raise Violation("distance not symmetric: %.12g vs %.12g" % (D[i, j], D[j, i]))
            for k in range(3):
                if D[i, k] > D[i, j] + D[j, k] + t:
                    raise Violation("triangle inequality: d(%d,%d)=%.12g > d(%d,%d)+d(%d,%d)=%.12g"
                                    % (i, k, D[i, k], i, j, j, k, D[i, j] + D[j, k]))
    ctx.nontrivial(min(orc(0, 1), orc(1, 2), orc(0, 2)) > 1e-6)


def _as_scalar(r, what):
    a = np.asarray(r, dtype=float)
    if a.size != 1:
        raise Violation("%s: result has %d elements, expected one number" % (what, a.size))
    v = float(a.reshape(()))
    if not math.isfinite(v):
        raise Violation("%s: non-finite result" % what)
    return v


def c_arc_distance(case, ctx):
    a, b = case["a"], case["b"]
    fsr = L()["fsr"]
    Ta, Tb = O.pose_from_taa(a), O.pose_from_taa(b)
    want, threl = arc_oracle(Ta, Tb)
    ctx.label("pair=" + case["kind"])
    ctx.label("rel " + ang_label(threl))
    if threl > MAXANG:
        ctx.skip(NEAR_PI_SKIP)
    ctx.nontrivial(pair_nontrivial(a, b))
    scale = max(1.0, float(np.linalg.norm(b[:3] - a[:3])))
    t = tol(scale, ang(a[3:]), ang(b[3:]), threl)
    got = _as_scalar(sut(fsr.arcDistance, mk(a), mk(b)), "arcDistance")
    if abs(got - want) > t:
        raise Violation("arcDistance = %.12g, |[Ra^T(pb-pa); Log(Ra^T Rb)]| = %.12g (tol %.3g)" % (got, want, t))
    zero = _as_scalar(sut(fsr.arcDistance, mk(a), mk(a)), "arcDistance(a,a)")
    if abs(zero) > tol(1.0, ang(a[3:])):
        raise Violation("arcDistance(a,a) = %.3g, not 0" % zero)


def _gap(case, ctx):
    a, b, delta = case["a"], case["b"], float(case["delta"])
    if not (0.0 < delta <= 1.0):
        ctx.skip("step outside (0,1]")
    diff = b - a
    g = float(np.linalg.norm(diff))
    if 0.0 < g < 1e-150:
        ctx.skip("gap below 1e-150: direction lost to float64 underflow of the squares")
    ctx.label("pair=" + case["kind"])
    ctx.label("gap=0" if g == 0 else ("overshoot (delta>gap)" if delta > g else "delta<=gap"))
    return a, b, delta, diff, g


def c_linear_gap(case, ctx):
    a, b, delta, diff, g = _gap(case, ctx)
    fsr = L()["fsr"]
    origin, goal = mk(a), mk(b)
    scale = max(1.0, float(np.abs(a).max()), float(np.abs(b).max()))
    ctx.nontrivial(g != 0 and pair_nontrivial(a, b))
    # the same origin and goal objects are stepped from twice (a planner steps from one node toward several goals):
    # both answers are the step from the origin's pose
    for name in ("closeLinearGap", "closeLinearGap (second step from the same origin object)"):
        r = sut(fsr.closeLinearGap, origin, goal, delta)
        taa = taa_of(r, name)
        if g == 0:
            close(taa, b, TIGHT * scale, name + " with no gap: result vs goal")
            continue
        want = a + delta * diff / g
        close(taa, want, TIGHT * scale, name + ": six-vector vs origin + delta*unit(goal - origin)")
        adv = float(np.linalg.norm(taa - a))
        if abs(adv - delta) > TIGHT * scale:
            raise Violation("%s advanced %.12g, requested %.12g" % (name, adv, delta))
        check_pose_coherent(r, name + " result")


ARC_TOWARD_TAG = "[toward-goal]"


def c_arc_gap(case, ctx):
    a, b, delta, diff, g = _gap(case, ctx)
    fsr = L()["fsr"]
    Ta, Tb = O.pose_from_taa(a), O.pose_from_taa(b)
    gap_arc, threl = arc_oracle(Ta, Tb)
    if threl > MAXANG:
        ctx.skip(NEAR_PI_SKIP)
    if 0.0 < g and gap_arc < 2e-6:
        # an implementation that takes the direction from the relative pose (Log) cannot resolve it below the
        # library's NearZero resolution; the six-vector implementation can, but the property does not choose
        ctx.skip("arc gap below the library's NearZero resolution (2e-6): step direction not resolvable")
    tha, thb = ang(a[3:]), ang(b[3:])
    ctx.label("origin " + ("unrotated" if tha == 0 else "rotated"))
    origin, goal = mk(a), mk(b)
    if g != 0:
        ctx.nontrivial(pair_nontrivial(a, b))
    # stepped twice from the same origin and goal objects: both answers are the step from the origin's pose
    for _rep in range(2):
        _c_arc_gap_result(sut(fsr.closeArcGap, origin, goal, delta), ctx, a, b, delta, diff, g, Ta, Tb, gap_arc, threl, tha, thb)


def _c_arc_gap_result(r, ctx, a, b, delta, diff, g, Ta, Tb, gap_arc, threl, tha, thb):
    Tr = TM_of(r, "closeArcGap")
    scale = max(1.0, float(np.abs(a[:3]).max()), float(np.abs(b[:3]).max()))
    if g == 0:
        close(Tr[:3, 3], b[:3], TIGHT * scale, "closeArcGap with no gap: position vs goal")
        close(Tr[:3, :3], Tb[:3, :3], tol(1.0, thb), "closeArcGap with no gap: rotation vs goal")
        return
    if not O.is_rotation(Tr[:3, :3], 1e-8) or not np.array_equal(Tr[3], [0.0, 0.0, 0.0, 1.0]):
        raise Violation("closeArcGap: result is not a rigid transform")
    step_rot = delta * float(np.linalg.norm(diff[3:])) / g      # rotation angle of the library's step
    adv, th_adv = arc_oracle(Ta, Tr)
    t = tol(scale, tha, thb, threl, step_rot, th_adv)
    if abs(adv - delta) > t:
        raise Violation("closeArcGap: arc distance origin -> result is %.12g, requested step %.12g (tol %.3g)"
                        % (adv, delta, t))
    rem, th_rem = arc_oracle(Tr, Tb)
    if th_rem > MAXANG:
        ctx.label("result within 1e-3 of a half turn from the goal: remaining distance not compared")
        return
    t2 = tol(scale, tha, thb, threl, step_rot, th_adv, th_rem)
    if delta <= gap_arc and rem > gap_arc + t2:
        raise Violation("%s closeArcGap: the result is FARTHER from the goal than the origin was: arc distance "
                        "to goal %.9g -> %.9g after a step of %.9g" % (ARC_TOWARD_TAG, gap_arc, rem, delta))
    if abs(rem - abs(gap_arc - delta)) > t2:
        raise Violation("%s closeArcGap: a step of %.9g toward the goal must leave |gap - step| = %.12g of the "
                        "arc distance %.12g, but %.12g remains (tol %.3g)"
                        % (ARC_TOWARD_TAG, delta, abs(gap_arc - delta), gap_arc, rem, t2))


def arc_gap_region(case, message):
    """Proposed known finding: closeArcGap applies the WORLD six-vector difference as a LOCAL step, so for a
    rotated origin the step (of the right length) is not directed at the goal."""
    if ARC_TOWARD_TAG in message and ang(np.asarray(case["a"])[3:]) > 0.0:
        return "close_arc_gap_rotated_origin"
    return None


def c_ik_path(case, ctx):
    a, b, steps = case["a"], case["b"], int(case["steps"])
    fsr = L()["fsr"]
    ctx.label("pair=" + case["kind"])
    ctx.label("steps " + ("=2" if steps == 2 else "<=12" if steps <= 12 else ">12"))
    ctx.nontrivial(pair_nontrivial(a, b) and steps >= 3)
    path = sut(fsr.IKPath, mk(a), mk(b), steps)
    if not isinstance(path, (list, tuple)):
        raise Violation("IKPath: result is %s, not a list" % type(path).__name__)
    if len(path) != steps:
        raise Violation("IKPath: %d poses returned, %d requested" % (len(path), steps))
    scale = max(1.0, float(np.abs(a).max()), float(np.abs(b).max()))
    t = TIGHT * scale
    taas = [taa_of(p, "IKPath[%d]" % k) for k, p in enumerate(path)]
    close(taas[0], a, t, "IKPath: first pose vs start")
    close(taas[-1], b, t, "IKPath: last pose vs goal")
    inc = (b - a) / (steps - 1)
    for k in range(steps):
        close(taas[k], a + (b - a) * (k / (steps - 1)), t, "IKPath: pose %d of %d vs start + k/(n-1)*(goal-start)"
              % (k, steps))
    for k in range(steps - 1):
        close(taas[k + 1] - taas[k], inc, 2 * t, "IKPath: increment %d->%d vs (goal-start)/(n-1)" % (k, k + 1))
    for k, p in enumerate(path):
        check_pose_coherent(p, "IKPath[%d]" % k)


_IKP_PAIRS = [
    (np.array([0.5, -1.0, 2.0, 0.3, -0.2, 0.4]), np.array([-2.0, 1.5, 0.25, -0.6, 0.9, 0.1])),
    (np.array([0.0, 0.0, 0.0, 0.0, 0.0, 0.0]), np.array([1.0, 2.0, 3.0, 0.7, -1.1, 0.5])),
    (np.array([3.0, 1.0, -2.5, 0.7, -0.4, 0.2]), np.array([3.0, 1.0, -2.5, -1.2, 0.3, 2.0])),
    (np.array([-7.0, 8.0, 9.0, 1.5, 1.5, -1.5]), np.array([7.0, -8.0, -9.0, 0.0, 0.0, 0.0])),
    (np.array([0.1, 0.2, 0.3, 2.0, 0.0, 0.0]), np.array([0.4, 0.5, 0.6, 0.0, 2.0, 0.0])),
    (np.array([10.0, 0.0, 0.0, 0.0, 0.0, 3.0]), np.array([0.0, 10.0, 0.0, 0.0, 0.0, -3.0])),
    (np.array([1e-3, -2e-3, 5e-4, 1e-2, 2e-2, -1e-2]), np.array([2e-3, 1e-3, -5e-4, -1e-2, 1e-2, 2e-2])),
    (np.array([1.0, 1.0, 1.0, 0.5, 0.5, 0.5]), np.array([2.0, 3.0, 5.0, 0.25, 0.75, 1.25])),
]


def _ik_path_enum_case(i, tier):
    steps = 2 + i % 199
    a, b = _IKP_PAIRS[(i // 199) % len(_IKP_PAIRS)]
    return {"a": a.copy(), "b": b.copy(), "steps": steps, "kind": "enum"}


def c_twist_to_goal(case, ctx):
    a, b = case["a"], case["b"]
    fsr = L()["fsr"]
    Ta, Tb = O.pose_from_taa(a), O.pose_from_taa(b)
    Trel = Tb @ O.inv(Ta)
    threl = O.angle(Trel[:3, :3])
    ctx.label("pair=" + case["kind"])
    ctx.label("rel " + ang_label(threl))
    if threl > MAXANG:
        ctx.skip(NEAR_PI_SKIP)
    ctx.nontrivial(pair_nontrivial(a, b))
    tw = np.asarray(sut(fsr.twistToGoal, mk(a), mk(b)), dtype=float)
    if tw.size != 6 or not np.all(np.isfinite(tw)):
        raise Violation("twistToGoal: result shape %s / non-finite" % (tw.shape,))
    tw = tw.reshape(6)
    scale = max(1.0, float(np.linalg.norm(a[:3])), float(np.linalg.norm(b[:3])), float(np.linalg.norm(Trel[:3, 3])),
                float(np.linalg.norm(tw[3:])))
    t = tol(scale, ang(a[3:]), ang(b[3:]), threl)
    got = O.exp6(tw) @ Ta
    close(got[:3, :3], Tb[:3, :3], tol(1.0, ang(a[3:]), ang(b[3:]), threl), "Exp(twistToGoal(a,b)) a vs b: rotation")
    close(got[:3, 3], Tb[:3, 3], t, "Exp(twistToGoal(a,b)) a vs b: position")


def c_chain_jacobian(case, ctx):
    S, th = case["S"], case["theta"]
    fsr = L()["fsr"]
    n = S.shape[1]
    angs = [abs(th[i]) * ang(S[:3, i]) for i in range(n - 1)]
    ctx.label("n=%d" % n)
    ctx.label("band" if in_band(*angs) else "no band")
    if any(not np.any(S[:3, i]) and abs(th[i]) > 2 * PI for i in range(n - 1)):
        ctx.label("a slide (not the last joint) displaced by more than 2 pi")
    ctx.nontrivial(n >= 2 and any(x >= 1e-6 for x in angs))
    tform = case.get("th_form", "flat")
    tharg = (np.array(th, dtype=float).reshape(n, 1) if tform == "col" else [float(x) for x in th] if tform == "list"
             else np.array(th, dtype=float))
    ctx.label("theta as " + tform)
    if np.issubdtype(S.dtype, np.integer):
        ctx.label("integer-typed screw list")
        J = np.asarray(sut(fsr.chainJacobian, S.copy(), tharg), dtype=float)
    else:
        J = np.asarray(sut(fsr.chainJacobian, np.ascontiguousarray(S, dtype=float), tharg), dtype=float)
    S = np.asarray(S, dtype=float)
    want = O.jac_space(S, th)
    scale = max(1.0, float(np.abs(want).max()))
    close(J, want, tol(scale, *angs), "chainJacobian vs space Jacobian [S1, Ad(e^{S1 t1}) S2, ...]")


def _poly_f(case):
    A, Q, c = case["A"], case["Q"], case["c"]
    trig = case["mode"] == "trig"

    def f(x):
        x = np.asarray(x, dtype=float)
        y = c + A @ x + np.einsum("kij,i,j->k", Q, x, x)
        if trig:
            y = y + case["C"] @ np.sin(case["om"] * x + case["ph"])
        return y

    def jac(x):
        J = A + np.einsum("kij,j->ki", Q, x) + np.einsum("kij,i->kj", Q, x)
        if trig:
            J = J + case["C"] * (case["om"] * np.cos(case["om"] * x + case["ph"]))[None, :]
        return J

    def rem(h):
        if not trig:
            return np.zeros_like(A)
        return (h * h / 6.0) * np.abs(case["C"]) * (case["om"] ** 3)[None, :]
    return f, jac, rem


def c_numerical_jacobian(case, ctx):
    mode, h, x = case["mode"], float(case["h"]), np.array(case["x"], dtype=float)
    fsr = L()["fsr"]
    n = x.size
    if mode in ("logcoords", "flatT"):
        S = case["S"]
        Js = O.jac_space(S, x)
        if mode == "logcoords":
            T0inv = O.inv(O.poe_space(np.eye(4), S, x))

            def f(t):
                return O.log6(O.poe_space(np.eye(4), S, t) @ T0inv)
            want = Js
            rem = np.zeros_like(want)
        else:
            M = O.pose_from_taa(case["M"])
            T0 = O.poe_space(M, S, x)

            def f(t):
                return O.poe_space(M, S, t).T.flatten()
            want = np.zeros((16, n))
            rem = np.zeros((16, n))
            for i in range(n):
                H = O.hat6(Js[:, i])
                want[:, i] = (H @ T0).T.flatten()
                hn = float(np.linalg.norm(H, 2))
                rem[:, i] = (h * h / 6.0) * hn ** 3 * math.exp(hn * h) * float(np.linalg.norm(T0))
    else:
        f, jac, remf = _poly_f(case)
        want = jac(x)
        rem = remf(h)
    m = want.shape[0]
    ctx.label("mode=" + mode)
    ctx.label("n=%d" % n)
    ctx.nontrivial(n >= 2 and m >= 2)
    x_in = x.copy()
    J = np.asarray(sut(fsr.numericalJacobian, f, x_in, h), dtype=float)
    if n == 1 and J.shape == (m,):
        ctx.label("n=1 returned 1-D")
        J = J.reshape(m, 1)
    if J.shape != (m, n):
        raise Violation("numericalJacobian: shape %s, expected (%d, %d)" % (J.shape, m, n))
    if not np.all(np.isfinite(J)):
        raise Violation("numericalJacobian: non-finite entries")
    fscale = max(1.0, float(np.abs(np.asarray(f(x), dtype=float)).max()), float(np.abs(want).max()))
    # 1e-8*scale covers the rounding of f (<= ~1e-13*scale) divided by 2h (h >= 1e-4)
    bound = TIGHT * fscale + 1.01 * rem
    err = np.abs(J - want)
    if np.any(err > bound):
        k = np.unravel_index(int(np.argmax(err - bound)), err.shape)
        raise Violation("numericalJacobian[%d,%d] = %.12g, analytic %.12g (|diff| %.3g > 1e-8*scale + central-"
                        "difference remainder = %.3g; mode %s, h=%g)" % (k[0], k[1], J[k], want[k], err[k], bound[k],
                                                                        mode, h))


# sphere samplers: enumerated ----------------------------------------------------------------------

def _unit_subset():
    ns = set(range(1, 101)) | {2000, 1999, 1000, 500, 250}
    r = 1
    while (r + 0.5) ** 2 <= 2000:
        edge = (r + 0.5) ** 2          # round(sqrt(n)) changes between floor and ceil of this
        ns.update({int(math.floor(edge)), int(math.ceil(edge))})
        r += 1
    return sorted(n for n in ns if 1 <= n <= 2000)


_UNIT_QUICK = _unit_subset()


def _sphere_cases(tier):
    cases = [("fibo", n) for n in range(1, 2001)]
    ns = range(1, 2001) if tier == "thorough" else _UNIT_QUICK
    for n in ns:
        cases.append(("unit", n))
        cases.append(("unit_azel", n))
    return cases


_SPH = {}


def _sph(tier):
    if tier not in _SPH:
        cs = _sphere_cases(tier)
        # interleave so that every shard's index range has a mix of costs
        k = 16
        _SPH[tier] = [c for i in range(k) for c in cs[i::k]]
    return _SPH[tier]


def sphere_size(tier):
    return len(_sph(tier))


def sphere_case_at(i, tier):
    kind, n = _sph(tier)[i]
    return {"kind": kind, "n": n}


def c_sphere(case, ctx):
    kind, n = case["kind"], int(case["n"])
    if not 1 <= n <= 2000:
        ctx.skip("point count outside 1..2000")
    ctx.label(kind)
    ctx.nontrivial(n >= 2)
    raw = _c_sphere_once(kind, n)
    # the caller places the sphere (scales and shifts the returned array in place, as one does with one's own array)
    # and asks for the same number of points again: the second answer is again unit vectors
    if isinstance(raw, np.ndarray) and raw.flags.writeable and raw.dtype.kind == "f":
        raw *= 2.5
        raw += np.array([1.0, -2.0, 0.5])
        ctx.label("asked again after the first result was scaled in place")
        _c_sphere_once(kind, n)


def _c_sphere_once(kind, n):
    fsr = L()["fsr"]
    raw = None
    if kind == "fibo":
        raw = sut(fsr.fiboSphere, n)
        pts = np.asarray(raw, dtype=float)
        if pts.shape != (n, 3):
            raise Violation("fiboSphere(%d): shape %s, expected (%d, 3)" % (n, pts.shape, n))
    else:
        if kind == "unit":
            raw = sut(fsr.unitSphere, n)
            pts = np.asarray(raw, dtype=float)
        else:
            res = sut(fsr.unitSphere, n, True)
            if not (isinstance(res, tuple) and len(res) == 2):
                raise Violation("unitSphere(%d, True): expected (points, azel)" % n)
            raw = res[0]
            pts = np.asarray(raw, dtype=float)
            if len(res[1]) != len(pts):
                raise Violation("unitSphere(%d, True): %d points but %d az/el pairs" % (n, len(pts), len(res[1])))
        r = int(round(math.sqrt(n)))
        if pts.ndim != 2 or pts.shape[1] != 3 or not (r * r <= pts.shape[0] <= (r + 1) * (r + 1)):
            raise Violation("unitSphere(%d): shape %s, expected between %d and %d rows of 3"
                            % (n, pts.shape, r * r, (r + 1) * (r + 1)))
    if not np.all(np.isfinite(pts)):
        raise Violation("%s(%d): non-finite coordinates" % (kind, n))
    e = np.abs(np.sqrt((pts * pts).sum(axis=1)) - 1.0)
    if e.max() > TIGHT:
        raise Violation("%s(%d): row %d has norm 1%+.3g" % (kind, n, int(e.argmax()), float(e.max())))
    return raw


# angle wrapping ------------------------------------------------------------------------------------

def _check_wrapped(before, after, what):
    before = np.asarray(before, dtype=float).reshape(-1)
    after = np.asarray(after, dtype=float).reshape(-1)
    if after.shape != before.shape:
        raise Violation("%s: %d values in, %d out" % (what, before.size, after.size))
    if not np.all(np.isfinite(after)):
        raise Violation("%s: non-finite output %s" % (what, after))
    for i, (x, y) in enumerate(zip(before, after)):
        k = (x - y) / TWO_PI
        if abs(k - round(k)) * TWO_PI > TIGHT:
            raise Violation("%s: component %d went %.12g -> %.12g, a change of %.9g turns (not an integer multiple "
                            "of 2 pi)" % (what, i, x, y, k))
        if abs(y) > TWO_PI + TIGHT:
            raise Violation("%s: component %d is %.12g after wrapping, |x| > 2 pi" % (what, i, y))


def c_angle_mod(case, ctx):
    variant, vals, pos = case["variant"], np.array(case["vals"], dtype=float), np.array(case["pos"], dtype=float)
    lib = L()
    fsr, mr = lib["fsr"], lib["mr"]
    if np.any(np.abs(vals) > 50.0):
        ctx.skip("angle outside [-50, 50]")
    ctx.label(variant)
    big = bool(np.any(np.abs(vals) > TWO_PI))
    ctx.label("some |x|>2pi" if big else "all |x|<=2pi")
    ctx.nontrivial(big)
    if variant == "helper_scalar":
        out = sut(fsr.angleMod, float(vals[0]))
        _check_wrapped(vals, [_as_scalar(out, "angleMod(scalar)")], "angleMod(scalar)")
    elif variant == "helper_npscalar":
        out = sut(fsr.angleMod, np.float64(vals[0]))
        _check_wrapped(vals, [_as_scalar(out, "angleMod(np.float64)")], "angleMod(np.float64)")
    elif variant == "helper_array":
        out = sut(fsr.angleMod, vals.copy())
        _check_wrapped(vals, out, "angleMod(array of %d)" % vals.size)
    elif variant == "helper_column":
        out = sut(fsr.angleMod, vals.copy().reshape(-1, 1))
        _check_wrapped(vals, out, "angleMod(column of %d)" % vals.size)
    elif variant == "mr_AngleMod":
        out = sut(mr.AngleMod, np.ascontiguousarray(vals.copy()))
        _check_wrapped(vals, out, "mr.AngleMod(array of %d)" % vals.size)
    elif variant in ("helper_six", "helper_six_column"):
        six = np.concatenate([pos, vals])
        arg = six.copy() if variant == "helper_six" else six.copy().reshape(6, 1)
        out = np.asarray(sut(fsr.angleMod, arg), dtype=float).reshape(-1)
        if out.size != 6:
            raise Violation("angleMod(6-vector): %d values out" % out.size)
        if not np.array_equal(out[:3], pos):
            raise Violation("angleMod(6-vector): position part changed %s -> %s" % (pos, out[:3]))
        _check_wrapped(vals, out[3:], "angleMod(6-vector) rotation part")
    else:
        t = mk(np.concatenate([pos, vals]))
        if variant == "helper_tm":
            out = sut(fsr.angleMod, t)
            what = "fsr.angleMod(tm)"
        else:
            sut(t.angleMod)
            out = t
            what = "tm.angleMod()"
        taa = taa_of(out, what)
        if not np.array_equal(taa[:3], pos):
            raise Violation("%s: position part changed %s -> %s" % (what, pos, taa[:3]))
        _check_wrapped(vals, taa[3:], what + " rotation part")
        check_pose_coherent(out, what + " result")


# ------------------------------------------------------------------------------------------ clause table

CLAUSES = [
    Clause("mirror_reflects_local_z", c_mirror, mirror_cases(), 600, 16000),
    Clause("interp_midpoint_geodesic", c_midpoint, pose_pairs(), 600, 16000),
    Clause("look_at_points_z", c_lookat, lookat_cases(), 600, 16000),
    Clause("plane_contains_points", c_plane, triples(), 600, 16000),
    Clause("distance_is_metric", c_distance, distance_cases(), 600, 16000),
    Clause("arc_distance_relative_pose", c_arc_distance, pose_pairs(), 600, 16000),
    Clause("close_linear_gap_exact_step", c_linear_gap, gap_cases(), 600, 16000),
    Clause("close_arc_gap_exact_step", c_arc_gap, gap_cases(), 600, 16000, region=arc_gap_region),
    Clause("ik_path_even_spacing", c_ik_path, path_cases(), 400, 8000),
    # the step count is a small finite domain (2..200): every value is tried, so a count-specific slip
    # (float rounding in an arange, an off-by-one for particular n) cannot hide between samples
    Clause("ik_path_every_step_count", c_ik_path, kind="enum",
           size=lambda tier: 199 * (2 if tier == "quick" else 8), case_at=_ik_path_enum_case),
    Clause("twist_to_goal_exponentiates", c_twist_to_goal, pose_pairs(), 600, 16000),
    Clause("chain_jacobian_is_space_jacobian", c_chain_jacobian, chain_cases(), 600, 16000),
    Clause("numerical_jacobian_is_analytic", c_numerical_jacobian, numjac_cases(), 400, 8000),
    Clause("sphere_samplers_unit_rows", c_sphere, kind="enum", size=sphere_size, case_at=sphere_case_at),
    Clause("angle_mod_multiple_of_2pi", c_angle_mod, angle_cases(), 1200, 32000),
]
