"""C19 -- message router: every received message is delivered exactly once per active rule.

Object under test: basic_robotics.interfaces.comms_core.Comms (the hub) with endpoints that are
either in-memory doubles of the CommsObject interface or real UDPObject sockets on 127.0.0.1.

A *history* is a list of operations in one uniform, JSON-able format (so enumeration, Hypothesis,
shrinking and replay all share one interpreter, `execute`):

    ["fwd",  a, b]          hub.setForwardData(a, b)
    ["del",  a, b]          hub.deleteForwardingRule(a, b)
    ["sink", a, i|None]     hub.setDataSink(a, sink_i)          (None: a None handle)
    ["src",  a, i|None]     hub.setDataSource(a, source_i)
    ["recv", a, mode]       harness queues mode in {"msg","none","empty"} on a, then hub.getData(a)
    ["send", a]             hub.sendData(a, <fresh message>)
    ["spin", k, feed]       feed[it][j] in {"msg","none","empty"}: what endpoint j has waiting in
                            iteration it (missing entries: "none"); then hub.spin(k), k >= 0
    ["open", a] / ["close", a] / ["openall"] / ["closeall"]
    ["delrule", i]          "del" of the (i mod n)-th forwarding rule that exists at that moment
    ["recvruled", i, mode]  "recv" on the (i mod n)-th endpoint that has a destination or sink at that moment
                            (both are resolved by the harness from the model while the history runs, so
                            that random histories delete live rules and poll ruled endpoints often)

Names are "A".."D" (the first n_ep exist) and "X" (never exists); sink/source handles are small ints.

The reference model is written from the property text, not from the library: three maps
name -> ordered set (destinations, sinks, sources); a registration call reports success iff the
model changed; a receive that yields a message delivers it exactly once to each current
destination and each current sink of that endpoint and to nothing else; a receive that yields no
data (scripted time-out, closed or unknown port) delivers nothing, sends nothing, raises nothing;
spin(k) sends k values of each source to the source's own endpoint and to no other.
Everything is compared after EVERY operation against what the endpoint doubles / sink callbacks
actually recorded during that operation.  Receives are *observed* (what the endpoint's getData()
handed to the hub is the truth about "message" vs "no data"); deliveries, source sends and return
values of registration calls are *demanded*.

The state-graph, random and UDP clauses append a fixed probe (a message on every endpoint, then one
spin with a message waiting everywhere) so that an operation that answered correctly but left the
rule tables wrong is seen too.  In a violation message, an op index >= len(case["ops"]) is a probe op.

What the code documents and where the property text is stricter / different (the text wins):
  * set*/delete* return True iff they changed a table, False for unknown names, None handles,
    duplicates and absent rules -- same as the text.  There is no call that removes a sink or a source.
  * spin(k): per iteration and per endpoint, first every source of the endpoint is called and its
    value sent to that endpoint, then the endpoint is polled once if its name is a key of the
    forwarding or sink table (also when its last rule was deleted: the message is consumed and
    goes nowhere -- allowed by the text, labelled "spin polled endpoint without current rule").
    spin(k<0) never returns and is not generated.
  * getData's docstring promises (data, success); the code returns the data only.  Its return
    value for a message is therefore not checked; None for "no data" is.
  * before the fix, getData passed a no-data receive (None) on to every destination and sink.
"""
import collections
import errno
import select
import socket
import time

from hypothesis import strategies as st

from vf.core import Clause, HarnessError, LibError, Violation, sut

PROPERTY_ID = "C19"
RULE = ("Histories over {setForwardData, deleteForwardingRule, setDataSink, setDataSource, getData, sendData, "
        "spin(k), open/close}: (a) every sequence of length <=4 (quick) / <=5 (thorough) over a fixed alphabet of "
        "29 concrete operations on a 2-endpoint hub, (b) every operation of a 36-operation superset from every reachable "
        "rule-table state (model-side BFS, shortest path replayed), (c) Hypothesis op-lists to depth 60 on 1..4 "
        "endpoints with a no-data fault drawn at every receive position, (d) the same interpreter on two real "
        "UDPObject endpoints on 127.0.0.1. Non-trivial: a message is received after >=1 successful registration "
        "and >=1 successful deletion, or a no-data receive happens on an endpoint that currently has a rule.")
ASSUMPTIONS = [
    "reference model written from the property text: three maps name -> ordered set; unknown names and None "
    "handles are rejected (as the repo's own tests document); registration reports success iff the model changed",
    "doubles are installed with hub.endpoints[name] = double (Comms has no public call that registers a foreign "
    "CommsObject); UDP endpoints are created with the public newComPort and observed through instance-level "
    "wrappers of getData/sendData plus harness-owned peer sockets",
    "what an endpoint's getData() returned is the truth about 'message' vs 'no data' (also on UDP: a late "
    "datagram is simply a later message), so nothing depends on timing; the 20 ms UDP time-out only produces "
    "'no data' on an empty socket",
    "hub.getData(name) receives on the named endpoint only and at most once, and (doubles) does receive a message "
    "that is waiting on an open endpoint; which endpoints spin() polls is observed, not demanded (the property "
    "text only fixes the source half of spin)",
    "the return value of hub.getData is not checked (the property text does not constrain it; the docstring "
    "promises (data, success), the code returns data)",
    "an empty string is a message (only None means 'no data')",
    "UDPObject.closeCom (shutdown on an unconnected datagram socket -> ENOTCONN on Linux) is outside this "
    "property: UDP endpoints are never closed through the library, sockets are closed directly at teardown",
]
SHARDS = {"quick": 4, "thorough": 16}

EP_NAMES = ("A", "B", "C", "D")
UNKNOWN = "X"

_L = {}


def lib():
    """Import the library lazily; build the in-memory endpoint double as a CommsObject subclass."""
    if _L:
        return _L
    from basic_robotics.interfaces import comms_core
    from basic_robotics.interfaces.comms_object import CommsObject

    class Double(CommsObject):
        """In-memory CommsObject: scripted inbox, shared event log, open flag.

        Mirrors UDPObject's observable conventions: closed -> receive yields None without
        consuming anything and a send is dropped by the endpoint; None = no data."""

        def __init__(self, name, log, is_open=True):
            CommsObject.__init__(self, name, "double")
            self.log = log
            self.script = []
            self.open = is_open

        def sendData(self, data):
            self.log.append(("tx", self.name, data))
            self.last_tx_success = self.open
            return True if self.open else None

        def getData(self):
            r = self.script.pop(0) if (self.open and self.script) else None
            self.log.append(("rx", self.name, r))
            if r is None:
                self.last_rx_success = None if self.open else False
            else:
                self.last_rx_success = True
                self.last_rx_data = r
            return r

        def openCom(self):
            if not self.open:
                self.open = True
                return True
            return False

        def closeCom(self):
            if self.open:
                self.open = False
                return True
            return False

    _L["Comms"] = comms_core.Comms
    _L["Double"] = Double
    return _L


def warm():
    lib()


# ------------------------------------------------------------------------------------------
# reference model (from the property text)
# ------------------------------------------------------------------------------------------

class Model:
    __slots__ = ("names", "fwd", "sinks", "srcs", "open", "adds", "dels", "touched")

    def __init__(self, names, opens):
        self.names = names
        self.fwd = {n: [] for n in names}      # name -> ordered set of destination names
        self.sinks = {n: [] for n in names}    # name -> ordered set of sink handles
        self.srcs = {n: [] for n in names}     # name -> ordered set of source handles
        self.open = dict(zip(names, opens))
        self.adds = 0
        self.dels = 0
        self.touched = set()                   # only used to distinguish states in the state-graph clause

    def set_forward(self, a, b):
        if a in self.fwd and b in self.fwd and b not in self.fwd[a]:
            self.fwd[a].append(b)
            self.adds += 1
            self.touched.add(("f", a))
            return True
        return False

    def del_forward(self, a, b):
        if a in self.fwd and b in self.fwd[a]:
            self.fwd[a].remove(b)
            self.dels += 1
            return True
        return False

    def set_sink(self, a, h):
        if a in self.sinks and h is not None and h not in self.sinks[a]:
            self.sinks[a].append(h)
            self.adds += 1
            return True
        return False

    def set_source(self, a, h):
        if a in self.srcs and h is not None and h not in self.srcs[a]:
            self.srcs[a].append(h)
            self.adds += 1
            return True
        return False

    def deliveries(self, a, v):
        """A message v received on a: once to each current destination, once to each current sink."""
        return [("tx", d, v) for d in self.fwd[a]] + [("sink", s, v) for s in self.sinks[a]]

    def has_rule(self, a):
        return bool(self.fwd[a] or self.sinks[a])

    def key(self):
        return (tuple((n, tuple(self.fwd[n]), tuple(self.sinks[n]), tuple(self.srcs[n]), self.open[n])
                      for n in self.names), tuple(sorted(self.touched)))

    def describe(self):
        return "fwd=%s sinks=%s sources=%s open=%s" % (
            {k: v for k, v in self.fwd.items() if v}, {k: v for k, v in self.sinks.items() if v},
            {k: v for k, v in self.srcs.items() if v}, self.open)


# flags describing what a history exercised (labels / non-triviality)
F_DELIV, F_NODATA_RULED, F_CHURN_RX, F_SRC, F_DUP, F_UNKNOWN, F_CLOSED_RX, F_SELF, F_SPIN_RX, F_EMPTY, \
    F_FANOUT, F_POLL_NORULE, F_DEL_OK, F_NODATA_SPIN_RULED = (1 << i for i in range(14))
FLAG_NAMES = {
    F_DELIV: "message delivered to >=1 target", F_NODATA_RULED: "no-data receive on endpoint with rules",
    F_CHURN_RX: "message received after add+delete", F_SRC: "spin sent source values",
    F_DUP: "duplicate registration refused", F_UNKNOWN: "op with unknown name / None handle",
    F_CLOSED_RX: "receive on closed endpoint", F_SELF: "self-forward delivery",
    F_SPIN_RX: "message received inside spin", F_EMPTY: "empty-string message received",
    F_FANOUT: "fan-out to >=2 targets", F_POLL_NORULE: "spin polled endpoint without current rule",
    F_DEL_OK: "successful delete", F_NODATA_SPIN_RULED: "no-data receive inside spin on endpoint with rules",
}
NT_MASK = F_NODATA_RULED | F_CHURN_RX


# ------------------------------------------------------------------------------------------
# rigs: how endpoints are created, fed and observed
# ------------------------------------------------------------------------------------------

class DoubleRig:
    """Endpoints are in-memory doubles; everything is synchronous and owned by the harness."""

    synchronous = True      # a fed message is there when the hub polls

    def __init__(self):
        self.eps = {}

    def install(self, hub, names, opens, log):
        D = lib()["Double"]
        for n, o in zip(names, opens):
            d = D(n, log, o)
            hub.endpoints[n] = d
            self.eps[n] = d
        return self.eps

    def feed(self, name, payload):
        self.eps[name].script.append(payload)

    def open_ep(self, hub, name):
        return sut(hub.openCom, name)

    def end_op(self, idx, op, log):
        for d in self.eps.values():
            if d.script:
                del d.script[:]

    def teardown(self):
        pass


class UdpRig:
    """Two (or more) real UDPObject endpoints on 127.0.0.1.

    Endpoint E receives on port pE (bound by the library in openCom) and transmits to port qE, which
    belongs to a harness socket ('peer', the outside world).  Calls are observed by instance-level
    wrappers around E.getData / E.sendData (same log format as the doubles); the wire is observed at
    the peers: every sendData call on an open endpoint must produce exactly one datagram with that
    payload at its own peer, and nothing else may arrive anywhere."""

    TIMEOUT = 0.02
    synchronous = False     # what the endpoint's getData() returned is the truth, whatever was injected

    def __init__(self, ctx, ip="127.0.0.1", buflen=None):
        self.ctx = ctx
        self.ip = ip                # how the caller writes the loopback address: dotted quad or host name
        self.buflen = buflen        # None: the endpoints' default receive buffer (1024 bytes)
        self.eps = {}
        self.peers = {}
        self.reserve = {}
        self.rxport = {}
        self.inj = None
        self.injected = collections.Counter()
        self.orig_get = {}
        self.socks = []

    def _sock(self):
        s = socket.socket(socket.AF_INET, socket.SOCK_DGRAM)
        self.socks.append(s)
        s.bind(("127.0.0.1", 0))
        return s

    def install(self, hub, names, opens, log):
        self.log = log
        self.inj = self._sock()
        for n in names:
            peer = self._sock()
            peer.setblocking(False)
            self.peers[n] = peer
            res = self._sock()          # holds the receive port until the library binds it
            self.reserve[n] = res
            self.rxport[n] = res.getsockname()[1]
            sut(hub.newComPort, n, "UDP", self.ip, self.rxport[n], peer.getsockname()[1], self.TIMEOUT)
            ep = sut(hub.getCom, n)
            if ep is None:
                raise Violation("newComPort(%r, 'UDP', ...) did not register an endpoint" % n)
            if self.buflen is not None:
                sut(ep.setBufferLen, int(self.buflen))
            self.eps[n] = ep
            self._wrap(n, ep, log)
        for n, o in zip(names, opens):
            if o:
                self.open_ep(hub, n)
        return self.eps

    def _wrap(self, n, ep, log):
        og, os_ = ep.getData, ep.sendData
        self.orig_get[n] = og

        def getData():
            r = og()
            log.append(("rx", n, r))
            return r

        def sendData(data, *a, **kw):
            log.append(("tx", n, data))
            if ep.open:
                log.append(("wire", n, data))
            return os_(data, *a, **kw)

        ep.getData = getData
        ep.sendData = sendData

    def open_ep(self, hub, name):
        res = self.reserve.pop(name, None)
        if res is not None:
            res.close()
        try:
            return sut(hub.openCom, name)
        except LibError as e:
            # Not a permitted library outcome but an environment one: between releasing our reservation
            # and the library's bind() another process may have been handed the same ephemeral port.
            if isinstance(e.exc, OSError) and e.exc.errno == errno.EADDRINUSE:
                self.ctx.skip("loopback port taken by another process between reservation and bind")
            raise

    def feed(self, name, payload):
        if payload is None:
            return
        ep = self.eps[name]
        self.confirmed = None
        if ep.open and ep.comm_handle is not None:
            self.inj.sendto(payload.encode("utf-8"), ("127.0.0.1", self.rxport[name]))
            self.injected[name] += 1
            # wait (without consuming anything) until the datagram is readable on the endpoint's own socket: from then
            # on "it had not arrived yet" is no explanation for a receive that yields nothing
            try:
                r, _, _ = select.select([ep.comm_handle], [], [], 2.0)
            except (OSError, ValueError):
                r = []
            if r and payload != "":
                self.confirmed = (name, payload)

    def _drain(self, peer, want, deadline):
        got = []
        while True:
            try:
                data, _ = peer.recvfrom(4096)
                got.append(data.decode("utf-8"))
                continue
            except BlockingIOError:
                pass
            if len(got) >= want or time.monotonic() >= deadline:
                return got
            select.select([peer], [], [], 0.05)

    def end_op(self, idx, op, log):
        # 1. the wire: datagrams at each peer == payloads handed to sendData on that (open) endpoint
        want = collections.defaultdict(list)
        for e in log:
            if e[0] == "wire":
                want[e[1]].append(e[2])
        deadline = time.monotonic() + 2.0
        for n, peer in self.peers.items():
            got = self._drain(peer, len(want[n]), deadline)
            if collections.Counter(got) != collections.Counter(want[n]):
                raise Violation("op %d %r: datagrams seen by the peer of endpoint %s: %r, but sendData was called on "
                                "it (while open) with %r" % (idx, op, n, got, want[n]))
        # 2. consume injected datagrams the hub did not poll, so that later receive positions keep their
        #    own drawn fault (they are read through the endpoint's own public getData, not the hub)
        for e in log:
            if e[0] == "rx" and e[2] is not None:
                self.injected[e[1]] -= 1
        for n, c in self.injected.items():
            for _ in range(max(0, c)):
                self.orig_get[n]()
        self.injected.clear()

    def teardown(self):
        for ep in self.eps.values():
            h = getattr(ep, "comm_handle", None)
            if h is not None:
                try:
                    h.close()
                except OSError:
                    pass
        for s in self.socks:
            try:
                s.close()
            except OSError:
                pass


# ------------------------------------------------------------------------------------------
# the interpreter: run a history against hub + model, compare after every operation
# ------------------------------------------------------------------------------------------

def _diff(actual, expected):
    a, e = collections.Counter(actual), collections.Counter(expected)
    return "missing %s, unexpected %s" % (sorted((e - a).elements(), key=repr), sorted((a - e).elements(), key=repr))


def _check_events(model, log, spin_k, idx, op, flags):
    """Compare what was recorded during one operation with what the model demands.

    Receives are taken from the log (the endpoint's answer is the truth); deliveries and source sends
    are demanded from the model."""
    expected = []
    actual = []
    produced = None
    in_spin = spin_k is not None
    for e in log:
        t = e[0]
        if t == "rx":
            a, v = e[1], e[2]
            if v is None:
                if not model.open[a]:
                    flags |= F_CLOSED_RX
                if model.has_rule(a):
                    flags |= F_NODATA_RULED
                    if in_spin:
                        flags |= F_NODATA_SPIN_RULED
            else:
                d = model.deliveries(a, v)
                if d:
                    expected += d
                    flags |= F_DELIV
                    if len(d) > 1:
                        flags |= F_FANOUT
                    if a in model.fwd[a]:
                        flags |= F_SELF
                elif in_spin:
                    flags |= F_POLL_NORULE
                if model.adds and model.dels:
                    flags |= F_CHURN_RX
                if in_spin:
                    flags |= F_SPIN_RX
                if v == "":
                    flags |= F_EMPTY
        elif t == "src":
            if produced is None:
                produced = {}
            produced[e[2]] = e[1]
        elif t != "wire":
            actual.append(e)
    if produced:
        src_tx = [e for e in actual if e[0] == "tx" and e[2] in produced]
        actual = [e for e in actual if not (e[0] == "tx" and e[2] in produced)]
    else:
        src_tx = ()
    if actual != expected and collections.Counter(actual) != collections.Counter(expected):
        nodata = [e for e in actual if e[2] is None]
        raise Violation("op %d %r: deliveries differ from 'exactly once to each current destination and sink, "
                        "nothing else'%s: %s; received %s; rules %s" % (
                            idx, op, " (a no-data receive was passed on)" if nodata else "",
                            _diff(actual, expected), [e for e in log if e[0] == "rx"], model.describe()))
    # sources: spin(k) sends k values of each source to the source's own endpoint, to no other
    want = collections.Counter()
    if in_spin and spin_k > 0:
        for n in model.names:
            for g in model.srcs[n]:
                want[(n, g)] = spin_k
    if want or src_tx:
        got = collections.Counter((e[1], produced[e[2]]) for e in src_tx)
        vals = [e[2] for e in src_tx]
        if got != want or len(set(vals)) != len(vals):
            raise Violation("op %d %r: source values sent (endpoint, source)->count %s, a value sent twice: %s; "
                            "the property demands %s; rules %s" % (
                                idx, op, dict(got), len(set(vals)) != len(vals), dict(want), model.describe()))
        if want:
            flags |= F_SRC
    return flags


def _payload(mode, counter, buflen=1024):
    if mode == "msg":
        return "m%d" % counter
    if mode == "fit":
        # a message that fills the endpoint's receive buffer exactly (bufferLen bytes): still one whole message
        m = "m%d" % counter
        return m + "x" * (int(buflen) - len(m))
    if mode == "empty":
        return ""
    if mode == "none":
        return None
    raise HarnessError("bad receive mode %r" % (mode,))


def execute(n_ep, opens, ops, rig):
    """Run the history; raises Violation on the first operation after which hub and model disagree.
    Returns (flags, model)."""
    L = lib()
    names = EP_NAMES[:n_ep]
    log = []
    hub = sut(L["Comms"])
    flags = 0
    try:
        eps = rig.install(hub, names, opens, log)
        for n in names:
            if sut(hub.getCom, n) is not eps[n]:
                raise HarnessError("endpoint %s is not what the hub hands out" % n)
        model = Model(names, [bool(eps[n].open) for n in names])
        sink_fns = {}
        src_fns = {}
        src_count = [0]
        msg_count = 0

        # Handlers with an even index are plain functions (one object per index); handlers with an odd index are BOUND
        # METHODS of one recorder object per index, taken afresh at every registration: `rec.on_message` is a new
        # method object each time, equal (==) to the earlier ones but not identical.  Registering "the same handler"
        # again means registering an EQUAL callable, which is how a caller holding an object naturally writes it.
        class _SinkRec:
            def __init__(self, i):
                self.i = i

            def on_message(self, m):
                log.append(("sink", self.i, m))

        class _SrcRec:
            def __init__(self, i):
                self.i = i

            def read(self):
                src_count[0] += 1
                v = "s%d.%d" % (self.i, src_count[0])
                log.append(("src", self.i, v))
                return v

        def sink_fn(i):
            f = sink_fns.get(i)
            if f is None:
                if isinstance(i, int) and i % 2 == 1:
                    f = _SinkRec(i)
                else:
                    def f(m, _i=i):
                        log.append(("sink", _i, m))
                sink_fns[i] = f
            return f.on_message if isinstance(f, _SinkRec) else f

        def src_fn(i):
            f = src_fns.get(i)
            if f is None:
                if isinstance(i, int) and i % 2 == 1:
                    f = _SrcRec(i)
                else:
                    def f(_i=i):
                        src_count[0] += 1
                        v = "s%d.%d" % (_i, src_count[0])
                        log.append(("src", _i, v))
                        return v
                src_fns[i] = f
            return f.read if isinstance(f, _SrcRec) else f

        for idx, op in enumerate(ops):
            kind = op[0]
            if kind == "delrule":
                rules = [(a, b) for a in names for b in model.fwd[a]]
                a, b = rules[op[1] % len(rules)] if rules else (names[0], names[0])
                op = ["del", a, b]
                kind = "del"
            elif kind == "recvruled":
                ruled = [n for n in names if model.has_rule(n)]
                op = ["recv", ruled[op[1] % len(ruled)] if ruled else names[0], op[2]]
                kind = "recv"
            del log[:]
            spin_k = None
            fed_any = False
            if kind == "fwd" or kind == "del":
                a, b = op[1], op[2]
                changed = model.set_forward(a, b) if kind == "fwd" else model.del_forward(a, b)
                r = sut(hub.setForwardData if kind == "fwd" else hub.deleteForwardingRule, a, b)
                if bool(r) != changed:
                    raise Violation("op %d %r returned %r but the rule set %s; rules now %s" % (
                        idx, op, r, "changed" if changed else "did not change", model.describe()))
                if a not in model.fwd or b not in model.fwd:
                    flags |= F_UNKNOWN
                elif not changed and kind == "fwd":
                    flags |= F_DUP
                if changed and kind == "del":
                    flags |= F_DEL_OK
            elif kind == "sink" or kind == "src":
                a, h = op[1], op[2]
                if kind == "sink":
                    changed = model.set_sink(a, h)
                    r = sut(hub.setDataSink, a, None if h is None else sink_fn(h))
                else:
                    changed = model.set_source(a, h)
                    r = sut(hub.setDataSource, a, None if h is None else src_fn(h))
                if bool(r) != changed:
                    raise Violation("op %d %r returned %r but the rule set %s; rules now %s" % (
                        idx, op, r, "changed" if changed else "did not change", model.describe()))
                if a not in model.fwd or h is None:
                    flags |= F_UNKNOWN
                elif not changed:
                    flags |= F_DUP
            elif kind == "recv":
                a = op[1]
                fed = None
                if a in eps:
                    msg_count += 1
                    fed = _payload(op[2], msg_count, getattr(rig, "buflen", None) or 1024)
                    rig.feed(a, fed)
                    fed_any = True
                else:
                    flags |= F_UNKNOWN
                r = sut(hub.getData, a)
                rx = [e for e in log if e[0] == "rx"]
                if len(rx) > 1 or any(e[1] != a for e in rx):
                    raise Violation("op %d %r: getData(%r) may receive on %r only, and once; receives seen: %s" % (
                        idx, op, a, a, rx))
                if rig.synchronous and fed is not None and model.open[a] and not rx:
                    raise Violation("op %d %r: message %r was waiting on the open endpoint %r but getData(%r) did "
                                    "not receive it" % (idx, op, fed, a, a))
                if getattr(rig, "confirmed", None) == (a, fed) and model.open[a] and not any(e[2] is not None for e in rx):
                    raise Violation("op %d %r: the datagram %r was readable on the open UDP endpoint %r (confirmed on its "
                                    "socket before the call) but getData(%r) received nothing" % (idx, op, fed[:40], a, a))
                # the return value of hub.getData is not part of the property text (neither for a message nor for
                # "no data"): it is deliberately not checked
            elif kind == "spin":
                spin_k = op[1]
                if spin_k < 0:
                    raise HarnessError("spin(k<0) never returns; not generated")
                feed = op[2]
                waiting = []
                for it in range(spin_k):
                    row = feed[it] if it < len(feed) else ()
                    for j, n in enumerate(names):
                        msg_count += 1
                        pl = _payload(row[j] if j < len(row) else "none", msg_count, getattr(rig, "buflen", None) or 1024)
                        rig.feed(n, pl)
                        if pl is not None:
                            waiting.append((n, pl))
                        fed_any = True
                sut(hub.spin, spin_k)
                if rig.synchronous:
                    # spin "executes all forwarding rules, input and output functions" (its documentation): one
                    # message per iteration waiting on an OPEN endpoint that currently has a destination or a sink is
                    # received during the spin (and then falls under the delivery clause) - the spin analogue of the
                    # demand made of getData above.  Endpoints without rules need not be polled.
                    seen = set((e[1], e[2]) for e in log if e[0] == "rx")
                    for n, pl in waiting:
                        if model.open[n] and model.has_rule(n) and (n, pl) not in seen:
                            raise Violation("op %d %r: message %r was waiting on the open endpoint %r, which has a "
                                            "destination or sink, but spin(%d) never received it; rules %s" % (
                                                idx, op, pl, n, spin_k, model.describe()))
            elif kind == "send":
                a = op[1]
                msg_count += 1
                m = "m%d" % msg_count
                if msg_count % 2 == 0:
                    # every other message handed to sendData is LONGER than the endpoint's receive-buffer length (which is
                    # a property of receiving): it is still one message, handed to the endpoint - and put on the wire - once
                    m = m + "y" * ((getattr(rig, "buflen", None) or 1024) + 9 - len(m))
                sut(hub.sendData, a, m)
                want = [("tx", a, m)] if a in eps else []
                got = [e for e in log if e[0] != "wire"]
                if got != want:
                    raise Violation("op %d %r: sendData(%r, %r) must hand the message to that endpoint once and do "
                                    "nothing else: %s" % (idx, op, a, m, _diff(got, want)))
                if a not in eps:
                    flags |= F_UNKNOWN
                if not rig.synchronous:
                    rig.end_op(idx, op, log)
                continue
            elif kind in ("open", "close", "openall", "closeall"):
                # The property says nothing about what open/close return; what matters afterwards is whether
                # each endpoint is open (a closed port yields no data), and that is read off the endpoints.
                if kind == "open":
                    if op[1] in eps:
                        rig.open_ep(hub, op[1])
                    else:
                        sut(hub.openCom, op[1])
                        flags |= F_UNKNOWN
                elif kind == "close":
                    sut(hub.closeCom, op[1])
                    if op[1] not in eps:
                        flags |= F_UNKNOWN
                elif kind == "openall":
                    sut(hub.openAll)
                else:
                    sut(hub.closeAll)
                for n in names:
                    model.open[n] = bool(eps[n].open)
            else:
                raise HarnessError("unknown op %r" % (op,))
            if log or spin_k:
                flags = _check_events(model, log, spin_k, idx, op, flags)
            if fed_any or not rig.synchronous:
                rig.end_op(idx, op, log)
        return flags, model
    finally:
        rig.teardown()


def _apply_flags(flags, ctx):
    for bit, name in FLAG_NAMES.items():
        if flags & bit:
            ctx.label(name)
    ctx.nontrivial(bool(flags & NT_MASK))


# ------------------------------------------------------------------------------------------
# clause (a): exhaustive enumeration of short histories over a concrete alphabet, 2 endpoints
# ------------------------------------------------------------------------------------------

ALPHABET = [
    ["fwd", "A", "B"], ["fwd", "B", "A"], ["fwd", "A", "A"], ["fwd", "A", "X"], ["fwd", "X", "B"],
    ["del", "A", "B"], ["del", "B", "A"], ["del", "A", "A"], ["del", "A", "X"], ["del", "X", "B"],
    ["sink", "A", 0], ["sink", "A", 1], ["sink", "B", 0], ["sink", "X", 0], ["sink", "A", None],
    ["src", "A", 0], ["src", "B", 0], ["src", "B", 1], ["src", "X", 0],
    ["recv", "A", "msg"], ["recv", "A", "none"], ["recv", "B", "msg"], ["recv", "B", "none"], ["recv", "X", "msg"],
    ["send", "A"],
    ["spin", 1, [["msg", "msg"]]], ["spin", 1, []], ["spin", 2, [["msg", "none"], ["none", "msg"]]],
    ["close", "A"],
]
NA = len(ALPHABET)          # 29: 29 + 29^2 + ... + 29^5 = 21.2 M histories
# The state-graph clause is cheap (states x operations), so it applies a superset of the alphabet.
GRAPH_ALPHABET = ALPHABET + [
    ["send", "X"], ["src", "A", None], ["open", "A"], ["recv", "A", "empty"], ["recv", "B", "empty"],
    ["spin", 3, [["none", "msg"], ["msg", "msg"], ["empty", "none"]]], ["spin", 0, []],
]
NG = len(GRAPH_ALPHABET)
DEPTH = {"quick": 4, "thorough": 5}


def _enum_size(tier):
    return sum(NA ** L for L in range(1, DEPTH[tier] + 1))


def _enum_indices(i):
    """i-th history in (length, lexicographic) order -> tuple of alphabet indices."""
    L = 1
    while i >= NA ** L:
        i -= NA ** L
        L += 1
    out = []
    for _ in range(L):
        i, d = divmod(i, NA)
        out.append(d)
    return tuple(reversed(out))


def _enum_case(i, tier=None):
    return {"n_ep": 2, "open": [True, True], "ops": [ALPHABET[d] for d in _enum_indices(i)]}


def c_history(case, ctx):
    """Plain predicate shared by (a), (b), (c): a history on in-memory doubles."""
    flags, _ = execute(case["n_ep"], case["open"], case["ops"], DoubleRig())
    _apply_flags(flags, ctx)
    ctx.label("n_ep=%d" % case["n_ep"])


def enum_run_range(lo, hi, tier, stats):
    """Bulk version of c_history over indices [lo, hi): same interpreter, no per-case bookkeeping."""
    from vf import ser
    hist = collections.Counter()
    nontriv = 0
    evals = 0
    opens = [True, True]
    # incremental decoding: keep the digit vector and add one
    if hi > lo:
        digits = list(_enum_indices(lo))
    for i in range(lo, hi):
        ops = [ALPHABET[d] for d in digits]
        try:
            flags, _ = execute(2, opens, ops, DoubleRig())
        except Violation as v:
            stats.failure = (ser.to_jsonable({"n_ep": 2, "open": [True, True], "ops": ops}), str(v))
            break
        evals += 1
        hist[flags] += 1
        if flags & NT_MASK:
            nontriv += 1
            if len(stats.samples) < stats.MAX_SAMPLES and len(ops) >= 3 and (flags & F_CHURN_RX):
                stats.samples.append({"case": {"n_ep": 2, "open": [True, True], "ops": ops},
                                      "labels": [n for b, n in FLAG_NAMES.items() if flags & b]})
        # next digit vector
        j = len(digits) - 1
        while j >= 0 and digits[j] == NA - 1:
            digits[j] = 0
            j -= 1
        if j < 0:
            digits = [0] * (len(digits) + 1)
        else:
            digits[j] += 1
    stats.evals += evals
    stats.nontrivial_bulk += nontriv
    for flags, c in hist.items():
        for bit, name in FLAG_NAMES.items():
            if flags & bit:
                stats.labels[name] += c
    stats.labels["length<=%d over %d ops" % (DEPTH[tier], NA)] += evals
    stats.exhaustive = stats.failure is None


# ------------------------------------------------------------------------------------------
# clause (b): every alphabet operation from every reachable rule-table state
# ------------------------------------------------------------------------------------------

_GRAPH = {}


def _model_step(model, op):
    """Model-only transition (no library): used to enumerate the state graph."""
    k = op[0]
    if k == "fwd":
        model.set_forward(op[1], op[2])
    elif k == "del":
        model.del_forward(op[1], op[2])
    elif k == "sink":
        model.set_sink(op[1], op[2])
    elif k == "src":
        model.set_source(op[1], op[2])
    elif k == "close":
        if op[1] in model.open:
            model.open[op[1]] = False
    elif k == "open":
        if op[1] in model.open:
            model.open[op[1]] = True


def _graph():
    """BFS over model states reachable with GRAPH_ALPHABET on 2 endpoints -> list of (shortest path, op index).

    The state includes 'a forwarding rule was ever set for this name' so that tables that were emptied
    again are explored separately from tables never used."""
    if "pairs" in _GRAPH:
        return _GRAPH["pairs"]
    names = EP_NAMES[:2]

    def replay(path):
        m = Model(names, [True, True])
        for d in path:
            _model_step(m, GRAPH_ALPHABET[d])
        return m

    seen = {replay(()).key(): ()}
    order = [()]
    q = collections.deque([()])
    while q:
        path = q.popleft()
        for d in range(NG):
            p2 = path + (d,)
            k = replay(p2).key()
            if k not in seen:
                seen[k] = p2
                order.append(p2)
                q.append(p2)
    _GRAPH["pairs"] = [(p, d) for p in order for d in range(NG)]
    _GRAPH["states"] = len(order)
    _GRAPH["maxdepth"] = max(len(p) for p in order)
    return _GRAPH["pairs"]


def probe_ops(n_ep):
    """Operations that make the whole rule table observable: a message on every endpoint, then one spin
    with a message waiting everywhere.  Appended after the operation of interest so that an operation
    whose *return value* is right but which left the hub in the wrong state is seen as well."""
    names = EP_NAMES[:n_ep]
    return [["recv", n, "msg"] for n in names] + [["spin", 1, [["msg"] * n_ep]]]


def _graph_case(i, tier=None):
    p, d = _graph()[i]
    return {"n_ep": 2, "open": [True, True], "ops": [GRAPH_ALPHABET[x] for x in p] + [GRAPH_ALPHABET[d]] + probe_ops(2)}


def c_state_graph(case, ctx):
    c_history(case, ctx)
    ctx.label("path length %d" % (len(case["ops"]) - 1 - len(probe_ops(2))))


# ------------------------------------------------------------------------------------------
# clause (c): random histories to depth 60, 1..4 endpoints, fault drawn at every receive position
# ------------------------------------------------------------------------------------------

_MODES = ("msg", "msg", "msg", "none", "none", "empty", "fit")
_HANDLES = (0, 1, 2) * 4 + (None,)
_KINDS = (("recvruled",) * 5 + ("fwd",) * 5 + ("delrule",) * 3 + ("sink",) * 3 + ("recv",) * 3 + ("src",) * 2 +
          ("spin",) * 2 + ("del", "send", "open"))
_KINDS_DOUBLES = _KINDS + ("close", "openall", "closeall")
_OP_BITS = 41           # enough for the widest op (spin with 3 x 4 feed entries)


def _decode_op(x, pool, n_ep, udp):
    """One drawn integer -> one operation (mixed-radix digits).  One draw per operation keeps generation
    an order of magnitude cheaper than nested strategies; the *decoded* list is the case."""
    kinds = _KINDS if udp else _KINDS_DOUBLES
    x, k = divmod(x, len(kinds))
    kind = kinds[k]
    if kind in ("fwd", "del"):
        x, i = divmod(x, len(pool))
        x, j = divmod(x, len(pool))
        return [kind, pool[i], pool[j]]
    if kind in ("sink", "src"):
        x, i = divmod(x, len(pool))
        x, h = divmod(x, len(_HANDLES))
        return [kind, pool[i], _HANDLES[h]]
    if kind == "recv":
        x, i = divmod(x, len(pool))
        x, m = divmod(x, len(_MODES))
        return [kind, pool[i], _MODES[m]]
    if kind == "recvruled":
        x, i = divmod(x, 6)
        x, m = divmod(x, len(_MODES))
        return [kind, i, _MODES[m]]
    if kind == "delrule":
        return [kind, x % 6]
    if kind in ("send", "open", "close"):
        return [kind, pool[x % len(pool)]]
    if kind == "spin":
        x, k = divmod(x, 3 if udp else 4)
        x, rows = divmod(x, 4)
        feed = []
        for _ in range(rows):
            row = []
            for _ in range(n_ep):
                x, m = divmod(x, len(_MODES))
                row.append(_MODES[m])
            feed.append(row)
        return [kind, k, feed]
    return [kind]


@st.composite
def histories(draw, udp=False):
    """n_ep, initial open flags and an op-list.  Length is drawn from bands (Hypothesis' own list
    lengths are mostly tiny); names favour existing endpoints; every receive position (stand-alone or
    inside a spin) carries its own drawn msg / no-data / empty-message choice."""
    n_ep = 2 if udp else draw(st.integers(1, 4))
    valid = list(EP_NAMES[:n_ep])
    pool = valid * 4 + [UNKNOWN]
    if n_ep < 4 and not udp:
        pool.append(EP_NAMES[n_ep])          # a well-formed name that does not exist on this hub
    lo, hi = draw(st.sampled_from([(1, 5), (5, 12)] if udp else [(1, 6), (6, 16), (16, 35), (35, 60)]))
    raw = draw(st.lists(st.integers(0, 2 ** _OP_BITS - 1), min_size=lo, max_size=hi))
    ops = [_decode_op(x, pool, n_ep, udp) for x in raw]
    if udp:
        # socket cases are ~50x dearer than doubles: start most of them from a hub that already has rules
        pre = draw(st.lists(st.integers(0, 3 * 2 * 2 * 3 - 1), min_size=0, max_size=4))
        regs = []
        for x in pre:
            x, t = divmod(x, 3)
            x, i = divmod(x, 2)
            x, j = divmod(x, 2)
            regs.append(["fwd", valid[i], valid[j]] if t == 0 else [("sink", "src")[t - 1], valid[i], x % 3])
        ops = regs + ops
    opens = draw(st.lists(st.sampled_from([True, True, True, False]), min_size=n_ep, max_size=n_ep))
    case = {"n_ep": n_ep, "open": opens, "ops": ops}
    if udp:
        case["ip"] = draw(st.sampled_from(["127.0.0.1", "127.0.0.1", "localhost"]))
        case["buflen"] = draw(st.sampled_from([None, None, 64, 16]))
    return case


RANDOM_CASES = histories()


def _label_history(case, flags, model, ctx):
    _apply_flags(flags, ctx)
    ctx.label("n_ep=%d" % case["n_ep"])
    n = len(case["ops"])
    ctx.label("len %s" % ("1-5" if n <= 5 else "6-15" if n <= 15 else "16-34" if n <= 34 else "35-60"))
    ctx.label("distinct sinks registered %d" % len({h for v in model.sinks.values() for h in v}))
    ctx.label("distinct sources registered %d" % len({h for v in model.srcs.values() for h in v}))
    ctx.label("successful deletes %s" % (model.dels if model.dels < 3 else ">=3"))


def c_random(case, ctx):
    # the drawn history, then the probe (ops with index >= len(case["ops"]) in a message are the probe)
    flags, model = execute(case["n_ep"], case["open"][:case["n_ep"]], case["ops"] + probe_ops(case["n_ep"]),
                           DoubleRig())
    _label_history(case, flags, model, ctx)


# ------------------------------------------------------------------------------------------
# clause (d): the same histories on two real UDPObject endpoints (127.0.0.1)
# ------------------------------------------------------------------------------------------

UDP_CASES = histories(udp=True)


def c_udp(case, ctx):
    for op in case["ops"]:
        if op[0] in ("close", "closeall"):
            ctx.skip("UDPObject.closeCom is outside this property (ENOTCONN on Linux)")
    flags, model = execute(case["n_ep"], case["open"][:case["n_ep"]], case["ops"] + probe_ops(case["n_ep"]),
                           UdpRig(ctx, case.get("ip", "127.0.0.1"), case.get("buflen")))
    ctx.label("udp address written as %s" % case.get("ip", "127.0.0.1"))
    ctx.label("receive buffer %s" % (case.get("buflen") or "default"))
    _label_history(case, flags, model, ctx)


CLAUSES = [
    Clause("enum_short_histories", c_history, kind="enum", size=_enum_size, case_at=_enum_case,
           run_range=enum_run_range,
           doc="every history of length <=4 (quick) / <=5 (thorough) over the 29-operation alphabet, 2 doubles"),
    Clause("state_graph_every_op", c_state_graph, kind="enum", size=lambda tier: len(_graph()),
           case_at=_graph_case,
           doc="every alphabet operation applied in every reachable rule-table state (shortest path replayed), "
               "followed by a probe that makes the resulting rule table observable"),
    Clause("random_histories", c_random, RANDOM_CASES, 2000, 48000,
           doc="op-lists to depth 60, 1..4 doubles, 0..3 sinks/sources, no-data fault drawn per receive position"),
    Clause("udp_loopback", c_udp, UDP_CASES, 400, 4800,
           doc="the same interpreter on two real UDPObject endpoints on 127.0.0.1 with harness-owned peers"),
]
